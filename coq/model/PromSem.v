(* Reference meaning of the SQL emitted for Prometheus / Pyroscope selection, over small in-memory
   tables.  TRUSTED: this file is the reading of ClickHouse semantics relative to which the C17
   selection theorems are stated (no ClickHouse can be run in the sandbox).  It interprets the
   Sql.v object tree itself (the same tree whose rendering is compared byte for byte with the
   implementation's SQL), for the fragment these planners emit:
     - comparisons == != < <= > >= over integers, strings and dates (UInt8 0/1 results);
       `and` / `or` lists;  `x IN (a, b, ..)`;  `x IN (cte)`;  `x IN (SELECT ..)` (UInt8 0/1 as well);
     - match(haystack, pattern) = RE2 *search* (ClickHouse docs: "checks whether the string matches the
       regular expression pattern in re2 syntax"; an unanchored pattern may match anywhere) — the
       regular-expression engine is the oracle `re_match`;
     - intDiv (truncating), + - * % on integers;
     - bitShiftLeft(toUInt64(c), i) keeps the width of its first argument (bits >= 64 are lost; before
       fix 052673d the argument was the UInt8 condition itself), the sum of the shifted conditions is exact,
       groupBitOr is the bitwise OR over the group;
     - SELECT aliases are visible in WHERE / GROUP BY / ORDER BY and win over columns of the same name;
     - arrayExists(x -> c, arr) binds x.1, x.2 to the tuple elements; splitByChar(':', s)[k] is 1-based.
     - a spliced decimal numeral (Raw "123") is the integer it prints (lib/DecN.v: Z_of_dec inverts the printer).
   Executable definitions only. *)
From Coq Require Import List ZArith NArith String Ascii Bool.
From Qryn Require Import lib.Strs lib.DecN model.Sql model.Logql model.LogqlPlan model.PromSelect.
Import ListNotations.
Open Scope string_scope.

Inductive val := VI (z : Z) | VS (s : string) | VArr (l : list val) | VTup (l : list val).
Definition env := string -> option val.

Definition b2z (b : bool) : Z := if b then 1%Z else 0%Z.
Definition b2v (b : bool) : val := VI (b2z b).
Definition truthy (v : val) : option bool := match v with VI z => Some (negb (Z.eqb z 0)) | _ => None end.
Definition is_true (o : option val) : bool := match o with Some (VI z) => negb (Z.eqb z 0) | _ => false end.

Definition val_eqb (a b : val) : option bool :=
  match a, b with
  | VI x, VI y => Some (Z.eqb x y)
  | VS x, VS y => Some (String.eqb x y)
  | _, _ => None
  end.
Definition val_ltb (a b : val) : option bool :=
  match a, b with
  | VI x, VI y => Some (Z.ltb x y)
  | VS x, VS y => Some (str_ltb x y)
  | _, _ => None
  end.
Definition omap {A B} (f : A -> B) (o : option A) : option B := match o with Some a => Some (f a) | None => None end.

Fixpoint all_some {A} (l : list (option A)) : option (list A) :=
  match l with
  | [] => Some []
  | Some a :: r => omap (cons a) (all_some r)
  | None :: _ => None
  end.

Definition lop_apply (fn : lop) (vs : list val) : option val :=
  match fn with
  | OAnd => omap (fun bs => b2v (forallb (fun b => b) bs)) (all_some (map truthy vs))
  | OOr => omap (fun bs => b2v (existsb (fun b => b) bs)) (all_some (map truthy vs))
  | OEq => match vs with [a; b] => omap b2v (val_eqb a b) | _ => None end
  | ONeq => match vs with [a; b] => omap (fun x => b2v (negb x)) (val_eqb a b) | _ => None end
  | OLt => match vs with [a; b] => omap b2v (val_ltb a b) | _ => None end
  | OGt => match vs with [a; b] => omap b2v (val_ltb b a) | _ => None end
  | OLe => match vs with [a; b] => omap (fun x => b2v (negb x)) (val_ltb b a) | _ => None end
  | OGe => match vs with [a; b] => omap (fun x => b2v (negb x)) (val_ltb a b) | _ => None end
  | OOther _ => None
  end.

(* splitByChar on one separator byte *)
Fixpoint split_char (c : ascii) (s : string) (cur : string) : list string :=
  match s with
  | EmptyString => [rev_s cur ""]
  | String x r => if Ascii.eqb x c then rev_s cur "" :: split_char c r "" else split_char c r (String x cur)
  end.
Fixpoint subst_braces (tmpl : string) (args : list string) : string :=
  match tmpl with
  | String "{" (String "}" r) => match args with a :: ar => a ++ subst_braces r ar | [] => subst_braces r [] end
  | String x r => String x (subst_braces r args)
  | EmptyString => EmptyString
  end.

Definition arith (sep : string) (a b : Z) : option Z :=
  if String.eqb sep " + " then Some (a + b)%Z
  else if String.eqb sep " - " then Some (a - b)%Z
  else if String.eqb sep " * " then Some (a * b)%Z
  else if String.eqb sep " % " then Some (Z.rem a b)
  else if String.eqb sep " / " then (if Z.eqb b 0 then None else Some (Z.quot a b))
  else None.

Section EVAL.
  Variable re_match : string -> string -> bool.          (* re_match haystack pattern : RE2 search *)
  Variable cte : select -> option (list N).              (* meaning of a WITH query used on the right of IN *)

  Definition fn_apply (name : string) (vs : list val) : option val :=
    if String.eqb name "match" then
      match vs with [VS h; VS p] => Some (b2v (re_match h p)) | _ => None end
    else if String.eqb name "intDiv" then
      match vs with [VI a; VI b] => if Z.eqb b 0 then None else Some (VI (Z.quot a b)) | _ => None end
    else if String.eqb name "splitByChar" then
      match vs with [VS (String c EmptyString); VS s] => Some (VArr (map VS (split_char c s ""))) | _ => None end
    else if String.eqb name "format" then
      match vs with
      | VS t :: args => omap (fun ss => VS (subst_braces t ss))
                          (all_some (map (fun v => match v with VS s => Some s | _ => None end) args))
      | _ => None end
    else None.

  Fixpoint ev (rho : env) (e : expr) {struct e} : option val :=
    let evl := (fix evl (l : list expr) : list (option val) :=
                  match l with [] => [] | x :: r => ev rho x :: evl r end) in
    match e with
    | Id s => rho s
    | StrV s => Some (VS s)
    | IntV z => Some (VI z)
    | DateV d => Some (VI d)                              (* a Date column compared with 'YYYY-MM-DD' *)
    | Raw s => omap VI (Z_of_dec s)                       (* a spliced decimal numeral (the fingerprints of labelsGetter's IN list) *)
    | LOp fn cl => match all_some (evl cl) with Some vs => lop_apply fn vs | None => None end
    | In l r =>
      match ev rho l with
      | Some v =>
        match r with
        | [WRef _ q] => match v, cte q with
                        | VI z, Some fps => Some (b2v (existsb (N.eqb (Z.to_N z)) fps))
                        | _, _ => None end
        | [SubQ q] => match v, cte q with                    (* x IN (SELECT ..): the same, the query written in place *)
                      | VI z, Some fps => Some (b2v (existsb (N.eqb (Z.to_N z)) fps))
                      | _, _ => None end
        | _ => match all_some (evl r) with
               | Some vs => omap (fun bs => b2v (existsb (fun b => b) bs)) (all_some (map (val_eqb v) vs))
               | None => None end
        end
      | None => None
      end
    | Col x _ => ev rho x
    | Idx a k => match ev rho a, ev rho k with               (* arr[i], 1-based; outside the array: the default '' *)
                 | Some (VArr l), Some (VI i) => Some (nth (Z.to_nat (i - 1)) l (VS ""))
                 | _, _ => None end
    | Fn name args =>
      if String.eqb name "arrayExists" then
        match args with
        | [Sep _ [Id _; body]; arr] =>                       (* x -> body *)
          match ev rho arr with
          | Some (VArr items) =>
            omap (fun bs => b2v (existsb (fun b => b) bs))
              (all_some (map (fun it =>
                 match it with
                 | VTup [a; b] =>
                   omap (fun v => is_true (Some v))
                     (ev (fun n => if String.eqb n "x.1" then Some a else if String.eqb n "x.2" then Some b else rho n) body)
                 | _ => None end) items))
          | _ => None end
        | _ => None end
      else match all_some (evl args) with Some vs => fn_apply name vs | None => None end
    | Sep sep parts =>
      match parts with
      | [Raw _; Sep _ [x; Id _]; Raw _] => ev rho x          (* (expr as alias) *)
      | [a; b] => match ev rho a, ev rho b with
                  | Some (VI x), Some (VI y) => omap VI (arith sep x y)
                  | _, _ => None end
      | _ => None
      end
    | _ => None
    end.

  (* ---- aggregate level: HAVING over the rows of one group ---- *)
  Definition shl8 (b : Z) (i : N) : N := N.modulo (N.shiftl (Z.to_N b) i) (2 ^ 64).   (* bitShiftLeft(toUInt64(c), i) *)
  Fixpoint bitset_row (cl : list expr) (i : N) (rho : env) : option N :=
    match cl with
    | [] => Some 0%N
    | c :: r => match ev rho c, bitset_row r (i + 1) rho with
                | Some (VI b), Some rest => Some (shl8 b i + rest)%N
                | _, _ => None end
    end.
  Fixpoint eva (group : list env) (e : expr) {struct e} : option val :=
    let eval := (fix eval (l : list expr) : list (option val) :=
                   match l with [] => [] | x :: r => eva group x :: eval r end) in
    match e with
    | BitSetAnd cl => omap (fun ms => VI (Z.of_N (fold_left N.lor ms 0%N))) (all_some (map (bitset_row cl 0) group))
    | IntV z => Some (VI z)
    | LOp fn cl => match all_some (eval cl) with Some vs => lop_apply fn vs | None => None end
    | _ => None
    end.

  Definition env_fp (rho : env) : option N := match rho "fingerprint" with Some (VI z) => Some (Z.to_N z) | _ => None end.
  Definition opt_eqb_N (a : option N) (b : N) : bool := match a with Some x => N.eqb x b | None => false end.

  (* SELECT fingerprint FROM <rows> [WHERE w] GROUP BY fingerprint [HAVING h] *)
  Definition eval_fpq (q : select) (rows : list env) : list N :=
    let rows1 := match s_where q with
                 | Some w => filter (fun rho => is_true (ev rho w)) rows
                 | None => rows end in
    let fps := nodup N.eq_dec (flat_map (fun rho => match env_fp rho with Some f => [f] | None => [] end) rows1) in
    match s_having q with
    | Some h => filter (fun fp => is_true (eva (filter (fun rho => opt_eqb_N (env_fp rho) fp) rows1) h)) fps
    | None => fps
    end.
  (* diagnostics: some row on which the WHERE / HAVING has no value (an ill-typed or unknown form) *)
  Definition fpq_undefined (q : select) (rows : list env) : bool :=
    match s_where q with
    | Some w => existsb (fun rho => match ev rho w with Some (VI _) => false | _ => true end) rows
    | None => false end.
End EVAL.

(* ================= tables ================= *)
Record ginrow := { g_date : Z; g_key : string; g_val : string; g_fp : N; g_type : Z }.
Record samplerow := { sm_fp : N; sm_type : Z; sm_ts_ns : Z; sm_value : Z }.
Record tsrow := { t_date : Z; t_fp : N; t_type : Z; t_labels : labels }.
Record database := { d_gin : list ginrow; d_samples : list samplerow; d_series : list tsrow }.

Definition gin_env (r : ginrow) : env := fun n =>
  if String.eqb n "date" then Some (VI (g_date r))
  else if String.eqb n "key" then Some (VS (g_key r))
  else if String.eqb n "val" then Some (VS (g_val r))
  else if String.eqb n "fingerprint" then Some (VI (Z.of_N (g_fp r)))
  else if String.eqb n "type" then Some (VI (g_type r))
  else None.

Definition sample_base_env (r : samplerow) : env := fun n =>
  if String.eqb n "samples.fingerprint" then Some (VI (Z.of_N (sm_fp r)))
  else if String.eqb n "samples.timestamp_ns" then Some (VI (sm_ts_ns r))
  else if String.eqb n "samples.value" then Some (VI (sm_value r))
  else if String.eqb n "type" then Some (VI (sm_type r))
  else if String.eqb n "samples.type" then Some (VI (sm_type r))
  else None.

Section MAIN.
  Variable re_match : string -> string -> bool.
  Definition no_cte : select -> option (list N) := fun _ => None.

  (* fp_sel evaluated over the label index *)
  (* a fingerprint query may itself use fingerprint IN (SELECT fingerprint ..) (one level: the sub-queries of
     fingerprintsQuery are plain label-index queries over the same table) *)
  Definition eval_fp_sel (q : select) (gin : list ginrow) : list N :=
    eval_fpq re_match (fun q' => Some (eval_fpq re_match no_cte q' (map gin_env gin))) q (map gin_env gin).

  (* aliases of the SELECT list, evaluated over the table row, shadow the table's columns *)
  Definition alias_env (cte : select -> option (list N)) (cols : list expr) (base : env) : env := fun n =>
    match get_col cols n with
    | Some e => ev re_match cte base e
    | None => base n
    end.

  Definition key_lt (a b : list Z) : bool :=
    (fix go (a b : list Z) : bool :=
       match a, b with
       | x :: ra, y :: rb => if Z.ltb x y then true else if Z.ltb y x then false else go ra rb
       | _, _ => false
       end) a b.

  (* the ungrouped main query of TranspileLabelMatchers (hints.Step = 0, or a range-vector function):
     FROM <samples> WHERE .. ORDER BY .. [LIMIT n], projected on (fingerprint, value, timestamp_ms) *)
  Definition eval_main (q : select) (db : database) : option (list row) :=
    let cte := fun fq => Some (eval_fp_sel fq (d_gin db)) in
    let envs := map (fun r => alias_env cte (s_cols q) (sample_base_env r)) (d_samples db) in
    let kept := match s_where q with
                | Some w => filter (fun rho => is_true (ev re_match cte rho w)) envs
                | None => envs end in
    let keyed := map (fun rho =>
                        (all_some (map (fun o => match o with
                                                 | Ord x true => match ev re_match cte rho x with Some (VI z) => Some z | _ => None end
                                                 | _ => None end) (s_orderby q)),
                         match rho "fingerprint", rho "value", rho "timestamp_ms" with
                         | Some (VI f), Some (VI v), Some (VI t) => Some {| r_fp := Z.to_N f; r_val := v; r_ts := t |}
                         | _, _, _ => None end)) kept in
    match all_some (map (fun kr => match kr with (Some k, Some r) => Some (k, r) | _ => None end) keyed) with
    | None => None
    | Some krs =>
      let sorted := map snd (isort (fun a b => key_lt (fst a) (fst b)) krs) in
      match s_groupby q, s_limit q with
      | [], None => Some sorted
      | [], Some (IntV n) => Some (firstn (Z.to_nat n) sorted)
      | _, _ => None
      end
    end.

  (* the step-bucketing wrapper of processHints:
       SELECT fingerprint, argMax(spls.value, spls.timestamp_ms) as value, <bucket> as timestamp_ms
       FROM spls GROUP BY timestamp_ms, fingerprint ORDER BY fingerprint asc, timestamp_ms asc
     argMax over equal timestamps is unspecified in ClickHouse: the model takes the last such row *)
  Definition fpts_eqb (a b : N * Z) : bool := N.eqb (fst a) (fst b) && Z.eqb (snd a) (snd b).
  Fixpoint dedup {A} (eqb : A -> A -> bool) (l : list A) (seen : list A) : list A :=
    match l with
    | [] => []
    | x :: r => if existsb (eqb x) seen then dedup eqb r seen else x :: dedup eqb r (x :: seen)
    end.
  Definition eval_bucketed (q : select) (db : database) : option (list row) :=
    match s_from q, s_cols q with
    | Some (WRef _ inner), [_; Col (Fn _ [_; _]) _; Col b _] =>
      match eval_main inner db with
      | None => None
      | Some rows =>
        let bucket := fun r : row =>
          ev re_match no_cte (fun n => if String.eqb n "spls.timestamp_ms" then Some (VI (r_ts r)) else None) b in
        match all_some (map (fun r => match bucket r with Some (VI t) => Some (t, r) | _ => None end) rows) with
        | None => None
        | Some brs =>
          let keys := dedup fpts_eqb (map (fun br => (r_fp (snd br), fst br)) brs) [] in
          let agg := map (fun k =>
                       let grp := filter (fun br => fpts_eqb (r_fp (snd br), fst br) k) brs in
                       let best := fold_left (fun acc br => match acc with
                                                            | None => Some (snd br)
                                                            | Some a => if Z.leb (r_ts a) (r_ts (snd br)) then Some (snd br) else acc end) grp None in
                       match best with
                       | Some a => {| r_fp := fst k; r_val := r_val a; r_ts := snd k |}
                       | None => {| r_fp := fst k; r_val := 0; r_ts := snd k |} end) keys in
          Some (isort (fun a b => key_lt [Z.of_N (r_fp a); r_ts a] [Z.of_N (r_fp b); r_ts b]) agg)
        end
      end
    | _, _ => None
    end.

  Definition eval_prom (q : select) (db : database) : option (list row) :=
    match s_groupby q with
    | [] => eval_main q db
    | _ => eval_bucketed q db
    end.
End MAIN.

(* ---- the labels request of labelsGetter:
     SELECT fingerprint, JSONExtractKeysAndValues(labels, 'String') as labels FROM time_series WHERE fingerprint IN (..) and date >= .. and date <= ..
   over the rows of time_series.  The second column is read as the label pairs of the row's document (the decoding of the
   stored JSON document is not this property's subject: t_labels is the decoded document). ---- *)
Definition ts_row_env (r : tsrow) : env := fun n =>
  if String.eqb n "date" then Some (VI (t_date r))
  else if String.eqb n "fingerprint" then Some (VI (Z.of_N (t_fp r)))
  else if String.eqb n "type" then Some (VI (t_type r))
  else None.
Definition labels_cols : list expr :=
  [Id "fingerprint"; Col (Fn "JSONExtractKeysAndValues" [Id "labels"; StrV "String"]) "labels"].
Definition cols_eqb_labels (cols : list expr) : bool :=
  match cols with
  | [Id f; Col (Fn j [Id l; StrV t]) a] =>
    String.eqb f "fingerprint" && String.eqb j "JSONExtractKeysAndValues" && String.eqb l "labels" && String.eqb t "String" && String.eqb a "labels"
  | _ => false
  end.
Definition eval_fetch (re_match : string -> string -> bool) (q : select) (series : list tsrow) : option (list fetch_row) :=
  match s_where q, s_groupby q, s_having q, s_limit q with
  | Some w, [], None, None =>
    if cols_eqb_labels (s_cols q)
    then Some (map (fun r => (t_fp r, t_labels r)) (filter (fun r => is_true (ev re_match no_cte (ts_row_env r) w)) series))
    else None
  | _, _, _, _ => None
  end.

(* ================= list-function readings (what the theorems are stated over) ================= *)
Section READING.
  Variable re_match : string -> string -> bool.

  Inductive vcond := VEq (v : string) | VNeq (v : string) | VRe (p : string) | VNre (p : string).
  Record clause := { c_key : string; c_cond : vcond }.

  Definition eval_vcond (c : vcond) (v : string) : bool :=
    match c with
    | VEq x => String.eqb v x
    | VNeq x => negb (String.eqb v x)
    | VRe p => Bool.eqb (re_match v p) true          (* match(val,p) == 1 *)
    | VNre p => Bool.eqb (re_match v p) false        (* match(val,p) == 0 *)
    end.
  Definition eval_clause (c : clause) (r : ginrow) : bool :=
    String.eqb (g_key r) (c_key c) && eval_vcond (c_cond c) (g_val r).

  Definition b2n (b : bool) : N := if b then 1%N else 0%N.
  Fixpoint rowmask (cs : list clause) (i : N) (r : ginrow) : N :=
    match cs with
    | [] => 0%N
    | c :: cs' => (N.modulo (N.shiftl (b2n (eval_clause c r)) i) (2 ^ 64) + rowmask cs' (i + 1) r)%N
    end.

  Definition where_ok (D t : Z) (cs : list clause) (r : ginrow) : bool :=
    (D <=? g_date r)%Z && ((g_type r =? t)%Z || (g_type r =? 0)%Z) && existsb (fun c => eval_clause c r) cs.

  Definition group_of (rows : list ginrow) (fp : N) := filter (fun r => N.eqb (g_fp r) fp) rows.
  Definition group_bit_or (cs : list clause) (rows : list ginrow) : N :=
    fold_left (fun acc r => N.lor acc (rowmask cs 0 r)) rows 0%N.

  Definition fp_sel (D t : Z) (cs : list clause) (gin : list ginrow) : list N :=
    let rows := filter (where_ok D t cs) gin in
    let fps := nodup N.eq_dec (map g_fp rows) in
    filter (fun fp => N.eqb (group_bit_or cs (group_of rows fp)) (2 ^ (N.of_nat (List.length cs)) - 1)) fps.

  Definition clause_of (m : matcher) : clause :=
    {| c_key := m_name m;
       c_cond := match m_op m with MEq => VEq (m_val m) | MNeq => VNeq (m_val m) | MRe => VRe (m_val m) | MNre => VNre (m_val m) end |}.

  (* fingerprintsQuery after fix e2b3950 (absent labels): pos = the matchers that reject "" (witnessed by index rows),
     neg = the inverses of the matchers that accept "": a fingerprint with an index row satisfying one of them is
     left out.  The exclusion is applied to the rows before grouping; it depends on the fingerprint only. *)
  Definition rejected (D t : Z) (neg : list clause) (gin : list ginrow) (fp : N) : bool :=
    existsb (fun n => existsb (N.eqb fp) (fp_sel D t [n] gin)) neg.
  Definition fp_sel_abs (D t : Z) (pos neg : list clause) (gin : list ginrow) : list N :=
    fp_sel D t pos (filter (fun r => negb (rejected D t neg gin (g_fp r))) gin).

  (* the sample rows of the raw query: from <= ts < to + 1 ms (in milliseconds: [Start, End]), type in (t, 0),
     fingerprint selected; ordered by (fingerprint, timestamp_ns) *)
  Definition sample_ok (from_ns to_ns t : Z) (fps : list N) (s : samplerow) : bool :=
    (from_ns <=? sm_ts_ns s)%Z && (sm_ts_ns s <? to_ns + 1000000)%Z && ((sm_type s =? t)%Z || (sm_type s =? 0)%Z)
    && existsb (N.eqb (sm_fp s)) fps.
  Definition sample_lt (a b : samplerow) : bool :=
    N.ltb (sm_fp a) (sm_fp b) || (N.eqb (sm_fp a) (sm_fp b) && Z.ltb (sm_ts_ns a) (sm_ts_ns b)).
  Definition to_row (s : samplerow) : row := {| r_fp := sm_fp s; r_val := sm_value s; r_ts := Z.quot (sm_ts_ns s) 1000000 |}.
  Definition raw_rows (from_ns to_ns t : Z) (fps : list N) (samples : list samplerow) : list row :=
    map to_row (isort sample_lt (filter (sample_ok from_ns to_ns t fps) samples)).

  (* ---- processHints, per series (samples = (timestamp_ms, value), ascending in time) ----
     instant-vector functions: one sample per step bucket, stamped with the bucket's end (the least
     Start + j*Step at or after the sample), carrying the value of the bucket's latest sample *)
  Definition bucket_of (start step ts : Z) : Z := (Z.quot (ts - start + step - 1) step * step + start)%Z.
  Fixpoint bucket_series (start step : Z) (l : list sample) : list sample :=
    match l with
    | [] => []
    | s :: r =>
      let b := bucket_of start step (fst s) in
      match bucket_series start step r with
      | s' :: r' => if Z.eqb (fst s') b then s' :: r' else (b, snd s) :: s' :: r'
      | [] => [(b, snd s)]
      end
    end.
  (* the same over the whole row list of the statement (rows ordered by fingerprint, then time): adjacent rows of one
     fingerprint and one bucket collapse into the last of them, stamped with the bucket's end *)
  Fixpoint bucket_rows (start step : Z) (l : list row) : list row :=
    match l with
    | [] => []
    | r :: rest =>
      let b := bucket_of start step (r_ts r) in
      match bucket_rows start step rest with
      | r' :: rest' =>
        if N.eqb (r_fp r') (r_fp r) && Z.eqb (r_ts r') b then r' :: rest'
        else {| r_fp := r_fp r; r_val := r_val r; r_ts := b |} :: r' :: rest'
      | [] => [{| r_fp := r_fp r; r_val := r_val r; r_ts := b |}]
      end
    end.
  (* range-vector functions with Step > Range: only samples whose timestamp modulo Step is 0 or at least Step - Range *)
  Definition range_keep (step range : Z) (s : sample) : bool :=
    (Z.rem (fst s) step =? 0)%Z || (step - range <=? Z.rem (fst s) step)%Z.
  Definition range_filter (step range : Z) (l : list sample) : list sample := filter (range_keep step range) l.

  (* what an instant selector sees at evaluation time T with look-back L: the latest sample at or before T,
     if not older than T - L *)
  Definition latest_le (T : Z) (l : list sample) : option sample :=
    fold_left (fun acc s => if (fst s <=? T)%Z then Some s else acc) l None.
  Definition visible (L T : Z) (l : list sample) : option Z :=
    match latest_le T l with
    | Some s => if (T - L <=? fst s)%Z then Some (snd s) else None
    | None => None
    end.
  (* what a range selector sees at evaluation time T: the samples of [T - range, T] *)
  Definition window (range T : Z) (l : list sample) : list sample :=
    filter (fun s => (T - range <=? fst s)%Z && (fst s <=? T)%Z) l.

  (* the rows answered to labelsGetter's request: metric-typed rows only (type IN (2,0)) since the fix of
     prom-labels-fetch-untyped; fetch_rows_untyped is the reading of the statement before it *)
  Definition metric_row (s : tsrow) : bool := (t_type s =? 2)%Z || (t_type s =? 0)%Z.
  Definition fetch_rows (day_from day_to : Z) (fps : list N) (series : list tsrow) : list fetch_row :=
    map (fun s => (t_fp s, t_labels s))
        (filter (fun s => (day_from <=? t_date s)%Z && (t_date s <=? day_to)%Z && existsb (N.eqb (t_fp s)) fps && metric_row s) series).
  Definition fetch_rows_untyped (day_from day_to : Z) (fps : list N) (series : list tsrow) : list fetch_row :=
    map (fun s => (t_fp s, t_labels s))
        (filter (fun s => (day_from <=? t_date s)%Z && (t_date s <=? day_to)%Z && existsb (N.eqb (t_fp s)) fps) series).
End READING.
