(* C14: the profile (Pyroscope) planners of reader/prof/transpiler as planner objects and their Process methods,
   over the SQL object tree of Sql.v: transpiler.go (PlanLabelNames, PlanLabelValues, PlanMergeTraces,
   PlanSelectSeries, PlanMergeProfiles, PlanSeries, PlanAnalyzeQuery, populateTypeId, streamSelectorPlanners) and one
   constructor per planner struct (planner_*.go). The selector planner itself is C17's ProfSel.prof_selector_abs (Process since
   the absent-label fix: selectors on stored labels that accept "" become exclusions; ProfSel.prof_selector is its processIndexed).
   No Process method of these planners stores into a field (regenerated obligation translation_field_writes: no
   target in prof/transpiler), so Process is a function of the planner object and the context: `pprocess`.
   Executable definitions only. *)
From Coq Require Import List ZArith NArith String Ascii Bool.
From Qryn Require Import lib.Strs lib.CivilDate model.Sql model.SqlRender model.Logql model.LogqlPlan model.PromSel model.ProfSel.
Import ListNotations.
Open Scope string_scope.

(* shared.PlannerContext: the fields the profile planners read (tables.PopulateTableNames fills the names) *)
Record prctx := {
  pr_from_ns : Z; pr_to_ns : Z; pr_limit : Z;
  pt_series_gin : string;        (* ProfilesSeriesGinTable *)
  pt_series_gin_dist : string;   (* ProfilesSeriesGinDistTable *)
  pt_series : string;            (* ProfilesSeriesTable *)
  pt_series_dist : string;       (* ProfilesSeriesDistTable *)
  pt_profiles_dist : string;     (* ProfilesDistTable *)
  (* not a field of the context: the answers of StreamSelectorPlanner's acceptsAbsent for the regular expressions of the
     request, as a table (pattern, "", the anchored pattern matches "") -- the oracle of ProfSel.prof_selector_abs *)
  pr_empty : list (string * string * bool)
}.
Definition pr_with_window (c : prctx) (w : Z * Z) : prctx :=
  {| pr_from_ns := fst w; pr_to_ns := snd w; pr_limit := pr_limit c; pt_series_gin := pt_series_gin c;
     pt_series_gin_dist := pt_series_gin_dist c; pt_series := pt_series c; pt_series_dist := pt_series_dist c;
     pt_profiles_dist := pt_profiles_dist c; pr_empty := pr_empty c |}.

(* date >= FormatFromDate(ctx.From) ; date <= ctx.To.UTC().Format("2006-01-02") *)
Definition date_window (c : prctx) : list expr :=
  [Ge (Id "date") (DateV (from_day (pr_from_ns c))); Le (Id "date") (DateV (pr_to_ns c / (86400 * 1000000000)))].

(* the planner objects *)
Inductive pplanner :=
 | PPSelector (sels : list selector)                                   (* StreamSelectorPlanner *)
 | PPUnionAll (mains : list pplanner)                                  (* UnionAllPlanner *)
 | PPLabelNames (fp : option pplanner)                                 (* LabelNamesPlanner{GenericLabelsPlanner} *)
 | PPLabelValues (fp : option pplanner) (label : string)               (* LabelValuesPlanner *)
 | PPMergeRaw (fp : pplanner) (sels : list selector) (stype sunit : string)
 | PPMergeJoined (main : pplanner)
 | PPMergeAggregated (main : pplanner)
 | PPGetLabels (fp : pplanner) (group_by : list string) (sels : list selector)
 | PPSelectSeries (labels : pplanner) (sels : list selector) (stype sunit : string) (avg : bool) (step : Z)
 | PPMergeProfiles (fp : pplanner) (sels : list selector)
 | PPAllTimeSeries                                                     (* AllTimeSeriesSelectPlanner *)
 | PPTimeSeries (fp : pplanner) (sels : list selector) (fp_alias : string)   (* TimeSeriesSelectPlanner; FpAlias "" = "fp" *)
 | PPDistinct (main : pplanner)                                        (* TimeSeriesDistinctPlanner *)
 | PPFilterLabels (main : pplanner) (labels : list string)
 | PPProfileSize (main : pplanner).

(* what Process returns: a Select, or the unionAll wrapper of planner_union_all.go (its embedded first select answers
   GetWith/GetSelect...; String prints "(" s1 ") UNION ALL (" s2 ")"). A consumer puts the result under a WITH alias; the
   Sql.v tree keeps the first select there and ps_unions remembers, per alias, the other members of the union. *)
Record presult := { ps_sel : select; ps_rest : option (list select); ps_unions : list (string * list select) }.
Definition mk (q : select) (u : list (string * list select)) : presult := {| ps_sel := q; ps_rest := None; ps_unions := u |}.
Definition under (a : string) (r : presult) : list (string * list select) :=
  (match ps_rest r with Some rest => [(a, rest)] | None => [] end ++ ps_unions r)%list.

(* the custom columns *)
Definition in_strs (col : string) (vals : list string) : expr := In (Id col) (map StrV vals).
Definition tags_filter (gb : list string) (src : string) : expr :=
  Sep "" [Raw "arrayFilter(x -> "; in_strs "x.1" gb; Raw (", " ++ src ++ ")")].
Definition stu (stype sunit : string) : string := stype ++ ":" ++ sunit.
Definition value_col (stype sunit : string) (avg : bool) : expr :=
  let cond := Eq (Id "x.1") (StrV (stu stype sunit)) in
  if avg then
    Sep "" [Raw "sum(toFloat64(arrayFirst(x -> "; cond; Raw ", p.values_agg).2)) / sum(toFloat64(arrayFirst(x -> x.1 == "; cond; Raw ").3))"]
  else Sep "" [Raw "sum(toFloat64(arrayFirst(x -> "; cond; Raw ", p.values_agg).2))"].
Definition raw_tree_col (stype sunit : string) : expr :=
  Sep "" [Raw "arrayMap(x -> (x.1, x.2, x.3, (arrayFirst(y -> y.1 == "; StrV (stu stype sunit); Raw ", x.4) as af).2, af.3), tree)"].
Definition brackets (q : select) : expr := Sep "" [Raw "("; SubQ q; Raw ")"].
Definition series_cols : list expr :=
  [SimpleCol "tags" "tags"; SimpleCol "type_id" "type_id"; SimpleCol "__sample_types_units" "__sample_types_units"].
Definition ts_cols : list expr :=
  [SimpleCol "tags" "tags"; SimpleCol "type_id" "type_id"; SimpleCol "_sample_types_units" "__sample_types_units"].
Definition array_join : string * expr * option expr := ("array", SimpleCol "sample_types_units" "_sample_types_units", None).
Definition and_where_if (cl : list expr) (q : select) : select := match cl with [] => q | _ => and_where cl q end.
Definition limit_desc (c : prctx) (q : select) : select :=
  if Z.eqb (pr_limit c) 0 then q
  else set_limit (Some (IntV (pr_limit c))) (set_orderby [Ord (Id "timestamp_ns") false] q).
(* the WITH named `alias` of a select (GetWith() ... GetAlias() == "fp"); absent = nil With: NewWithRef(nil) dereferences nil *)
Definition find_with (alias : string) (q : select) : option (string * select) :=
  find (fun w => String.eqb (fst w) alias) (s_withs q).

Definition res (A : Type) := option A.
Definition bindr {A B} (x : res A) (f : A -> res B) : res B := match x with Some a => f a | None => None end.

(* GenericLabelsPlanner._process *)
Definition generic_labels (c : prctx) (return_col : string) (fp : option presult) : presult :=
  let base := set_limit (Some (IntV 10000))
               (and_where (date_window c)
                (set_from (Id (pt_series_gin_dist c)) (set_cols [Id return_col] (set_distinct true empty_select)))) in
  match fp with
  | None => mk base []
  | Some f => mk (and_where [In (Id "fingerprint") [WRef "fp" (ps_sel f)]] (with_ [("fp", ps_sel f)] base)) (under "fp" f)
  end.

Fixpoint pprocess (p : pplanner) (c : prctx) {struct p} : res presult :=
  match p with
  | PPSelector sels => Some (mk (prof_selector_abs (tbl_lookup (pr_empty c)) (pt_series_gin c) (pr_from_ns c) (pr_to_ns c) sels) [])
  | PPUnionAll mains =>
    (* the members are plain selects in every plan transpiler.go builds; a union inside a union is not modelled *)
    match (fix all (l : list pplanner) : res (list select) :=
             match l with
             | [] => Some []
             | x :: r => match pprocess x c, all r with
                         | Some rx, Some qs => match ps_rest rx with None => Some (ps_sel rx :: qs) | Some _ => None end
                         | _, _ => None end
             end) mains with
    (* unionAll.GetWith (fix c94f1fe): the WITHs of every member, the first member's first; nothing else reads the WITH list of
       the embedded first select (under an alias it is printed with STRING_OPT_SKIP_WITH) *)
    | Some (q :: qs) => Some {| ps_sel := set_withs (s_withs q ++ flat_map (fun m => s_withs m) qs) q; ps_rest := Some qs; ps_unions := [] |}
    | _ => None                                  (* "no planners provided for UNION ALL operator" / a member failed *)
    end
  | PPLabelNames fp =>
    match fp with
    | None => Some (generic_labels c "key" None)
    | Some f => bindr (pprocess f c) (fun r => Some (generic_labels c "key" (Some r)))
    end
  | PPLabelValues fp label =>
    let fin (r : presult) := mk (and_where [Eq (Id "key") (StrV label)] (ps_sel r)) (ps_unions r) in
    match fp with
    | None => Some (fin (generic_labels c "val" None))
    | Some f => bindr (pprocess f c) (fun r => Some (fin (generic_labels c "val" (Some r))))
    end
  | PPMergeRaw fp sels stype sunit =>
    bindr (pprocess fp c) (fun f =>
    let g := fst (get_matchers sels) in
    Some (mk (limit_desc c
               (and_where [Ge (Id "timestamp_ns") (IntV (pr_from_ns c)); Lt (Id "timestamp_ns") (IntV (pr_to_ns c));
                           In (Id "fingerprint") [WRef "fp" (ps_sel f)]; And g]
                (set_from (Id (pt_profiles_dist c))
                 (set_cols [Col (raw_tree_col stype sunit) "tree"; Id "functions"] (with_ [("fp", ps_sel f)] empty_select)))))
             (under "fp" f)))
  | PPMergeJoined main =>
    bindr (pprocess main c) (fun m =>
    let pre := set_joins [("array", SimpleCol "raw.tree" "rtree", None)]
                (set_from (WRef "raw" (ps_sel m)) (set_cols [Id "rtree"] (with_ [("raw", ps_sel m)] empty_select))) in
    Some (mk (set_limit (Some (IntV 2000000))
              (set_orderby [Id "rtree.1"]
               (set_groupby [Id "rtree.1"; Id "rtree.2"; Id "rtree.3"]
                (set_from (WRef "pre_joined" pre)
                 (set_cols [SimpleCol "(rtree.1, rtree.2, rtree.3, sum(rtree.4), sum(rtree.5))" "tree"]
                  (with_ [("pre_joined", pre)] empty_select))))))
             (under "raw" m)))
  | PPMergeAggregated main =>
    bindr (pprocess main c) (fun m =>
    Some (mk (set_cols [SimpleCol "(select groupArray(tree) from joined)" "_tree";
                        SimpleCol "(select groupUniqArrayArray(functions) from raw )" "_functions"]
              (with_ [("joined", ps_sel m)] empty_select)) (under "joined" m)))
  | PPGetLabels fp gb sels =>
    bindr (pprocess fp c) (fun f =>
    let g := fst (get_matchers sels) in
    let new_fp := match gb with [] => SimpleCol "fingerprint" "new_fingerprint" | _ => SimpleCol "cityHash64(tags)" "new_fingerprint" end in
    let tags := match gb with [] => SimpleCol "arraySort(p.tags)" "tags" | _ => Col (tags_filter gb "p.tags") "tags" end in
    Some (mk (and_where_if g
              (and_where ([In (Id "fingerprint") [WRef "fp" (ps_sel f)]] ++ date_window c)
               (set_from (Col (Id (pt_series c)) "p")
                (set_cols [Id "fingerprint"; tags; new_fp] (set_distinct true (with_ [("fp", ps_sel f)] empty_select))))))
             (under "fp" f)))
  | PPSelectSeries labels sels stype sunit avg step =>
    bindr (pprocess labels c) (fun l =>
    bindr (find_with "fp" (ps_sel l)) (fun fpw =>
    let g := fst (get_matchers sels) in
    let st := string_of_Z step in
    Some (mk (and_where_if g
              (set_orderby [Ord (Id "fingerprint") true; Ord (Id "timestamp_ms") true]
               (set_groupby [Id "timestamp_ms"; Id "fingerprint"]
                (and_where [In (Id "p.fingerprint") [WRef (fst fpw) (snd fpw)];
                            Ge (Id "p.timestamp_ns") (IntV (pr_from_ns c)); Le (Id "p.timestamp_ns") (IntV (pr_to_ns c))]
                 (set_joins [("any left", WRef "labels" (ps_sel l), Some (Eq (Id "p.fingerprint") (Id "labels.fingerprint")))]
                  (set_from (SimpleCol (pt_profiles_dist c) "p")
                   (set_cols [SimpleCol ("intDiv(p.timestamp_ns, 1000000000 * " ++ st ++ ") * " ++ st ++ " * 1000") "timestamp_ms";
                              SimpleCol "labels.new_fingerprint" "fingerprint"; SimpleCol "min(labels.tags)" "labels";
                              Col (value_col stype sunit avg) "value"]
                    (with_ [("labels", ps_sel l)] empty_select))))))))
             (under "labels" l))))
  | PPMergeProfiles fp sels =>
    bindr (pprocess fp c) (fun f =>
    let g := fst (get_matchers sels) in
    Some (mk (limit_desc c
              (and_where_if g
               (and_where [Ge (Id "timestamp_ns") (IntV (pr_from_ns c)); Le (Id "timestamp_ns") (IntV (pr_to_ns c));
                           In (Id "fingerprint") [WRef "fp" (ps_sel f)]]
                (set_from (Id (pt_profiles_dist c)) (set_cols [Id "payload"] (with_ [("fp", ps_sel f)] empty_select))))))
             (under "fp" f)))
  | PPAllTimeSeries =>
    Some (mk (and_where (date_window c)
              (set_joins [array_join] (set_from (SimpleCol (pt_series_dist c) "p") (set_cols ts_cols (set_distinct true empty_select))))) [])
  | PPTimeSeries fp sels fp_alias =>
    bindr (pprocess fp c) (fun f =>
    let g := fst (get_matchers sels) in
    let a := if String.eqb fp_alias "" then "fp" else fp_alias in
    Some (mk (and_where_if g
              (and_where ([In (Id "p.fingerprint") [WRef a (ps_sel f)]] ++ date_window c)
               (set_joins [array_join]
                (set_from (SimpleCol (pt_series_dist c) "p")
                 (set_cols ts_cols (set_distinct true (with_ [(a, ps_sel f)] empty_select)))))))
             (under a f)))
  | PPDistinct main =>
    bindr (pprocess main c) (fun m =>
    Some (mk (set_from (WRef "pre_distinct" (ps_sel m))
              (set_cols series_cols (set_distinct true (with_ [("pre_distinct", ps_sel m)] empty_select))))
             (under "pre_distinct" m)))
  | PPFilterLabels main labels =>
    bindr (pprocess main c) (fun m =>
    match labels with
    | [] => Some m
    | _ => Some (mk (set_from (WRef "pre_label_filter" (ps_sel m))
                     (set_cols [Col (tags_filter labels "tags") "tags"; SimpleCol "type_id" "type_id";
                                SimpleCol "__sample_types_units" "__sample_types_units"]
                      (with_ [("pre_label_filter", ps_sel m)] empty_select)))
                    (under "pre_label_filter" m))
    end)
  | PPProfileSize main =>
    bindr (pprocess main c) (fun m =>
    bindr (find_with "fp" (ps_sel m)) (fun fpw =>
    let size := set_from (WRef "pre_profile_size" (ps_sel m)) (set_cols [Id "sum(length(payload)::Int64)"] empty_select) in
    let cnt := set_from (WRef (fst fpw) (snd fpw)) (set_cols [Id "uniqExact(fingerprint)::Int64"] empty_select) in
    Some (mk (set_cols [Col (brackets size) "profile_size"; Col (brackets cnt) "fingerprint_count"]
              (with_ [("pre_profile_size", ps_sel m)] empty_select))
             (under "pre_profile_size" m))))
  end.

(* ---------- transpiler.go ---------- *)
Record type_id := { ti_tp : string; ti_sample_type : string; ti_sample_unit : string; ti_period_type : string; ti_period_unit : string }.
(* populateTypeId (values after Unquote of the back-quoted text) *)
Definition populate (sels : list selector) (t : type_id) : list selector :=
  (sels ++ [{| sl_name := "__name__"; sl_op := MEq; sl_val := ti_tp t |};
            {| sl_name := "__period_type__"; sl_op := MEq; sl_val := ti_period_type t |};
            {| sl_name := "__period_unit__"; sl_op := MEq; sl_val := ti_period_unit t |};
            {| sl_name := "__sample_type__"; sl_op := MEq; sl_val := ti_sample_type t |};
            {| sl_name := "__sample_unit__"; sl_op := MEq; sl_val := ti_sample_unit t |}])%list.
Definition fp_union (scripts : list (list selector)) : option pplanner :=
  match scripts with [] => None | _ => Some (PPUnionAll (map PPSelector scripts)) end.
Definition plan_label_names (scripts : list (list selector)) : pplanner := PPLabelNames (fp_union scripts).
Definition plan_label_values (scripts : list (list selector)) (label : string) : pplanner := PPLabelValues (fp_union scripts) label.
Definition plan_merge_traces (sels : list selector) (t : type_id) : pplanner :=
  let s' := populate sels t in
  PPMergeAggregated (PPMergeJoined (PPMergeRaw (PPSelector s') s' (ti_sample_type t) (ti_sample_unit t))).
(* the fingerprint planner is built from the script as parsed, the label / series planners from the populated copy *)
Definition plan_select_series (sels : list selector) (t : type_id) (gb : list string) (avg : bool) (step : Z) : pplanner :=
  let s' := populate sels t in
  PPSelectSeries (PPGetLabels (PPSelector sels) gb s') s' (ti_sample_type t) (ti_sample_unit t) avg step.
Definition plan_merge_profiles (sels : list selector) (t : type_id) : pplanner :=
  PPMergeProfiles (PPSelector sels) (populate sels t).
(* without any selector the function returns the AllTimeSeriesSelectPlanner at once: label_names is not applied *)
Definition plan_series (scripts : list (list selector)) (label_names : list string) : pplanner :=
  if Nat.eqb (List.length (List.concat scripts)) 0 then PPAllTimeSeries else
  (* several matchers: the members of the UNION ALL get the fingerprint aliases fp_0, fp_1, ... (fix c94f1fe; before it every
     member was `fp` and all of them read the first matcher's fingerprints) *)
  let base := match scripts with
              | [one] => PPTimeSeries (PPSelector one) one "fp"
              | many => PPDistinct (PPUnionAll (map (fun is => PPTimeSeries (PPSelector (snd is)) (snd is) ("fp_" ++ string_of_N (fst is)))
                                                    (combine (map N.of_nat (seq 0 (List.length many))) many)))
              end in
  match label_names with [] => base | _ => PPFilterLabels base label_names end.
Definition plan_analyze (sels : list selector) : pplanner := PPProfileSize (PPMergeProfiles (PPSelector sels) sels).

(* ---------- Select.String for these results: the WITH list is printed once, at the top; an alias that holds a
   unionAll prints its members in parentheses (each with STRING_OPT_SKIP_WITH, as With.String passes it on) ---------- *)
Definition rsk (q : select) : option string :=
  let '(t, st) := render_select q (add_skip no_opts) rst0 in if r_err st then None else Some t.
Fixpoint rsk_all (qs : list select) : option (list string) :=
  match qs with
  | [] => Some []
  | q :: r => match rsk q, rsk_all r with Some t, Some ts => Some (t :: ts) | _, _ => None end
  end.
Definition union_text (qs : list select) : option string :=
  match rsk_all qs with Some ts => Some ("(" ++ join ") UNION ALL (" ts ++ ")") | None => None end.
Definition with_text (u : list (string * list select)) (w : string * select) : option string :=
  match match find (fun x => String.eqb (fst x) (fst w)) u with
        | Some (_, rest) => union_text (snd w :: rest)
        | None => rsk (snd w) end with
  | Some body => Some (fst w ++ " as (" ++ body ++ ")")
  | None => None
  end.
Fixpoint with_texts (u : list (string * list select)) (ws : list (string * select)) : option (list string) :=
  match ws with
  | [] => Some []
  | w :: r => match with_text u w, with_texts u r with Some t, Some ts => Some (t :: ts) | _, _ => None end
  end.
Definition prender (r : presult) : option string :=
  match ps_rest r with
  | Some rest => union_text (ps_sel r :: rest)
  | None =>
    match ps_unions r with
    | [] => render (ps_sel r) false
    | u => match with_texts u (s_withs (ps_sel r)), rsk (ps_sel r) with
           | Some ws, Some body => Some ((match ws with [] => "" | _ => "WITH " ++ join "," ws end) ++ body)
           | _, _ => None
           end
    end
  end.

(* ---------- executions ---------- *)
(* ONE planner object executed for a list of windows (the planner is not changed by Process: pprocess returns no planner) *)
Definition prof_exec (p : pplanner) (c : prctx) (ws : list (Z * Z)) : list (option string) :=
  map (fun w => match pprocess p (pr_with_window c w) with Some r => prender r | None => None end) ws.

(* the request kinds the harness drives, with the parameters it passes to the Plan* functions *)
Inductive pmode := PMSelector | PMLabelNames | PMLabelNamesAll | PMLabelNames2 | PMLabelValues | PMMergeTraces
 | PMSelectSeries | PMSelectSeriesAvg | PMMergeProfiles | PMAnalyze | PMSeries | PMSeries2 | PMSeriesAll.
Definition tid0 : type_id :=
  {| ti_tp := "process_cpu"; ti_sample_type := "cpu"; ti_sample_unit := "nanoseconds"; ti_period_type := "cpu"; ti_period_unit := "nanoseconds" |}.
Definition second_script : list selector := [{| sl_name := "job"; sl_op := MEq; sl_val := "x2" |}].
Definition plan_mode (m : pmode) (sels : list selector) : pplanner :=
  match m with
  | PMSelector => PPSelector sels
  | PMLabelNames => plan_label_names [sels]
  | PMLabelNamesAll => plan_label_names []
  | PMLabelNames2 => plan_label_names [sels; second_script]
  | PMLabelValues => plan_label_values [sels] "job"
  | PMMergeTraces => plan_merge_traces sels tid0
  | PMSelectSeries => plan_select_series sels tid0 ["a"; "job"] false 15
  | PMSelectSeriesAvg => plan_select_series sels tid0 [] true 60
  | PMMergeProfiles => plan_merge_profiles sels tid0
  | PMAnalyze => plan_analyze sels
  | PMSeries => plan_series [sels] ["a"]
  | PMSeries2 => plan_series [sels; second_script] []
  | PMSeriesAll => plan_series [] ["a"]
  end.
Definition prof_case_sqls (m : pmode) (sels : list selector) (c : prctx) (ws : list (Z * Z)) : list (option string) :=
  prof_exec (plan_mode m sels) c ws.
