(* Specification monitors for C01 / C02 over the event alphabet of model/PushHandler.v.
   Each monitor is a small automaton `step : state -> event -> option state`; None = the property is violated.
   The theorems (proofs/IngestProofs.v, props/C01.v, props/C02.v) say that every event trace of the model is
   accepted; the same functions are evaluated over the event traces observed on the implementation. *)
From Coq Require Import List NArith ZArith Bool.
From Qryn Require Import model.Ingest model.PushHandler.
Import ListNotations.

Fixpoint run_mon {M} (step : M -> event -> option M) (m : M) (es : list event) : option M :=
  match es with
  | [] => Some m
  | e :: es' => match step m e with None => None | Some m' => run_mon step m' es' end
  end.

(* ------------------------------------------------------------------------------------------------
   C01, acknowledgement monitor.  State: per worker the block handed to a Do that has not returned, and the
   blocks whose Do returned without error.  A promise may be completed with success, and a handler may answer
   success, only when every cell of the request(s) is in one of those accepted blocks.
   strict = true : a request is trivially acknowledged only if it has no cell at all;
   strict = false: ... if its key column (the one `inserted` is measured on) is empty. *)
Record amon := { a_infl : list (option block); a_acked : list block }.
Definition amon_init (n : nat) : amon := {| a_infl := repeat None n; a_acked := [] |}.

Definition trivial (strict : bool) (k : kind) (r' : req) : bool :=
  if strict then no_cells r' else key_empty k r'.

(* existsb, stopping at the first hit (the most recent accepted block comes first) *)
Fixpoint exists_first {A} (f : A -> bool) (l : list A) : bool :=
  match l with [] => false | a :: t => if f a then true else exists_first f t end.
Definition covered (strict : bool) (acked : list block) (k : kind) (r : req) : bool :=
  match eff k r with
  | None => false
  | Some r' => if trivial strict k r' then true else exists_first (cells_subb r') acked
  end.

(* the requests for which `inserted == 0` (empty key column) coincides with "trivially acknowledged" *)
Definition ok_req (strict : bool) (k : kind) (r : req) : bool :=
  match eff k r with
  | Some r' => implb (key_empty k r') (trivial strict k r')
  | None => true
  end.
Definition item_ok (strict : bool) (it : item) : bool :=
  match it with
  | IChunk c => forallb (fun x => ok_req strict (snd (fst (fst x))) (snd (fst x))) c
  | IError => true
  end.
Definition act_ok (strict : bool) (a : gact) : bool :=
  match a with
  | GEnvReq _ k _ r _ => ok_req strict k r
  | GNewHandler items => forallb (item_ok strict) items
  | _ => true
  end.

(* scripts in which every request is the table of its rows *)
Definition item_wf (it : item) : bool :=
  match it with
  | IChunk c => forallb (fun x => wf_reqb (snd (fst (fst x))) (snd (fst x))) c
  | IError => true
  end.
Definition act_wf (a : gact) : bool :=
  match a with
  | GEnvReq _ k _ r _ => wf_reqb k r
  | GNewHandler items => forallb item_wf items
  | _ => true
  end.

Definition amon_step (strict : bool) (m : amon) (e : event) : option amon :=
  match e with
  | ESend s k b =>
      match nth_error (a_infl m) s with
      | Some _ => Some {| a_infl := upd s (Some b) (a_infl m); a_acked := a_acked m |}
      | None => None
      end
  | EDone s ok =>
      match nth_error (a_infl m) s with
      | Some (Some b) => Some {| a_infl := upd s None (a_infl m);
                                 a_acked := if ok then b :: a_acked m else a_acked m |}
      | _ => None
      end
  | EResolve p k r true => if covered strict (a_acked m) k r then Some m else None
  | EAnswer h reqs true =>
      if forallb (fun kr => covered strict (a_acked m) (fst kr) (snd kr)) reqs then Some m else None
  | _ => Some m
  end.

(* C01, one answer: no promise is completed twice, no handler answers twice *)
Fixpoint resolved (es : list event) : list pid :=
  match es with
  | [] => []
  | EResolve p _ _ _ :: t => p :: resolved t
  | _ :: t => resolved t
  end.
Fixpoint answered (es : list event) : list nat :=
  match es with
  | [] => []
  | EAnswer h _ _ :: t => h :: answered t
  | _ :: t => answered t
  end.
Fixpoint nodupb {A} (eqb : A -> A -> bool) (l : list A) : bool :=
  match l with
  | [] => true
  | x :: t => negb (existsb (eqb x) t) && nodupb eqb t
  end.
Definition one_answer_b (es : list event) : bool :=
  nodupb pid_eqb (resolved es) && nodupb Nat.eqb (answered es).

(* ------------------------------------------------------------------------------------------------
   C01 + C02, the service discipline monitor.  It keeps, per worker, the requests accepted since the last send
   (in order) and the waiters of the block being sent, and checks
   - ESwap: the waiters of the portion are the requests accepted since the previous swap; requests accepted
     later (also those served between swapBuffers and the call of Do) wait for the next portion;
   - ESend: the block is exactly the column-wise concatenation of what ProcessRequest appends for the accepted
     requests, in order, and of nothing else (C02: block_carries_its_waiters; with well-formed requests this is
     the table of their rows, blocks_good) -- see smode; a request that appended cells although nothing was
     `inserted` stays in the buffers and breaks this, see bad_request_poisons_batch;
   - EResolve: a promise is completed either by Request itself (only as reported by EReq: nothing inserted, or
     service stopped) or in the burst that follows the EDone of the block it waits for, with that Do's outcome
     (C01: promise_resolved_with_its_block). *)
Record wmon := { w_open : list (pid * req); w_infl : option (list (pid * req) * bool) }.   (* waiters of the portion taken, Do called? *)
Record smon := {
  s_w : list wmon;
  s_rel : option (list (pid * req) * bool);     (* waiters being released and the outcome of their Do *)
  s_imm : option (pid * bool)                   (* completion announced by the preceding EReq *)
}.
Definition smon_init (n : nat) : smon :=
  {| s_w := repeat {| w_open := []; w_infl := None |} n; s_rel := None; s_imm := None |}.

Definition append_eff (k : kind) (acc : block) (pr : pid * req) : block :=
  match eff k (snd pr) with Some r' => zip_app acc r' | None => acc end.
Definition expected_block (k : kind) (ws : list (pid * req)) : block :=
  fold_left (append_eff k) ws (empty_cols k).

Fixpoint remove_waiter (p : pid) (r : req) (ws : list (pid * req)) : option (list (pid * req)) :=
  match ws with
  | [] => None
  | (q, r') :: t =>
      if pid_eqb p q && block_eqb r r' then Some t
      else match remove_waiter p r t with Some t' => Some ((q, r') :: t') | None => None end
  end.

(* how much the monitor demands of a block:
   MLenient: nothing (arbitrary requests: only the promise discipline is checked);
   MClean  : the block is the column-wise concatenation of its waiters' appends (requests whose empty key column
             means no cell at all);
   MTable  : the block is the table of its waiters' rows, in order (well-formed requests). *)
Inductive smode := MLenient | MClean | MTable.
Definition strict_of (md : smode) : bool := match md with MLenient => false | _ => true end.
Definition rows_of (ws : list (pid * req)) : list N := concat (map (fun pr => rids_of (snd pr)) ws).
Definition send_ok (md : smode) (k : kind) (ws : list (pid * req)) (b : block) : bool :=
  match md with
  | MLenient => true
  | MClean => block_eqb b (expected_block k ws)
  | MTable => block_eqb b (table_of (ncols k) (rows_of ws))
  end.

Definition smon_step (md : smode) (m : smon) (e : event) : option smon :=
  match e with
  | EReq s p k r sz imm =>
      match nth_error (s_w m) s with
      | None => None
      | Some w =>
          match imm with
          | Some false => Some {| s_w := s_w m; s_rel := None; s_imm := Some (p, false) |}   (* service stopped *)
          | Some true =>
              match eff k r with
              | Some r' => if trivial (strict_of md) k r'
                           then Some {| s_w := s_w m; s_rel := None; s_imm := Some (p, true) |} else None
              | None => None
              end
          | None =>
              match eff k r with
              | Some r' =>
                  if key_empty k r' then None
                  else Some {| s_w := upd s {| w_open := w_open w ++ [(p, r)]; w_infl := w_infl w |} (s_w m);
                               s_rel := None; s_imm := None |}
              | None => None
              end
          end
      end
  | ESwap s =>
      match nth_error (s_w m) s with
      | Some w =>
          match w_infl w, w_open w with
          | None, _ :: _ =>
              Some {| s_w := upd s {| w_open := []; w_infl := Some (w_open w, false) |} (s_w m);
                      s_rel := None; s_imm := None |}
          | _, _ => None                 (* a portion is never empty; one portion at a time *)
          end
      | None => None
      end
  | ESend s k b =>
      match nth_error (s_w m) s with
      | Some w =>
          match w_infl w with
          | Some (ws, false) =>
              if send_ok md k ws b
              then Some {| s_w := upd s {| w_open := w_open w; w_infl := Some (ws, true) |} (s_w m);
                           s_rel := None; s_imm := None |}
              else None
          | _ => None
          end
      | None => None
      end
  | EDone s ok =>
      match nth_error (s_w m) s with
      | Some w =>
          match w_infl w with
          | Some (ws, true) => Some {| s_w := upd s {| w_open := w_open w; w_infl := None |} (s_w m);
                                       s_rel := Some (ws, ok); s_imm := None |}
          | _ => None
          end
      | None => None
      end
  | EResolve p k r ok =>
      match s_imm m with
      | Some (q, ok') =>
          if pid_eqb p q && Bool.eqb ok ok' then Some {| s_w := s_w m; s_rel := s_rel m; s_imm := None |} else None
      | None =>
          match s_rel m with
          | Some (ws, ok') =>
              if Bool.eqb ok ok' then
                match remove_waiter p r ws with
                | Some ws' => Some {| s_w := s_w m; s_rel := Some (ws', ok'); s_imm := None |}
                | None => None
                end
              else None
          | None => None
          end
      end
  | EDial _ _ | EAnswer _ _ _ => Some {| s_w := s_w m; s_rel := None; s_imm := None |}
  end.

(* ------------------------------------------------------------------------------------------------
   C02, the shape of one block, stated on the block alone (used on observed blocks whose waiters the
   observer cannot see, e.g. behind the HTTP handlers): all columns equally long, the i-th cells of all
   columns carry the same row id and their own column index, no row id twice. *)
Definition good_block_b (k : kind) (b : block) : bool :=
  block_eqb b (table_of (ncols k) (rids_of b)) && nodupb N.eqb (rids_of b).
