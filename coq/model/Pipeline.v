(* C12 -- the channel protocol of the read-side result pipelines as a labelled transition system.

   A request builds a CHAIN of goroutines connected by unbuffered channels:

     database cursor -> Scan/ScanMatrix -> WrapProcess stage ... -> FixPeriodPlanner -> encoder -> HTTP handler loop

   Cell i receives on channel i (written by cell i-1) and sends on channel i+1. The first cell is the
   database cursor (sql.Rows: it holds the connection until it is read to the end or closed), the last one
   cell writes to the handler loop `for str := range ch { w.Write(..) }`, which receives until the channel is
   closed and ignores write errors (client gone): it is the always-ready environment of the last cell.
   Every goroutine closes its own output channel by a deferred close.

   Part 1 (Section LTS) is generic in the state type S, the message type M and the behaviour of every
   node; Part 2 instantiates it with the stages of reader/logql/logql_transpiler_v2 and reader/service. *)
From Coq Require Import List ZArith Bool.
Import ListNotations.

Section LTS.
Variables S M : Type.

(* what a node decides after having received one message *)
Inductive next :=
| NCont (s : S)          (* keep receiving *)
| NStop (drain : bool)   (* leave the receive loop although the input is not closed;
                            drain = a goroutine `for range in {}` (or rows.Close()) is left behind *)
| NFault.                (* run-time panic without an effective recover: the process dies *)

Record rr := mkRR { rr_out : list M; rr_cancel : bool; rr_next : next }.   (* sends, ctx cancel, continuation *)
Record cr := mkCR { cr_out : list M; cr_fault : bool }.                    (* reaction to "input closed" *)

(* the first argument is ctx.Done() as observed at that moment; n_ok is a (boolean) invariant of the node's
   own state, established by its initial state, relative to which fault-freedom is stated *)
Record node := mkNode { n_on_msg : bool -> S -> M -> rr; n_on_close : bool -> S -> cr; n_ok : S -> bool }.

Inductive after := ACont (s : S) | AExit (drain : bool) | AFault.
Inductive cstate :=
| CRecv (s : S)                        (* blocked in `range in` *)
| CSend (pend : list M) (a : after)    (* performing its sends one by one (unbuffered: each needs a receiver) *)
| CDone (drain : bool).                (* returned: output channel closed; drain = its input keeps being received *)
Record cell := mkCell { c_node : node; c_st : cstate }.

Definition after_of (n : next) : after :=
  match n with NCont s => ACont s | NStop d => AExit d | NFault => AFault end.
Definition set_st (c : cell) (st : cstate) : cell := mkCell (c_node c) st.

(* lstep canc l canc' crash l' : one transition of the chain l; canc = the request context is cancelled *)
Inductive lstep (canc : bool) : list cell -> bool -> bool -> list cell -> Prop :=
| ls_send_recv : forall p q l m ms a s,
    c_st p = CSend (m :: ms) a -> c_st q = CRecv s ->
    lstep canc (p :: q :: l)
          (canc || rr_cancel (n_on_msg (c_node q) canc s m)) false
          (set_st p (CSend ms a)
           :: set_st q (CSend (rr_out (n_on_msg (c_node q) canc s m)) (after_of (rr_next (n_on_msg (c_node q) canc s m))))
           :: l)
| ls_send_out : forall p m ms a,     (* the last cell writes to the HTTP handler loop, which always receives *)
    c_st p = CSend (m :: ms) a -> lstep canc [p] canc false [set_st p (CSend ms a)]
| ls_send_drain : forall p q l m ms a,
    c_st p = CSend (m :: ms) a -> c_st q = CDone true ->
    lstep canc (p :: q :: l) canc false (set_st p (CSend ms a) :: q :: l)
| ls_close : forall p q l d s,
    c_st p = CDone d -> c_st q = CRecv s ->
    lstep canc (p :: q :: l) canc false
          (p :: set_st q (CSend (cr_out (n_on_close (c_node q) canc s))
                                (if cr_fault (n_on_close (c_node q) canc s) then AFault else AExit false)) :: l)
| ls_cont : forall p l s, c_st p = CSend [] (ACont s) -> lstep canc (p :: l) canc false (set_st p (CRecv s) :: l)
| ls_exit : forall p l d, c_st p = CSend [] (AExit d) -> lstep canc (p :: l) canc false (set_st p (CDone d) :: l)
| ls_fault : forall p l, c_st p = CSend [] AFault -> lstep canc (p :: l) canc true (set_st p (CDone false) :: l)
| ls_skip : forall p l canc' crash l', lstep canc l canc' crash l' -> lstep canc (p :: l) canc' crash (p :: l').

Record config := mkConfig { cancelled : bool; crashed : bool; cells : list cell }.

(* a crashed process makes no further step; besides the transitions of the goroutines there is one action of
   the environment: THE CLIENT GOES AWAY -- net/http cancels the request context and every later write to the
   ResponseWriter fails. It can happen at any moment (once). *)
Definition step (c c' : config) : Prop :=
  crashed c = false /\
  (lstep (cancelled c) (cells c) (cancelled c') (crashed c') (cells c') \/
   (cancelled c = false /\ cancelled c' = true /\ crashed c' = false /\ cells c' = cells c)).

Inductive star : config -> config -> Prop :=
| star_refl : forall c, star c c
| star_step : forall c1 c2 c3, step c1 c2 -> star c2 c3 -> star c1 c3.

(* no goroutine can move (whatever the client does) *)
Definition quiescent (c : config) : Prop := forall canc' k l', ~ lstep (cancelled c) (cells c) canc' k l'.

Definition closed_st (st : cstate) : bool := match st with CDone _ => true | _ => false end.
(* every goroutine has returned and closed its channel; the cursor is released; nothing is blocked *)
Definition all_done (l : list cell) : Prop := Forall (fun c => closed_st (c_st c) = true) l.

(* ---- the contracts ---- *)
(* K: a consumer never stops receiving before the close without leaving a drainer behind *)
Definition good_node (n : node) : Prop := forall canc s m, rr_next (n_on_msg n canc s m) <> NStop false.
(* the body cannot fault: from a state satisfying the node's invariant every reaction keeps the invariant
   and is not a fault *)
Definition nofault_node (n : node) : Prop :=
  (forall canc s m, n_ok n s = true ->
     match rr_next (n_on_msg n canc s m) with NCont s' => n_ok n s' = true | NFault => False | NStop _ => True end) /\
  (forall canc s, n_ok n s = true -> cr_fault (n_on_close n canc s) = false).

(* the same relative to a predicate on messages (e.g. "the TraceQL result row has arrays of equal length"): on
   acceptable messages the body does not fault and emits only acceptable messages *)
Definition nofault_node_on (okm : M -> bool) (n : node) : Prop :=
  (forall canc s m, n_ok n s = true -> okm m = true ->
     match rr_next (n_on_msg n canc s m) with NCont s' => n_ok n s' = true | NFault => False | NStop _ => True end /\
     forallb okm (rr_out (n_on_msg n canc s m)) = true) /\
  (forall canc s, n_ok n s = true ->
     cr_fault (n_on_close n canc s) = false /\ forallb okm (cr_out (n_on_close n canc s)) = true).
(* what a cell is still going to send is acceptable *)
Definition pend_ok (okm : M -> bool) (c : cell) : Prop :=
  match c_st c with CSend o _ => forallb okm o = true | _ => True end.

(* a cell that is leaving (or has left) without a drainer *)
Definition exiting_nodrain (st : cstate) : bool :=
  match st with CDone false => true | CSend _ (AExit false) => true | _ => false end.
(* the cell is not about to fault and its live state satisfies its node's invariant *)
Definition cell_ok (c : cell) : Prop :=
  match c_st c with
  | CRecv s => n_ok (c_node c) s = true
  | CSend _ (ACont s) => n_ok (c_node c) s = true
  | CSend _ AFault => False
  | _ => True
  end.
(* what a stage looks like when the request starts: waiting for input, or writing a header first *)
Definition fresh_stage (c : cell) : Prop := exiting_nodrain (c_st c) = false /\ cell_ok c.

(* the HTTP handler loop `for x := range ch { w.Write(x) }`: a write never blocks (it is a send to the always-ready
   environment of the last cell) but fails once the client is gone (ctx.Done() = true). keeps_receiving = the
   loop ignores the write error and goes on receiving until the channel is closed -- what the code does. *)
Definition handler_node (keeps_receiving : bool) : node :=
  mkNode (fun canc s m => if canc && negb keeps_receiving then mkRR [] false (NStop false) else mkRR [m] false (NCont s))
         (fun _ _ => mkCR [] false) (fun _ => true).

(* initial configuration: cursor with its rows, the stages waiting for input (some already sending a header),
   the handler receiving *)
Definition idle_node : node := mkNode (fun _ s _ => mkRR [] false (NCont s)) (fun _ _ => mkCR [] false) (fun _ => true).
Definition cursor_cell (rows : list M) : cell := mkCell idle_node (CSend rows (AExit false)).
Definition init_config (rows : list M) (stages : list cell) : config := mkConfig false false (cursor_cell rows :: stages).

(* ---- measure used for "every schedule is finite" ---- *)
Definition m_recv (n : node) (s : S) : nat :=
  Nat.max (length (cr_out (n_on_close n false s))) (length (cr_out (n_on_close n true s))) + 2.
Definition mcell (c : cell) : nat :=
  match c_st c with
  | CDone _ => 0
  | CRecv s => m_recv (c_node c) s
  | CSend o (ACont s) => length o + 1 + m_recv (c_node c) s
  | CSend o _ => length o + 1
  end.

Inductive lexlt : list nat -> list nat -> Prop :=
| lex_hd : forall a b l l', a < b -> length l = length l' -> lexlt (a :: l) (b :: l')
| lex_tl : forall a l l', lexlt l l' -> lexlt (a :: l) (a :: l').

(* ---- a deterministic scheduler (leftmost enabled transition), used to EXECUTE the model ---- *)
Fixpoint sched (canc : bool) (l : list cell) : option (bool * bool * list cell) :=
  match l with
  | [] => None
  | p :: tl =>
    let here :=
      match c_st p with
      | CSend [] (ACont s) => Some (canc, false, set_st p (CRecv s) :: tl)
      | CSend [] (AExit d) => Some (canc, false, set_st p (CDone d) :: tl)
      | CSend [] AFault => Some (canc, true, set_st p (CDone false) :: tl)
      | CSend (m :: ms) a =>
        match tl with
        | q :: l2 =>
          match c_st q with
          | CRecv s => let r := n_on_msg (c_node q) canc s m in
                       Some (canc || rr_cancel r, false,
                             set_st p (CSend ms a) :: set_st q (CSend (rr_out r) (after_of (rr_next r))) :: l2)
          | CDone true => Some (canc, false, set_st p (CSend ms a) :: q :: l2)
          | _ => None
          end
        | [] => Some (canc, false, [set_st p (CSend ms a)])
        end
      | CDone d =>
        match tl with
        | q :: l2 =>
          match c_st q with
          | CRecv s => let r := n_on_close (c_node q) canc s in
                       Some (canc, false, p :: set_st q (CSend (cr_out r) (if cr_fault r then AFault else AExit false)) :: l2)
          | _ => None
          end
        | [] => None
        end
      | CRecv _ => None
      end in
    match here with
    | Some x => Some x
    | None => match sched canc tl with
              | Some (c', k, tl') => Some (c', k, p :: tl')
              | None => None
              end
    end
  end.

Inductive run_result := RDone | RCrash | RStuck | RFuel.

Fixpoint run (fuel : nat) (canc : bool) (l : list cell) : run_result * list cell :=
  match fuel with
  | O => (RFuel, l)
  | Datatypes.S f =>
    match sched canc l with
    | None => (if forallb (fun c => closed_st (c_st c)) l then RDone else RStuck, l)
    | Some (canc', true, l') => (RCrash, l')
    | Some (canc', false, l') => run f canc' l'
    end
  end.

End LTS.

Arguments NCont {S}. Arguments NStop {S}. Arguments NFault {S}.
Arguments mkRR {S M}. Arguments mkCR {M}. Arguments mkNode {S M}.
Arguments rr_out {S M}. Arguments rr_cancel {S M}. Arguments rr_next {S M}.
Arguments cr_out {M}. Arguments cr_fault {M}.
Arguments n_on_msg {S M}. Arguments n_on_close {S M}. Arguments n_ok {S M}.
Arguments ACont {S}. Arguments AExit {S}. Arguments AFault {S}.
Arguments CRecv {S M}. Arguments CSend {S M}. Arguments CDone {S M}.
Arguments mkCell {S M}. Arguments c_node {S M}. Arguments c_st {S M}.
Arguments mkConfig {S M}. Arguments cancelled {S M}. Arguments crashed {S M}. Arguments cells {S M}.
Arguments lstep {S M}. Arguments step {S M}. Arguments star {S M}. Arguments quiescent {S M}. Arguments handler_node {S M}.
Arguments all_done {S M}. Arguments closed_st {S M}. Arguments good_node {S M}. Arguments nofault_node {S M}.
Arguments nofault_node_on {S M}. Arguments pend_ok {S M}.
Arguments exiting_nodrain {S M}. Arguments cell_ok {S M}. Arguments fresh_stage {S M}.
Arguments cursor_cell {S M}. Arguments idle_node {S M}. Arguments init_config {S M}. Arguments mcell {S M}. Arguments set_st {S M}.
Arguments sched {S M}. Arguments run {S M}. Arguments after_of {S}.
