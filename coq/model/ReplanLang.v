(* C14 for the other two query languages: re-execution of ONE TraceQL plan object (C11's model
   model/TraceqlPlan.v, referred to by qualified names: its SQL tree TqSql is not the LogQL one) and of
   one profile selector planner (C17's model/ProfSel.v). Definitions only.

   TraceqlPlan.plan q m c n is the statement of the n-th Process call on the planner objects that
   clickhouse_transpiler.Plan / PlanTagsV2 / PlanValuesV2 built for script q: the call index n is how
   that model carries the fields AttrConditionPlanner keeps between calls (sqlConds, where, isAliased,
   AggregatedAttr; AggregatorPlanner.fCmpVal). The context c carries what ComplexRequestProcessor
   rewrites before every call: RandomFilter{Max, I}, CachedTraceIds, From. *)
From Coq Require Import List ZArith NArith String Bool.
From Qryn Require model.TqSql model.Traceql model.TraceqlPlan.
From Qryn Require Import lib.Strs model.Sql model.SqlRender model.Logql model.LogqlPlan model.ProfSel.
Import ListNotations.

(* successive Process calls on one TraceQL plan object: call number n, n+1, ... each under its own context *)
Fixpoint tq_run_calls (q : Traceql.script) (m : TraceqlPlan.mode) (cs : list TraceqlPlan.ctx) (n : nat)
  : list (TraceqlPlan.result TqSql.select) :=
  match cs with
  | [] => []
  | c :: r => TraceqlPlan.plan q m c n :: tq_run_calls q m r (S n)
  end.
(* the reference: a plan object built for that call alone (its first Process) *)
Definition tq_fresh_calls (q : Traceql.script) (m : TraceqlPlan.mode) (cs : list TraceqlPlan.ctx)
  : list (TraceqlPlan.result TqSql.select) :=
  map (fun c => TraceqlPlan.plan q m c 1) cs.

(* ComplexRequestProcessor.Process: portion i of `portions`; ctx.RandomFilter = {portions, i},
   ctx.CachedTraceIds = the ids found so far, ctx.From = the oldest start time found so far (the two
   date strings derived from From are oracle values of that model, so they come with the portion) *)
Record portion := { po_cached : list string; po_from_ns : Z; po_from_date : string; po_ffd_from : string }.
Definition portion_ctx (c : TraceqlPlan.ctx) (portions : Z) (i : Z) (p : portion) : TraceqlPlan.ctx :=
  {| TraceqlPlan.from_ns := po_from_ns p; TraceqlPlan.to_ns := TraceqlPlan.to_ns c;
     TraceqlPlan.from_date := po_from_date p; TraceqlPlan.to_date := TraceqlPlan.to_date c;
     TraceqlPlan.ffd_from := po_ffd_from p; TraceqlPlan.ffd_to := TraceqlPlan.ffd_to c;
     TraceqlPlan.limit := TraceqlPlan.limit c; TraceqlPlan.is_cluster := TraceqlPlan.is_cluster c;
     TraceqlPlan.rf_max := portions; TraceqlPlan.rf_i := i; TraceqlPlan.cached := po_cached p;
     TraceqlPlan.attrs_table := TraceqlPlan.attrs_table c; TraceqlPlan.attrs_dist_table := TraceqlPlan.attrs_dist_table c;
     TraceqlPlan.traces_table := TraceqlPlan.traces_table c; TraceqlPlan.traces_dist_table := TraceqlPlan.traces_dist_table c;
     TraceqlPlan.kv_dist_table := TraceqlPlan.kv_dist_table c |}.
Fixpoint portion_ctxs (c : TraceqlPlan.ctx) (portions : Z) (i : Z) (ps : list portion) : list TraceqlPlan.ctx :=
  match ps with
  | [] => []
  | p :: r => portion_ctx c portions i p :: portion_ctxs c portions (i + 1)%Z r
  end.
(* the statements of the portion loop on the one planner ComplexRequestProcessor holds *)
Definition tq_portion_loop (q : Traceql.script) (c : TraceqlPlan.ctx) (ps : list portion) :=
  tq_run_calls q TraceqlPlan.MSearch (portion_ctxs c (Z.of_nat (List.length ps)) 0 ps) 1.

(* ---------- profile selectors: prof/transpiler.StreamSelectorPlanner ----------
   The planner object holds the parsed selectors only and Process writes no field: ProfSel.prof_selector_abs is a
   function of (table, window, selectors) and of the oracle "the anchored pattern matches the empty string" (re_full).
   Executions of one object over a list of windows: *)
Definition prof_run (re_full : string -> string -> bool) (table : string) (cluster : bool) (sels : list selector) (ws : list (Z * Z)) : list (option string) :=
  map (fun w => render (prof_selector_abs re_full table (fst w) (snd w) sels) cluster) ws.

(* cases evaluated inside Coq by checks/c14.py: the statements of successive Process calls on ONE real
   StreamSelectorPlanner object *)
Record pcase := { pc_id : Z; pc_table : string; pc_cluster : bool; pc_sels : list selector;
                  pc_windows : list (Z * Z); pc_obs : list (option string);
                  pc_empty : list (string * string * bool) }.      (* (pattern, "", the anchored pattern matches "") *)
Definition p_ostr_eqb (a b : option string) : bool :=
  match a, b with Some x, Some y => String.eqb x y | None, None => true | _, _ => false end.
Fixpoint p_olist_eqb (a b : list (option string)) : bool :=
  match a, b with [], [] => true | x :: r, y :: r' => p_ostr_eqb x y && p_olist_eqb r r' | _, _ => false end.
Definition pcase_mismatch (c : pcase) : bool :=
  negb (p_olist_eqb (prof_run (PromSel.tbl_lookup (pc_empty c)) (pc_table c) (pc_cluster c) (pc_sels c) (pc_windows c)) (pc_obs c)).
Definition prof_mismatches (cs : list pcase) : list Z := map pc_id (filter pcase_mismatch cs).

(* ---------- TraceQL: ONE real plan object executed under a list of contexts (plain executions and portions of a complex
   request in any order, harness replan `tail` / `reuse`) against C11's model: the statement of the n-th Process call is
   TraceqlPlan.plan q mode ctx_n n. The observed text travels as its fingerprint (TraceqlCase.fingerprint: two 63-bit
   polynomial hashes + length); None = Process returned an error or panicked. `tq_one_object = false`: every call was made
   on a new plan object (`fresh`): the call index stays 1. ---------- *)
From Qryn Require model.TraceqlCase.
From Coq Require Uint63.
Record tqcall := { tqc_ctx : TraceqlPlan.ctx; tqc_fp : option (Uint63.int * Uint63.int * Uint63.int) }.
Record tqcase := { tq_id : Z; tq_q : Traceql.script; tq_mode : TraceqlPlan.mode; tq_one_object : bool; tq_calls : list tqcall }.
Definition tq_call_mismatch (q : Traceql.script) (m : TraceqlPlan.mode) (n : nat) (k : tqcall) : bool :=
  match TraceqlPlan.plan q m (tqc_ctx k) n, tqc_fp k with
  | TraceqlPlan.Ok s, Some fp => negb (TraceqlCase.fp_eqb (TraceqlCase.fingerprint (TqSql.render s)) fp)
  | TraceqlPlan.Ok _, None => true
  | _, Some _ => true
  | _, None => false
  end.
Fixpoint tq_calls_mismatch (q : Traceql.script) (m : TraceqlPlan.mode) (one : bool) (n : nat) (i : Z) (l : list tqcall) : list Z :=
  match l with
  | [] => []
  | k :: r => ((if tq_call_mismatch q m n k then [i] else []) ++ tq_calls_mismatch q m one (if one then S n else n) (i + 1)%Z r)%list
  end.
(* (case id, index of the disagreeing execution) *)
Definition tq_mismatches (cs : list tqcase) : list (Z * Z) :=
  flat_map (fun c => map (fun i => (tq_id c, i)) (tq_calls_mismatch (tq_q c) (tq_mode c) (tq_one_object c) 1 0%Z (tq_calls c))) cs.
(* the model's own statement of execution i of a case, for the report *)
Definition tq_model_text (c : tqcase) (i : nat) : option String.string :=
  match nth_error (tq_calls c) i with
  | Some k => match TraceqlPlan.plan (tq_q c) (tq_mode c) (tqc_ctx k) (if tq_one_object c then S i else 1) with
              | TraceqlPlan.Ok s => Some (TqSql.render s) | _ => None end
  | None => None
  end.
