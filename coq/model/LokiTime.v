(* Model of parseTime (writer/utils/unmarshal/unmarshal.go): the timestamp texts of the Loki JSON push in the
   entries layout (keys ts / timestamp).  A text containing one of the bytes TIME_LAYOUT_BYTES (read from the source by
   translate/gen_decode_consts) is handed to time.Parse(time.RFC3339, .) -- Go's library, an oracle here --, any other
   text to strconv.ParseInt(., 10, 64), which is transcribed.  Property C03.  Definitions only. *)
From Coq Require Import List ZArith NArith Bool Ascii String.
From Qryn Require Import gen.DecodeConsts model.Decode.
Import ListNotations.
Open Scope Z_scope.

Fixpoint in_chars (chars : string) (b : N) : bool :=
  match chars with EmptyString => false | String x r => (byte x =? b)%N || in_chars r b end.
(* strings.ContainsAny *)
Fixpoint contains_any (s chars : string) : bool :=
  match s with EmptyString => false | String a r => in_chars chars (byte a) || contains_any r chars end.

(* strconv.ParseInt(s, 10, 64): optional sign, at least one decimal digit, nothing else; out of range is an error *)
Definition parse_int64 (s : string) : option Z :=
  let '(neg, digits) :=
    match s with
    | String a r => if Ascii.eqb a "+" then (false, r) else if Ascii.eqb a "-" then (true, r) else (false, s)
    | EmptyString => (false, s)
    end in
  match digits with
  | EmptyString => None
  | _ => match parse_digits digits 0 with
         | None => None
         | Some v => if neg then (if v <=? 9223372036854775808 then Some (- v) else None)
                     else (if v <? 9223372036854775808 then Some v else None)
         end
  end.

Section PARSETIME.
  Variable rfc3339 : string -> option Z.     (* time.Parse(time.RFC3339, s) then UTC().UnixNano(); None = error *)
  Definition parse_time (s : string) : option Z :=
    if contains_any s TIME_LAYOUT_BYTES then rfc3339 s else parse_int64 s.
End PARSETIME.

(* decimal digits as a client writes them *)
Definition digits_text (ds : list N) : string := fold_right (fun d acc => String (ascii_of_N (48 + d)) acc) EmptyString ds.
Definition digits_value (ds : list N) : Z := fold_left (fun a d => a * 10 + Z.of_N d) ds 0.
Definition all_digits (ds : list N) : bool := forallb (fun d => (d <? 10)%N) ds.
Definition int_text (neg : bool) (ds : list N) : string := if neg then String "-" (digits_text ds) else digits_text ds.
Definition int_value (neg : bool) (ds : list N) : Z := if neg then - digits_value ds else digits_value ds.

(* ---------------------------------------------------------------- generated case files *)
Definition oz_eqb (a b : option Z) : bool :=
  match a, b with Some x, Some y => x =? y | None, None => true | _, _ => false end.
(* want = Some ns: the text was written from the nanosecond timestamp ns (decimal integer, or RFC 3339 with nanoseconds
   and a whole-minute offset); rfc = the library's verdict on the text; obs = what parseTime returned (None = error) *)
Record tcase := TCase { tc_id : Z; tc_text : string; tc_want : option Z; tc_rfc : option Z; tc_obs : option Z }.
Definition tc_mismatch (c : tcase) : bool := negb (oz_eqb (parse_time (fun _ => tc_rfc c) (tc_text c)) (tc_obs c)).
Definition tc_spec_violation (c : tcase) : bool :=
  match tc_want c with Some ns => negb (oz_eqb (Some ns) (tc_obs c)) | None => false end.
Definition tc_check_all (cs : list tcase) : list Z * list Z :=
  (map tc_id (filter tc_mismatch cs), map tc_id (filter tc_spec_violation cs)).
