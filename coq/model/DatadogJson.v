(* Model of the Datadog logs decoder (writer/utils/unmarshal/datadogJsonUnmarshal.go): the walk of
   datadogRequestDec.Decode / DecodeEntry over the JSON document and the extraction of the labels from the ddtags text.
   Property C03.  Definitions only.

   The document is the tree jx walks over (model/LokiJson.v jv).  The tags are found by
     tagPattern: group 1 = a letter then any number of [letter _ 0-9 - . \ /], a colon, group 2 = one or more of
     [letter _ 0-9 - . \ / :], then a comma or the end of the text; FindAllStringSubmatch(val, -1)
   The regexp engine is not modelled; the pattern is: a match at a position is forced -- the longest run of key
   characters starting with a letter, a colon (no key character), the longest non-empty run of value characters (the
   colon is one), then a comma (no value character) or the end of the text -- so leftmost-first matching is a scan:
   try at the current position, on success go on behind the match, otherwise one byte further.  \p{L} on runes outside
   ASCII is the oracle uletter of model/LokiLabels.v (unicode.IsLetter); a byte that is not UTF-8 is no letter. *)
From Coq Require Import List ZArith NArith Bool Ascii String.
From Qryn Require Import gen.DecodeConsts model.Decode model.LokiLabels model.LokiTime model.LokiJson.
Import ListNotations.
Open Scope N_scope.

Definition is_letter_ascii (b : N) : bool := inr 65 90 b || inr 97 122 b.
(* _ 0-9 - . \ / *)
Definition key_extra (b : N) : bool := (b =? 95) || is_digit b || (b =? 45) || (b =? 46) || (b =? 92) || (b =? 47).
Definition val_extra (b : N) : bool := key_extra b || (b =? 58).

Section TAGS.
  Variable uletter : string -> bool.

  (* number of bytes of the longest prefix of s made of letters and of ASCII bytes satisfying extra *)
  Fixpoint class_len (extra : N -> bool) (skip : nat) (s : string) : nat :=
    match s with
    | EmptyString => O
    | String a r =>
      match skip with
      | S k => S (class_len extra k r)
      | O =>
        let b := byte a in
        if b <? 128 then (if is_letter_ascii b || extra b then S (class_len extra 0 r) else O)
        else match rune_width b r with
             | S (S k) => if uletter (String a (substring 0 (S k) r)) then S (class_len extra (S k) r) else O
             | _ => O
             end
      end
    end.

  Definition starts_with_letter (s : string) : bool :=
    match s with
    | EmptyString => false
    | String a r =>
      let b := byte a in
      if b <? 128 then is_letter_ascii b
      else match rune_width b r with S (S k) => uletter (String a (substring 0 (S k) r)) | _ => false end
    end.

  (* a match starting at the first byte of s: (key, value, text behind the match) *)
  Definition tag_at (s : string) : option (string * string * string) :=
    if starts_with_letter s then
      let n1 := class_len key_extra 0 s in
      match sdrop n1 s with
      | String c r2 =>
        if byte c =? 58 then
          match class_len val_extra 0 r2 with
          | O => None
          | S k =>
            let v := substring 0 (S k) r2 in
            match sdrop (S k) r2 with
            | EmptyString => Some (substring 0 n1 s, v, EmptyString)
            | String d r3 => if byte d =? 44 then Some (substring 0 n1 s, v, r3) else None
            end
          end
        else None
      | EmptyString => None
      end
    else None.

  Fixpoint find_tags (fuel : nat) (s : string) : labels :=
    match fuel with
    | O => []
    | S f =>
      match s with
      | EmptyString => []
      | String _ r =>
        match tag_at s with
        | Some (k, v, rest) => (k, v) :: find_tags f rest
        | None => find_tags f r
        end
      end
    end.
  Definition dd_tags (text : string) : labels := find_tags (S (String.length text)) text.

  (* ---- DecodeEntry: the members of one log object, in order; None = the request is answered with an error *)
  Record ddacc := DA { da_tags : labels; da_source : string; da_service : string; da_host : string; da_stype : string;
                       da_msg : string; da_ts : Z }.
  Definition da0 : ddacc := DA [] EmptyString EmptyString EmptyString EmptyString EmptyString 0%Z.

  (* "timestamp": dec.Int64 -- a number token whose text is an integer literal within int64; anything else is an error *)
  Definition dd_entry_member (int_of : jv -> option Z) (acc : ddacc) (kv : string * jv) : option ddacc :=
    let '(k, v) := kv in
    let str := match v with JStr s => Some s | _ => None end in
    if String.eqb k "ddsource" then option_map (fun s => DA (da_tags acc) s (da_service acc) (da_host acc) (da_stype acc) (da_msg acc) (da_ts acc)) str
    else if String.eqb k "ddtags" then option_map (fun s => DA (da_tags acc ++ dd_tags s) (da_source acc) (da_service acc) (da_host acc) (da_stype acc) (da_msg acc) (da_ts acc)) str
    else if String.eqb k "hostname" then option_map (fun s => DA (da_tags acc) (da_source acc) (da_service acc) s (da_stype acc) (da_msg acc) (da_ts acc)) str
    else if String.eqb k "message" then option_map (fun s => DA (da_tags acc) (da_source acc) (da_service acc) (da_host acc) (da_stype acc) s (da_ts acc)) str
    else if String.eqb k "service" then option_map (fun s => DA (da_tags acc) (da_source acc) s (da_host acc) (da_stype acc) (da_msg acc) (da_ts acc)) str
    else if String.eqb k "source_type" then option_map (fun s => DA (da_tags acc) (da_source acc) (da_service acc) (da_host acc) s (da_msg acc) (da_ts acc)) str
    else if String.eqb k "timestamp" then option_map (fun t => DA (da_tags acc) (da_source acc) (da_service acc) (da_host acc) (da_stype acc) (da_msg acc) t) (int_of v)
    else Some acc.

  Fixpoint dd_entry_members (int_of : jv -> option Z) (ms : list (string * jv)) (acc : ddacc) : option ddacc :=
    match ms with
    | [] => Some acc
    | kv :: r => match dd_entry_member int_of acc kv with Some acc' => dd_entry_members int_of r acc' | None => None end
    end.

  Definition some_if_nonempty (s : string) : option string := if String.eqb s EmptyString then None else Some s.
  (* the ddlog record of model/Decode.v: an empty string field adds no label, exactly like an absent one *)
  Definition ddlog_of_acc (a : ddacc) : ddlog :=
    DL (da_tags a) (some_if_nonempty (da_source a)) (some_if_nonempty (da_service a)) (some_if_nonempty (da_host a))
       (some_if_nonempty (da_stype a)) (da_msg a) (da_ts a).

  Definition dd_entry (int_of : jv -> option Z) (v : jv) : option ddlog :=
    match v with
    | JObj ms => option_map ddlog_of_acc (dd_entry_members int_of ms da0)
    | _ => None
    end.
  Definition dd_document (int_of : jv -> option Z) (doc : jv) : option (list ddlog) :=
    match doc with JArr els => all_some (dd_entry int_of) els | _ => None end.
End TAGS.

(* tags as a client writes them: k1:v1,k2:v2,... *)
Definition tag_key_ok (s : string) : bool :=
  match s with
  | EmptyString => false
  | String a r => is_letter_ascii (byte a) && all_bytes (fun b => is_letter_ascii b || key_extra b) r
  end.
Definition tag_val_ok (s : string) : bool :=
  match s with EmptyString => false | _ => all_bytes (fun b => is_letter_ascii b || val_extra b) s end.
Definition tag_ok (t : string * string) : bool := tag_key_ok (fst t) && tag_val_ok (snd t).
Fixpoint print_tags (ts : labels) : string :=
  match ts with
  | [] => EmptyString
  | [t] => (fst t ++ String ":" (snd t))%string
  | t :: r => (fst t ++ String ":" (snd t ++ String "," (print_tags r)))%string
  end.

(* ---------------------------------------------------------------- generated case files *)
Definition dd_int_of (v : jv) : option Z := match v with JNum _ i => i | _ => None end.

Record dcase := DCase { dc_case : case; dc_doc : jv; dc_written : bool; dc_letters : list string }.
Definition dc_logs (c : dcase) : option (list ddlog) := dd_document (in_tab (dc_letters c)) dd_int_of (dc_doc c).
Definition case_clock (c : case) : clock := match body_clock (c_body c) with Some ck => ck | None => CK 0 0 [] end.
Definition with_ddbody (c : case) (l : list ddlog) : case :=
  Case (c_id c) (BDDLog (case_clock c) l) (c_ctx_ttl c) (c_cache c) (c_tab c) (c_obs c) (c_err c).
(* an empty string field and an absent one are the same to the decoder *)
Definition ostr_eqb (a b : option string) : bool := String.eqb (opt_str a) (opt_str b).
Definition ddlog_eqb (a b : ddlog) : bool :=
  labels_eqb (dl_tags a) (dl_tags b) && ostr_eqb (dl_source a) (dl_source b) && ostr_eqb (dl_service a) (dl_service b) &&
  ostr_eqb (dl_host a) (dl_host b) && ostr_eqb (dl_stype a) (dl_stype b) && String.eqb (dl_msg a) (dl_msg b) && (dl_ts a =? dl_ts b)%Z.
(* a log without a (non-zero) timestamp is stamped with time.Now(): the clock readings of the case (model/Decode.v clock) *)
Definition dc_mismatch (c : dcase) : bool :=
  match dc_logs c with
  | None => negb (is_error (c_err (dc_case c)))
  | Some l =>
    (dc_written c && negb (match c_body (dc_case c) with BDDLog _ l0 => list_eqb ddlog_eqb l l0 | _ => false end))
    || model_mismatch (with_ddbody (dc_case c) l)
  end.
Definition dc_spec_violation (c : dcase) : bool :=
  if dc_written c then spec_violation (dc_case c)
  else match dc_logs c with
       | Some l => negb (is_error (c_err (dc_case c))) && spec_violation (with_ddbody (dc_case c) l)
       | None => false
       end.
Definition dc_check_all (cs : list dcase) : list Z * list Z :=
  (map (fun c => c_id (dc_case c)) (filter dc_mismatch cs), map (fun c => c_id (dc_case c)) (filter dc_spec_violation cs)).

(* bodies read through a reader that fails part-way (Decode.v fr_violation): the request failed, or its rows are those of ALL
   logs the walk finds in the document (a free-form ddtags text is read by the model, not by the harness) *)
Definition dc_fr_violation (c : dcase) : bool :=
  match dc_logs c with
  | Some l => fr_violation (with_ddbody (dc_case c) l)
  | None => false
  end.
Definition dc_fr_check_all (cs : list dcase) : list Z * list Z := ([], map (fun c => c_id (dc_case c)) (filter dc_fr_violation cs)).

Open Scope Z_scope.
(* ---------------------------------------------------------------- Datadog metrics: datadogMetricsJsonUnmarshal.go *)
(* MaybeString / MaybeObj / MaybeArr return without consuming a value of another type, so the object loop of jx fails on
   the value left behind: a member of the wrong type is an error here too *)

(* one resource object: every member a string; labels resource<i>_<key> *)
Definition resource_object (v : jv) : option labels :=
  match v with
  | JObj ms => all_some (fun kv => match snd kv with JStr s => Some (fst kv, s) | _ => None end) ms
  | _ => None
  end.

(* the points array: timestamp and value are variables of the enclosing function, so a point object without one of them
   repeats what the point before it had; before the first timestamp of the array tsNs is the clock reading taken when the array
   began: such leading points are the stamped ones (their values in order) *)
Fixpoint point_members (ms : list (string * jv)) (st : option Z * N) : option (option Z * N) :=
  match ms with
  | [] => Some st
  | (k, v) :: r =>
    if String.eqb k "timestamp" then
      match v with JNum _ (Some z) => point_members r (Some z, snd st) | _ => None end
    else if String.eqb k "value" then
      match v with JNum b _ => point_members r (fst st, b) | _ => None end
    else point_members r st
  end.
Inductive walked (A : Type) := WErr | WUnmodelled | WOk (x : A).
Arguments WErr {A}. Arguments WUnmodelled {A}. Arguments WOk {A} x.

Fixpoint points_array (els : list jv) (st : option Z * N) (acc : list (Z * N)) (stamped : list N)
  : walked (list (Z * N) * list N * (option Z * N)) :=
  match els with
  | [] => WOk (acc, stamped, st)
  | JObj ms :: r =>
    match point_members ms st with
    | None => WErr
    | Some (Some z, b) => points_array r (Some z, b) (acc ++ [(z, b)]) stamped
    | Some (None, b) => points_array r (None, b) acc (stamped ++ [b])      (* time.Now() of the array *)
    end
  | _ :: _ => WErr
  end.

(* what the members of one series object add up to: the metric names, the resource arrays, the points *)
Record sacc := SA { sa_names : list string; sa_resources : list (list labels); sa_points : list (Z * N); sa_stamped : list N }.
Fixpoint series_members (ms : list (string * jv)) (a : sacc) : walked sacc :=
  match ms with
  | [] => WOk a
  | (k, v) :: r =>
    if String.eqb k "metric" then
      match v with JStr s => series_members r (SA (sa_names a ++ [s]) (sa_resources a) (sa_points a) (sa_stamped a)) | _ => WErr end
    else if String.eqb k "resources" then
      match v with
      | JArr els => match all_some resource_object els with
                    | Some rs => series_members r (SA (sa_names a) (sa_resources a ++ [rs]) (sa_points a) (sa_stamped a))
                    | None => WErr
                    end
      | _ => WErr
      end
    else if String.eqb k "points" then
      match v with
      | JArr els => match points_array els (None, 0%N) [] [] with    (* the two variables start afresh for every points member *)
                    | WOk (ps, [], _) => series_members r (SA (sa_names a) (sa_resources a) (sa_points a ++ ps) (sa_stamped a))
                    | WOk (ps, st, _) =>
                      (* stamped points behind earlier points of the same series (a second points member): its own clock reading, not modelled *)
                      match sa_points a, sa_stamped a with
                      | [], [] => series_members r (SA (sa_names a) (sa_resources a) ps st)
                      | _, _ => WUnmodelled
                      end
                    | WErr => WErr
                    | WUnmodelled => WUnmodelled
                    end
      | _ => WErr
      end
    else series_members r a
  end.

(* the ddseries record of model/Decode.v carries one optional name and one resources array (label order is irrelevant to
   the tie: label lists are looked up as multisets); a series object with several of either is not modelled *)
Definition series_of_acc (a : sacc) : walked ddseries :=
  match sa_names a, sa_resources a with
  | [], [] => WOk (DS None [] (sa_points a) (sa_stamped a))
  | [n], [] => WOk (DS (Some n) [] (sa_points a) (sa_stamped a))
  | [], [rs] => WOk (DS None rs (sa_points a) (sa_stamped a))
  | [n], [rs] => WOk (DS (Some n) rs (sa_points a) (sa_stamped a))
  | _, _ => WUnmodelled
  end.
Definition series_object (v : jv) : walked ddseries :=
  match v with
  | JObj ms => match series_members ms (SA [] [] [] []) with WOk a => series_of_acc a | WErr => WErr | WUnmodelled => WUnmodelled end
  | _ => WErr
  end.
(* an error in series k comes after the series before it were handed on; for the request as a whole: an error wins over
   a series that is not modelled only if it comes first -- either way the request is not compared unless every series is
   modelled or the first problem is an error *)
Fixpoint series_array (els : list jv) : walked (list ddseries) :=
  match els with
  | [] => WOk []
  | v :: r => match series_object v with
              | WErr => WErr
              | WUnmodelled => WUnmodelled
              | WOk s => match series_array r with WOk l => WOk (s :: l) | WErr => WErr | WUnmodelled => WUnmodelled end
              end
  end.
Fixpoint ddmet_top (ms : list (string * jv)) : walked (list ddseries) :=
  match ms with
  | [] => WOk []
  | (k, v) :: r =>
    if String.eqb k "series" then
      match v with
      | JArr els => match series_array els with
                    | WOk a => match ddmet_top r with WOk b => WOk (a ++ b) | WErr => WErr | WUnmodelled => WUnmodelled end
                    | WErr => WErr
                    | WUnmodelled => WUnmodelled
                    end
      | _ => WErr
      end
    else ddmet_top r
  end.
Definition ddmet_document (doc : jv) : walked (list ddseries) := match doc with JObj ms => ddmet_top ms | _ => WErr end.

Record mcase := MCase { mc_case : case; mc_doc : jv; mc_written : bool }.
Definition with_mbody (c : case) (l : list ddseries) : case :=
  Case (c_id c) (BDDMet (case_clock c) l) (c_ctx_ttl c) (c_cache c) (c_tab c) (c_obs c) (c_err c).
Definition ostr_eqb_strict (a b : option string) : bool :=
  match a, b with Some x, Some y => String.eqb x y | None, None => true | _, _ => false end.
Definition ddseries_eqb (a b : ddseries) : bool :=
  ostr_eqb_strict (dm_metric a) (dm_metric b) && list_eqb labels_eqb (dm_resources a) (dm_resources b) &&
  list_eqb (fun p q => (fst p =? fst q) && (snd p =? snd q)%N) (dm_points a) (dm_points b) && list_eqb N.eqb (dm_stamped a) (dm_stamped b).

(* an absent "resources" member and an empty array give the same labels *)
Definition mc_mismatch (c : mcase) : bool :=
  match ddmet_document (mc_doc c) with
  | WErr => negb (is_error (c_err (mc_case c)))
  | WUnmodelled => false
  | WOk l =>
    (mc_written c && negb (match c_body (mc_case c) with BDDMet _ l0 => list_eqb ddseries_eqb l l0 | _ => false end))
    || model_mismatch (with_mbody (mc_case c) l)
  end.
Definition mc_spec_violation (c : mcase) : bool :=
  if mc_written c then spec_violation (mc_case c)
  else match ddmet_document (mc_doc c) with
       | WOk l => negb (is_error (c_err (mc_case c))) && spec_violation (with_mbody (mc_case c) l)
       | _ => false
       end.
Definition mc_check_all (cs : list mcase) : list Z * list Z :=
  (map (fun c => c_id (mc_case c)) (filter mc_mismatch cs), map (fun c => c_id (mc_case c)) (filter mc_spec_violation cs)).
