(* C01, "... every request eventually gets exactly one answer WHILE THE DATABASE KEEPS ANSWERING": the liveness
   statement of model/IngestSched.v assumed that every connection attempt succeeds.  Here the database may also
   REFUSE connections and leave the watchdog ping unanswered -- an adversary picks the moments -- as long as it does so
   finitely often (budget b): fetchLoopIteration logs "DB Connect error", sleeps a second and returns with insertCtx
   still done, so Run calls it again and it dials again; a failed ping closes and forgets the client, the next
   iteration dials.  Executable definitions only; theorems in proofs/IngestFairProofs.v, props/C01.v.

   - fault_act: the two fault steps (GSvc s (SDial false), GSvc s SPingFail).
   - next_act_f db adv g b: if the adversary `adv` names a fault that is enabled in g (a dial can only be refused
     while worker s is dialling, a ping only fails between two inserts) and the budget is not used up, that fault
     happens; otherwise the system takes its own next step (next_act db g: INSERT outcomes by the policy db).
   - muf: the variant mu g + 2 b.
   - no_do_return: traces in which no Do returns (the database has stopped answering), for the refutation. *)
From Coq Require Import List NArith ZArith Bool.
From Qryn Require Import model.Ingest model.PushHandler model.IngestSched.
Import ListNotations.

Inductive fault := FDial (s : nat) | FPing (s : nat).
Definition fault_act (f : fault) : gact :=
  match f with FDial s => GSvc s (SDial false) | FPing s => GSvc s SPingFail end.
Definition is_fault (a : gact) : bool :=
  match a with GSvc _ (SDial false) | GSvc _ SPingFail => true | _ => false end.
(* steps that bring no new work: those of the system itself and the faults *)
Definition nonew (a : gact) : bool := internal a || is_fault a.

Definition lift_own (b : nat) (o : option gact) : option (gact * nat) :=
  match o with Some a => Some (a, b) | None => None end.
Definition next_act_f (db : gstate -> nat -> bool) (adv : gstate -> nat -> option fault) (g : gstate) (b : nat)
  : option (gact * nat) :=
  match b with
  | O => lift_own b (next_act db g)
  | S b' =>
      match adv g b with
      | Some f => match gstep g (fault_act f) with
                  | Some _ => Some (fault_act f, b')
                  | None => lift_own b (next_act db g)
                  end
      | None => lift_own b (next_act db g)
      end
  end.

Definition muf (g : gstate) (b : nat) : nat := mu g + 2 * b.

Fixpoint run_sched_f (db : gstate -> nat -> bool) (adv : gstate -> nat -> option fault) (fuel : nat) (g : gstate) (b : nat)
  : gstate * nat * list gact * list event :=
  match fuel with
  | O => (g, b, [], [])
  | S f =>
      match next_act_f db adv g b with
      | None => (g, b, [], [])
      | Some (a, b1) =>
          match gstep g a with
          | None => (g, b, [], [])
          | Some (g1, e1) => let '(g2, b2, tr, e2) := run_sched_f db adv f g1 b1 in (g2, b2, a :: tr, e1 ++ e2)
          end
      end
  end.

Definition count_faults (tr : list gact) : nat := length (filter is_fault tr).

(* ---------------------------------------------------------------- a database that has stopped answering *)
(* traces in which no Do returns (for unanswered_until_a_do_returns) *)
Definition no_do_return (a : gact) : bool :=
  match a with GSvc _ (SDoReturn _) => false | _ => true end.
