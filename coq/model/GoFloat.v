(* C15 — the number texts of the query responses, as functions of the numbers.

   The reader prints numbers in five ways:
     fmt.Sprintf("%d", int64) / Stream.WriteInt64            [int_text]       (log timestamps, vector seconds)
     fmt.Sprintf("%f", float64)                              [f6_text]        (matrix timestamps, Prometheus scalar)
     strconv.FormatFloat(v, 'f', -1, 64)                     [shortest_text]  (every sample value)
     jsoniter Stream.WriteFloat64                            [wfloat64_text]  (Prometheus timestamps)
     encoding/json's float64 encoder                         [gojson_float_text]  (TraceInfo.durationMs)
   and computes the floats it prints from integers: float64(TimestampNS)/1e9, float64(T)/1000.

   Everything here is executable and on exact integers:
     fl               a float64 value (NaN, infinities, signed zeros, m * 2^e with the canonical mantissa)
     fl_of_bits       IEEE 754 binary64 decoding
     rne              round-to-nearest-even of a positive rational to 53 significant bits (results in the
                      normal range; the quotients computed by the reader are int64 / 1e9 or / 1000)
     shortest         strconv's shortest decimal that reads back as the same float64 (roundShortest: first
                      digit position at which rounding down or up stays inside the rounding interval;
                      nearest of the two, ties to even, when both do)
     fixed_text       digits with the decimal point k places from the right ('f' layout)
     exp_text         d.ddde[+-]xx ('e' layout)
   SpecFloat (Coq's own IEEE 754 specification) is used as an independent cross-check of rne in
   [sf_agrees]; it is not part of the model. *)
From Coq Require Import List NArith ZArith Bool Ascii String SpecFloat.
Import ListNotations.
Open Scope Z_scope.

(* ------------------------------------------------------------------------------------------ *)
(* decimal digits *)

Definition dchr (d : Z) : ascii := ascii_of_N (Z.to_N (48 + d)).

(* most significant digit first; fuel: one unit per digit *)
Fixpoint digits_f (f : nat) (n : Z) : string :=
  match f with
  | O => EmptyString
  | S f => if n <? 10 then String (dchr n) EmptyString
           else (digits_f f (n / 10) ++ String (dchr (n mod 10)) EmptyString)%string
  end.
Definition digits (n : Z) : string := digits_f (S (Z.to_nat (Z.log2 n))) n.

Fixpoint zeros (k : nat) : string := match k with O => EmptyString | S k => String (dchr 0) (zeros k) end.
Definition pad_left (k : nat) (s : string) : string := (zeros (k - String.length s) ++ s)%string.

Definition sign_text (neg : bool) : string := if neg then String (ascii_of_N 45) EmptyString else EmptyString.
Definition dot : string := String (ascii_of_N 46) EmptyString.

(* the decimal n / 10^k in the 'f' layout: integer part, and k fraction digits when k > 0 *)
Definition fixed_text (neg : bool) (n : Z) (k : nat) : string :=
  let p := 10 ^ Z.of_nat k in
  (sign_text neg ++ digits (n / p) ++
   match k with O => EmptyString | S _ => dot ++ pad_left k (digits (n mod p)) end)%string.

(* the decimal D * 10^P (D >= 1 without trailing zero) in the 'e' layout with precision -1:
   d[.ddd]e(+|-)xx, at least two exponent digits *)
Definition mant_text (ds : string) : string :=
  match ds with
  | EmptyString => EmptyString
  | String c EmptyString => String c EmptyString
  | String c r => String c (dot ++ r)%string
  end.
Definition exp_digits (x : Z) : string :=
  let pad := if Z.abs x <? 10 then zeros 1 else EmptyString in (pad ++ digits (Z.abs x))%string.
Definition exp_text (neg : bool) (D P : Z) : string :=
  let ds := digits D in
  let x := P + Z.of_nat (String.length ds) - 1 in
  let esign := ascii_of_N (if x <? 0 then 45%N else 43%N) in
  (sign_text neg ++ mant_text ds ++ String (ascii_of_N 101) (String esign (exp_digits x)))%string.

(* fmt %d / WriteInt64 *)
Definition int_text (z : Z) : string := let neg := z <? 0 in (sign_text neg ++ digits (Z.abs z))%string.

(* ------------------------------------------------------------------------------------------ *)
(* float64 values *)

Inductive fl := FNaN | FInf (neg : bool) | FZero (neg : bool) | FFin (neg : bool) (m e : Z).   (* m * 2^e, m > 0 *)

Definition fl_of_bits (b : N) : fl :=
  let z := Z.of_N b in
  let neg := 2 ^ 63 <=? z in
  let ex := (z / 2 ^ 52) mod 2048 in
  let fr := z mod 2 ^ 52 in
  if ex =? 2047 then (if fr =? 0 then FInf neg else FNaN)
  else if ex =? 0 then (if fr =? 0 then FZero neg else FFin neg fr (-1074))
  else FFin neg (fr + 2 ^ 52) (ex - 1075).

Definition fl_finite (x : fl) : bool := match x with FZero _ | FFin _ _ _ => true | _ => false end.

(* round-to-nearest-even of a / b (a, b > 0) to 53 significant bits: (m, e), 2^52 <= m < 2^53 *)
Definition rne (a b : Z) : Z * Z :=
  let e1 := Z.log2 a - Z.log2 b - 53 in
  let q1 := (a * 2 ^ Z.max (- e1) 0) / (b * 2 ^ Z.max e1 0) in
  let e := if q1 <? 2 ^ 53 then e1 else e1 + 1 in
  let num := a * 2 ^ Z.max (- e) 0 in
  let den := b * 2 ^ Z.max e 0 in
  let q := num / den in
  let r := num mod den in
  let q' := if 2 * r <? den then q
            else if 2 * r =? den then (if Z.even q then q else q + 1)
            else q + 1 in
  if q' =? 2 ^ 53 then (2 ^ 52, e + 1) else (q', e).

(* float64(z) for an int64 z *)
Definition fl_of_int (z : Z) : fl :=
  if z =? 0 then FZero false else let (m, e) := rne (Z.abs z) 1 in FFin (z <? 0) m e.
(* x / float64(c) for a positive integer c that float64 represents exactly *)
Definition fl_div_int (x : fl) (c : Z) : fl :=
  match x with
  | FFin neg m e => let (m', e') := rne (m * 2 ^ Z.max e 0) (c * 2 ^ Z.max (- e) 0) in FFin neg m' e'
  | _ => x
  end.

(* float64(TimestampNS) / 1e9 and float64(T) / 1000 *)
Definition ts_seconds (ns : Z) : fl := fl_div_int (fl_of_int ns) 1000000000.
Definition ms_seconds (ms : Z) : fl := fl_div_int (fl_of_int ms) 1000.

(* cross-check against Coq's IEEE 754 specification (binary64: prec 53, emax 1024) *)
Definition sf_of_fl (x : fl) : spec_float :=
  match x with
  | FNaN => S754_nan
  | FInf s => S754_infinity s
  | FZero s => S754_zero s
  | FFin s m e => match m with Zpos p => S754_finite s p e | _ => S754_nan end
  end.
Definition sf_int (z : Z) : spec_float := binary_normalize 53 1024 z 0 false.
Definition sf_eqb (a b : spec_float) : bool :=
  match a, b with
  | S754_zero s, S754_zero t => Bool.eqb s t
  | S754_finite s m e, S754_finite t n f => Bool.eqb s t && Pos.eqb m n && Z.eqb e f
  | _, _ => false
  end.
Definition sf_agrees (z c : Z) : bool :=
  sf_eqb (sf_of_fl (fl_of_int z)) (sf_int z) &&
  sf_eqb (sf_of_fl (fl_div_int (fl_of_int z) c)) (SFdiv 53 1024 (sf_int z) (sf_int c)).

(* ------------------------------------------------------------------------------------------ *)
(* shortest decimal of m * 2^e (strconv roundShortest) *)

(* number of leading fraction zeros: least j >= 0 with x * 10^(j+1) >= 1, for x = xn / den < 1 *)
Fixpoint lead_zeros (f : nat) (xn den j : Z) : Z :=
  match f with
  | O => j
  | S f => if den <=? xn * 10 then j else lead_zeros f (xn * 10) den (j + 1)
  end.
(* number of decimal digits of q >= 1, from the binary length (log10 2 ~ 0.30103) and two comparisons *)
Definition dec_len (q : Z) : Z :=
  let g := Z.log2 q * 30103 / 100000 in
  if 10 ^ (g + 1) <=? q then g + 2 else if 10 ^ g <=? q then g + 1 else g.
(* dp with 10^(dp-1) <= xn/den < 10^dp *)
Definition dec_exp (xn den : Z) : Z :=
  if den <=? xn then dec_len (xn / den)
  else - lead_zeros (S (Z.to_nat (Z.log2 den))) xn den 0.

Fixpoint strip_zeros (f : nat) (D P : Z) : Z * Z :=
  match f with
  | O => (D, P)
  | S f => if (D mod 10 =? 0) && negb (D =? 0) then strip_zeros f (D / 10) (P + 1) else (D, P)
  end.

Record ival := { iv_xn : Z; iv_ln : Z; iv_un : Z; iv_den : Z; iv_incl : bool }.
(* the float, and the midpoints to its two neighbours, over one denominator 2^s *)
Definition interval (m e : Z) : ival :=
  let s := Z.max 0 (2 - e) in
  {| iv_xn := m * 2 ^ (e + s);
     iv_un := (2 * m + 1) * 2 ^ (e + s - 1);
     iv_ln := if (m =? 2 ^ 52) && negb (e =? -1074) then (4 * m - 1) * 2 ^ (e + s - 2)
              else (2 * m - 1) * 2 ^ (e + s - 1);
     iv_den := 2 ^ s;
     iv_incl := Z.even m |}.

(* is lower <= D * A / B <= upper (strict when the mantissa is odd); A / B = 10^P *)
Definition in_interval_ab (iv : ival) (D A B : Z) : bool :=
  let d := D * A * iv_den iv in
  if iv_incl iv then (iv_ln iv * B <=? d) && (d <=? iv_un iv * B)
  else (iv_ln iv * B <? d) && (d <? iv_un iv * B).
Definition in_interval (iv : ival) (D P : Z) : bool :=
  in_interval_ab iv D (10 ^ Z.max P 0) (10 ^ Z.max (- P) 0).

Definition in_bounds (incl : bool) (lb ub d : Z) : bool :=
  if incl then (lb <=? d) && (d <=? ub) else (lb <? d) && (d <? ub).

(* one digit position after the other, most significant first: P is the weight of the last digit kept.
   With A = 10^max(P,0) and B = 10^max(-P,0):  xb = xn*B, lb = ln*B, ub = un*B, half = A*den travel along
   (one division and one multiplication of big numbers per position); t is the float cut at that position *)
Fixpoint search (f : nat) (incl : bool) (P xb lb ub half : Z) : option (Z * Z) :=
  match f with
  | O => None
  | S f =>
    let t := xb / half in
    let d := t * half in
    let okdown := in_bounds incl lb ub d in
    let okup := in_bounds incl lb ub (d + half) in
    let rem2 := 2 * (xb - d) in
    let up_nearer := (half <? rem2) || ((half =? rem2) && Z.odd t) in
    if okdown && okup then Some ((if up_nearer then t + 1 else t), P)
    else if okdown then Some (t, P)
    else if okup then Some (t + 1, P)
    else if 1 <=? P then search f incl (P - 1) xb lb ub (half / 10)
    else search f incl (P - 1) (xb * 10) (lb * 10) (ub * 10) half
  end.

(* the exact expansion xn * 5^s / 10^s *)
Definition exact_dec (m e : Z) : Z * Z :=
  let s := Z.max 0 (2 - e) in (iv_xn (interval m e) * 5 ^ s, - s).

Definition shortest (m e : Z) : Z * Z :=
  let iv := interval m e in
  let P := dec_exp (iv_xn iv) (iv_den iv) - 1 in
  let A := 10 ^ Z.max P 0 in
  let B := 10 ^ Z.max (- P) 0 in
  let c := match search 17 (iv_incl iv) P (iv_xn iv * B) (iv_ln iv * B) (iv_un iv * B) (A * iv_den iv) with
           | Some (D, P') => strip_zeros 20 D P'
           | None => exact_dec m e
           end in
  (* never the second branch for a float64 (17 digits always suffice, and what the search returns lies in the interval) *)
  if in_interval iv (fst c) (snd c) then c else exact_dec m e.

(* 'f' layout of D * 10^P *)
Definition fixed_of_dec (neg : bool) (D P : Z) : string :=
  if 0 <=? P then
    (if D =? 0 then fixed_text neg 0 0 else (sign_text neg ++ digits D ++ zeros (Z.to_nat P))%string)
  else fixed_text neg D (Z.to_nat (- P)).

Definition special_text (x : fl) : string :=
  match x with
  | FNaN => "NaN"
  | FInf false => "+Inf"
  | FInf true => "-Inf"
  | _ => EmptyString
  end.

(* strconv.FormatFloat(v, 'f', -1, 64) *)
Definition shortest_text (x : fl) : string :=
  match x with
  | FZero neg => fixed_text neg 0 0
  | FFin neg m e => let (D, P) := shortest m e in fixed_of_dec neg D P
  | _ => special_text x
  end.

(* fmt.Sprintf("%f", v): the exact value rounded half-to-even at the sixth decimal *)
Definition round_half_even (num den : Z) : Z :=
  let q := num / den in
  let r := num mod den in
  if 2 * r <? den then q else if 2 * r =? den then (if Z.even q then q else q + 1) else q + 1.
Definition f6_text (x : fl) : string :=
  match x with
  | FZero neg => fixed_text neg 0 6
  | FFin neg m e => fixed_text neg (round_half_even (m * 1000000 * 2 ^ Z.max e 0) (2 ^ Z.max (- e) 0)) 6
  | _ => special_text x
  end.

(* |x| < 1e-6 (the float64 nearest to it: 0x3EB0C6F7A0B5ED8D) and |x| >= 1e21 (exact) *)
Definition lt_1e_6 (m e : Z) : bool :=
  m * 2 ^ Z.max e 0 * 2 ^ 72 <? 4722366482869645 * 2 ^ Z.max (- e) 0.
Definition ge_1e21 (m e : Z) : bool :=
  1000000000000000000000 * 2 ^ Z.max (- e) 0 <=? m * 2 ^ Z.max e 0.

(* jsoniter Stream.WriteFloat64: nothing at all for NaN / infinities (stream.Error is set) *)
Definition wfloat64_text (x : fl) : string :=
  match x with
  | FZero neg => fixed_text neg 0 0
  | FFin neg m e =>
    let (D, P) := shortest m e in
    if lt_1e_6 m e || ge_1e21 m e then exp_text neg D P else fixed_of_dec neg D P
  | _ => EmptyString
  end.

(* strings.TrimSuffix(val, "0") then strings.TrimSuffix(val, ".") when val contains a point *)
Fixpoint has_dot (s : string) : bool :=
  match s with EmptyString => false | String c r => (N_of_ascii c =? 46)%N || has_dot r end.
Fixpoint trim_last (c : N) (s : string) : string :=
  match s with
  | EmptyString => EmptyString
  | String a EmptyString => if (N_of_ascii a =? c)%N then EmptyString else s
  | String a r => String a (trim_last c r)
  end.
Definition trim_val (s : string) : string := if has_dot s then trim_last 46 (trim_last 48 s) else s.

(* the value texts of the writers *)
Definition matrix_val_text (bits : N) : string := trim_val (shortest_text (fl_of_bits bits)).
Definition value_text (bits : N) : string := shortest_text (fl_of_bits bits).

(* reading a plain decimal back: (negative, all digits as one integer, number of fraction digits) *)
Fixpoint read_digits (s : string) (acc : Z) (frac : option nat) : option (Z * nat) :=
  match s with
  | EmptyString => Some (acc, match frac with Some k => k | None => O end)
  | String c r =>
    let n := Z.of_N (N_of_ascii c) in
    if (48 <=? n) && (n <=? 57) then read_digits r (acc * 10 + (n - 48)) (option_map S frac)
    else if n =? 46 then match frac with None => read_digits r acc (Some O) | Some _ => None end
    else None
  end.
Definition read_fixed (s : string) : option (bool * Z * nat) :=
  match s with
  | String c r => if (N_of_ascii c =? 45)%N
                  then option_map (fun p => (true, fst p, snd p)) (read_digits r 0 None)
                  else option_map (fun p => (false, fst p, snd p)) (read_digits s 0 None)
  | EmptyString => None
  end.
