(* C20 — the assembled HTTP router: what main() builds (as a list of guarded operations, regenerated from the
   source by translate/gen_routes into gen/GenRoutes.v), gorilla/mux v1.8.1 dispatch, and the middleware chain.

   gorilla/mux facts transcribed here (mux.go Router.Match / Router.ServeHTTP, route.go Route.Match):
   * routes of a router are tried in registration order; the first route all of whose matchers accept wins;
   * a route whose path matches but whose method does not records ErrMethodMismatch; if no route matches fully
     the answer is 405 (some path matched) or 404, in both cases WITHOUT running any middleware;
   * the middlewares of a router wrap the handler at match time, in Use order, outermost first -- so a Use after a
     route registration still covers that route; a sub-router's chain is its parent's chain followed by its own;
   * a router made by mux.NewRouter() shares nothing with any other router.
   Executable definitions only; proofs in proofs/AuthProofs.v. *)
From Coq Require Import List String Ascii Bool NArith Arith.
From Qryn Require Import model.Auth.
Import ListNotations.
Open Scope string_scope.

(* ---------------------------------------------------------------- middlewares and conditions *)
Inductive mw := BasicAuth | AcceptEncoding | Cors | Logging | MwOther (name : string).

Definition mw_eqb (a b : mw) : bool :=
  match a, b with
  | BasicAuth, BasicAuth | AcceptEncoding, AcceptEncoding | Cors, Cors | Logging, Logging => true
  | MwOther x, MwOther y => String.eqb x y
  | _, _ => false
  end.

(* condition under which an operation of the assembly is executed; atoms are numbered by the translator
   (gen_atoms describes them: "login configured", "password configured", "cors enabled", "mode == all", ...) *)
Inductive cond := CTrue | CFalse | CAtom (a : nat) | CNot (c : cond) | CAnd (a b : cond) | COr (a b : cond).
(* what an atom stands for in the source (the translator emits gen_atom_kinds, one per atom): Username != "",
   Password != "", Cors.Enable, Mode == "<lit>", anything else *)
Inductive atom_kind := AKLogin | AKPass | AKCors | AKMode (lit : string) | AKOther.

Fixpoint cond_eval (env : nat -> bool) (c : cond) : bool :=
  match c with
  | CTrue => true
  | CFalse => false
  | CAtom a => env a
  | CNot c => negb (cond_eval env c)
  | CAnd a b => cond_eval env a && cond_eval env b
  | COr a b => cond_eval env a || cond_eval env b
  end.
Fixpoint cond_bound (n : nat) (c : cond) : bool :=
  match c with
  | CTrue | CFalse => true
  | CAtom a => Nat.ltb a n
  | CNot c => cond_bound n c
  | CAnd a b | COr a b => cond_bound n a && cond_bound n b
  end.

(* ---------------------------------------------------------------- operations of the assembly *)
Record route := {
  rt_router : nat;            (* the router value the route was registered on *)
  rt_prefix : bool;           (* PathPrefix(tpl) instead of Path/HandleFunc(tpl) *)
  rt_tpl : string;            (* path template as written, e.g. "/api/traces/{traceId}/json" *)
  rt_methods : list string;   (* Methods(...), upper case; [] = any method *)
  rt_exact : bool             (* the translator read template and matchers completely (literal path, only path+methods) *)
}.

Inductive rop :=
| ONewRouter (r : nat)                         (* r := mux.NewRouter() *)
| OSubrouter (r parent : nat) (tpl : string)   (* r := parent.PathPrefix(tpl).Subrouter() *)
| OUse (r : nat) (m : mw)                      (* r.Use(m) *)
| ORoute (rt : route)                          (* r.HandleFunc(tpl, h).Methods(...) and friends *)
| OServe (r : nat)                             (* http.Serve / ListenAndServe with router r as the handler *)
| OServeOther (what : string)                  (* something that is not a tracked router is served *)
| OUnknown (descr : string).                   (* the router value went somewhere the translator cannot follow *)

Definition gop := (cond * rop)%type.
Definition active (env : nat -> bool) (g : list gop) : list rop :=
  map snd (filter (fun x => cond_eval env (fst x)) g).

(* ---------------------------------------------------------------- router tree and chains *)
Fixpoint parent_of (ops : list rop) (r : nat) : option nat :=
  match ops with
  | [] => None
  | OSubrouter r' p _ :: rest => if Nat.eqb r' r then Some p else parent_of rest r
  | _ :: rest => parent_of rest r
  end.
Fixpoint sub_tpl (ops : list rop) (r : nat) : string :=
  match ops with
  | [] => EmptyString
  | OSubrouter r' _ t :: rest => if Nat.eqb r' r then t else sub_tpl rest r
  | _ :: rest => sub_tpl rest r
  end.
Fixpoint root_of (fuel : nat) (ops : list rop) (r : nat) : nat :=
  match fuel with
  | O => r
  | S f => match parent_of ops r with Some p => root_of f ops p | None => r end
  end.
Definition own_uses (ops : list rop) (r : nat) : list mw :=
  flat_map (fun o => match o with OUse r' m => if Nat.eqb r' r then [m] else [] | _ => [] end) ops.
(* the middlewares that wrap a handler of router r, outermost first *)
Fixpoint chain_of (fuel : nat) (ops : list rop) (r : nat) : list mw :=
  match fuel with
  | O => own_uses ops r
  | S f => match parent_of ops r with
           | Some p => chain_of f ops p ++ own_uses ops r
           | None => own_uses ops r
           end
  end.
Fixpoint prefix_of (fuel : nat) (ops : list rop) (r : nat) : string :=
  match fuel with
  | O => EmptyString
  | S f => match parent_of ops r with
           | Some p => prefix_of f ops p ++ sub_tpl ops r
           | None => EmptyString
           end
  end.
Definition chain (ops : list rop) (r : nat) : list mw := chain_of (List.length ops) ops r.

Definition routes (ops : list rop) : list route :=
  flat_map (fun o => match o with ORoute rt => [rt] | _ => [] end) ops.
Definition served (ops : list rop) (r : nat) : bool :=
  existsb (fun o => match o with OServe r' => Nat.eqb r' (root_of (List.length ops) ops r) | _ => false end) ops.
(* routes that a client can reach: those whose root router is handed to an HTTP server *)
Definition reachable_routes (ops : list rop) : list route :=
  filter (fun rt => served ops (rt_router rt)) (routes ops).

(* ---------------------------------------------------------------- the structural check *)
(* middlewares that do nothing but call next exactly once (proved of their models below) *)
Definition transparent (m : mw) : bool :=
  match m with AcceptEncoding | Cors | Logging => true | _ => false end.
Fixpoint guarded (ch : list mw) : bool :=
  match ch with
  | BasicAuth :: _ => true
  | m :: r => transparent m && guarded r
  | [] => false
  end.
(* the middlewares that run before BasicAuth gets the request *)
Fixpoint before_auth (ch : list mw) : list mw :=
  match ch with
  | BasicAuth :: _ => []
  | m :: r => m :: before_auth r
  | [] => []
  end.
Definition strictly_first (ch : list mw) : bool := match ch with BasicAuth :: _ => true | _ => false end.
Definition known (m : mw) : bool := match m with MwOther _ => false | _ => true end.

Definition no_escape (ops : list rop) : bool :=
  forallb (fun o => match o with OServeOther _ | OUnknown _ => false | _ => true end) ops.
(* BasicAuth is, on every reachable route, the first middleware that can answer or dispatch *)
Definition assembly_ok (ops : list rop) : bool :=
  no_escape ops && forallb (fun rt => guarded (chain ops (rt_router rt))) (reachable_routes ops).
Definition assembly_known (ops : list rop) : bool :=
  forallb (fun rt => forallb known (chain ops (rt_router rt))) (reachable_routes ops).
Definition assembly_strict (ops : list rop) : bool :=
  forallb (fun rt => strictly_first (chain ops (rt_router rt))) (reachable_routes ops).

(* a reachable route whose chain has NO BasicAuth (and only known middlewares): served to anybody *)
Definition open_route (ops : list rop) (rt : route) : bool :=
  negb (existsb (mw_eqb BasicAuth) (chain ops (rt_router rt))) && forallb known (chain ops (rt_router rt)).
Definition open_check (ops : list rop) : bool := existsb (open_route ops) (reachable_routes ops).

(* all valuations of the first n atoms *)
Fixpoint envs (n : nat) : list (list bool) :=
  match n with
  | O => [[]]
  | S k => flat_map (fun l => [true :: l; false :: l]) (envs k)
  end.
Definition env_of_list (l : list bool) : nat -> bool := fun i => nth i l false.
Definition gops_bound (n : nat) (g : list gop) : bool := forallb (fun x => cond_bound n (fst x)) g.
(* for every valuation in which the atoms of `must` hold, the active assembly passes `chk` *)
Definition all_envs (n : nat) (must : list nat) (chk : list rop -> bool) (g : list gop) : bool :=
  gops_bound n g && forallb (fun a => Nat.ltb a n) must &&
  forallb (fun l => let env := env_of_list l in
                    if forallb env must then chk (active env g) else true) (envs n).

(* ---------------------------------------------------------------- dispatch *)
Fixpoint split_on (sep : ascii) (s : string) : list string :=     (* strings.Split for a one-byte separator *)
  match s with
  | EmptyString => [EmptyString]
  | String c r =>
      if Ascii.eqb c sep then EmptyString :: split_on sep r
      else match split_on sep r with
           | x :: xs => String c x :: xs
           | [] => [String c EmptyString]
           end
  end.
Fixpoint last_char (s : string) : option ascii :=
  match s with
  | EmptyString => None
  | String c EmptyString => Some c
  | String _ r => last_char r
  end.
(* "{name}" : one whole path segment, regexp [^/]+ *)
Definition is_var (seg : string) : bool :=
  match seg with
  | String c r => Ascii.eqb c "{"%char && match last_char r with Some d => Ascii.eqb d "}"%char | None => false end
  | EmptyString => false
  end.
Fixpoint segs_match (ts ps : list string) : bool :=
  match ts, ps with
  | [], [] => true
  | t :: ts', p :: ps' => (if is_var t then negb (is_empty p) else String.eqb t p) && segs_match ts' ps'
  | _, _ => false
  end.
Definition seg_supported (seg : string) : bool :=
  if is_var seg then
    match seg with
    | String _ r => negb (has_char "{"%char r) && negb (has_char ":"%char r)
    | EmptyString => false
    end
  else negb (has_char "{"%char seg) && negb (has_char "}"%char seg).
Definition tpl_supported (prefix : bool) (tpl : string) : bool :=
  if prefix then negb (has_char "{"%char tpl) else forallb seg_supported (split_on "/"%char tpl).

Definition full_tpl (ops : list rop) (rt : route) : string :=
  prefix_of (List.length ops) ops (rt_router rt) ++ rt_tpl rt.
(* a reachable route with its full template, split once *)
Record croute := { cr_route : route; cr_tpl : string; cr_segs : list string }.
(* the routes a request to the served root router `root` is matched against (its own and its sub-routers') *)
Definition routes_of_root (ops : list rop) (root : nat) : list route :=
  filter (fun rt => Nat.eqb (root_of (List.length ops) ops (rt_router rt)) root) (reachable_routes ops).
Definition compile (ops : list rop) (root : nat) : list croute :=
  map (fun rt => {| cr_route := rt; cr_tpl := full_tpl ops rt; cr_segs := split_on "/"%char (full_tpl ops rt) |})
      (routes_of_root ops root).
Definition path_match (cr : croute) (path : string) (psegs : list string) : bool :=
  if rt_prefix (cr_route cr) then String.prefix (cr_tpl cr) path else segs_match (cr_segs cr) psegs.
Definition method_ok (rt : route) (m : string) : bool :=
  match rt_methods rt with
  | [] => true
  | ms => existsb (String.eqb m) ms
  end.

Inductive found := FRoute (rt : route) | F405 | F404 | F301.

(* mux.Router.ServeHTTP, before any matching (SkipClean is not set): if cleanPath(path) <> path the router answers
   301 Moved Permanently with the cleaned Location -- no route is matched, no middleware and no handler runs.
   cleanPath(p) = p exactly when p starts with "/" and, split on "/", no segment after the leading empty one is
   "." or ".." and none but the last is empty (path.Clean, with a trailing slash kept). *)
Definition seg_dot (s : string) : bool := String.eqb s "." || String.eqb s "..".
Fixpoint segs_clean (l : list string) : bool :=
  match l with
  | [] => true
  | [s] => negb (seg_dot s)
  | s :: r => negb (is_empty s) && negb (seg_dot s) && segs_clean r
  end.
Definition path_clean (p : string) : bool :=
  match split_on "/"%char p with
  | first :: s :: r => is_empty first && segs_clean (s :: r)
  | _ => false
  end.
(* psegs = the request path split on "/" *)
Fixpoint find_route (crs : list croute) (m path : string) (psegs : list string) (seen : bool) : found :=
  match crs with
  | [] => if seen then F405 else F404
  | cr :: rest =>
      if path_match cr path psegs then
        if method_ok (cr_route cr) m then FRoute (cr_route cr) else find_route rest m path psegs true
      else find_route rest m path psegs seen
  end.
(* Router.Match behind the path cleaning *)
Definition route_request (crs : list croute) (m path : string) : found :=
  if path_clean path then find_route crs m path (split_on "/"%char path) false else F301.
Definition lookup (ops : list rop) (root : nat) (m path : string) : found :=
  route_request (compile ops root) m path.
(* every template and matcher is inside the fragment that path_match / method_ok transcribe exactly *)
Definition dispatch_exact (ops : list rop) : bool :=
  forallb (fun rt => rt_exact rt && tpl_supported (rt_prefix rt) (full_tpl ops rt)) (routes ops)
  && forallb (fun o => match o with OSubrouter _ _ _ => false | _ => true end) ops.

(* ---------------------------------------------------------------- serving a request *)
Record request := {
  q_method : string;
  q_path : string;
  q_auth : string;        (* Header.Get("Authorization"); "" when absent *)
  q_gzip : bool;          (* Accept-Encoding contains "gzip" *)
  q_tag : N               (* everything else of the request (body, query, Origin, ...) the handler may look at *)
}.
(* what ran, in order: middleware m called next / BasicAuth answered itself / an unknown middleware answered / the
   route's handler ran *)
Inductive event := EvNext (m : mw) | EvReject (st : N) | EvShort (name : string) (st : N) | EvHandler.
Definition event_eqb (a b : event) : bool :=
  match a, b with
  | EvNext x, EvNext y => mw_eqb x y
  | EvReject x, EvReject y => N.eqb x y
  | EvShort n x, EvShort m y => String.eqb n m && N.eqb x y
  | EvHandler, EvHandler => true
  | _, _ => false
  end.
Record response := {
  p_status : N;
  p_www : bool;           (* WWW-Authenticate set *)
  p_gzip : bool;          (* Content-Encoding: gzip set by the compression wrapper *)
  p_cors : bool;          (* Access-Control-* set *)
  p_trace : list event
}.
Definition handler_ran (p : response) : bool := existsb (event_eqb EvHandler) (p_trace p).
Definition entered (m : mw) (p : response) : response :=
  {| p_status := p_status p; p_www := p_www p; p_gzip := p_gzip p; p_cors := p_cors p;
     p_trace := EvNext m :: p_trace p |}.
Definition is2xx (st : N) : bool := (200 <=? st)%N && (st <? 300)%N.

Section SERVE.
  Variable check_err : bool.                           (* true: the code as it is; false: before the fix *)
  Variables login pass : string.
  Variable other : string -> request -> option N.      (* an unknown middleware: Some st = answers st itself *)
  Variable h : request -> N.                           (* the route's handler: the status it writes *)

  Fixpoint serve (ch : list mw) (q : request) : response :=
    match ch with
    | [] => {| p_status := h q; p_www := false; p_gzip := false; p_cors := false; p_trace := [EvHandler] |}
    | BasicAuth :: r =>
        match basic_auth_gen check_err login pass (q_auth q) with
        | VPass => entered BasicAuth (serve r q)
        | v => {| p_status := verdict_status v; p_www := verdict_eqb v VChallenge401; p_gzip := false;
                  p_cors := false; p_trace := [EvReject (verdict_status v)] |}
        end
    | AcceptEncoding :: r =>
        (* gzipResponseWriter: 2xx answers are buffered and sent with Content-Encoding: gzip, others pass through *)
        let p := entered AcceptEncoding (serve r q) in
        if q_gzip q && is2xx (p_status p)
        then {| p_status := p_status p; p_www := p_www p; p_gzip := true; p_cors := p_cors p; p_trace := p_trace p |}
        else p
    | Cors :: r =>
        let p := entered Cors (serve r q) in
        {| p_status := p_status p; p_www := p_www p; p_gzip := p_gzip p; p_cors := true; p_trace := p_trace p |}
    | Logging :: r => entered Logging (serve r q)
    | MwOther n :: r =>
        match other n q with
        | Some st => {| p_status := st; p_www := false; p_gzip := false; p_cors := false; p_trace := [EvShort n st] |}
        | None => entered (MwOther n) (serve r q)
        end
    end.

  Definition plain (st : N) : response :=
    {| p_status := st; p_www := false; p_gzip := false; p_cors := false; p_trace := [] |}.
  (* Router.ServeHTTP of the served root router `root`; crs = compile ops root *)
  Definition dispatch_c (crs : list croute) (ops : list rop) (q : request) : response :=
    match route_request crs (q_method q) (q_path q) with
    | FRoute rt => serve (chain ops (rt_router rt)) q
    | F405 => plain 405
    | F404 => plain 404
    | F301 => plain 301
    end.
  Definition dispatch (ops : list rop) (root : nat) (q : request) : response := dispatch_c (compile ops root) ops q.
End SERVE.

(* ---------------------------------------------------------------- correspondence cases *)
Record obs := {
  o_status : N;
  o_handler : bool;       (* the instrumented handler of some route ran *)
  o_backend : N;          (* calls logged by the fake back-ends during the request *)
  o_www : bool;
  o_gzip : bool;
  o_cors : bool
}.
Record rcase := { c_id : N; c_req : request; c_obs : obs }.

Definition no_other : string -> request -> option N := fun _ _ => None.
(* the harness handler answers the status carried in the request tag *)
Definition tag_handler : request -> N := q_tag.

Definition obs_agrees (p : response) (o : obs) : bool :=
  N.eqb (p_status p) (o_status o) && Bool.eqb (handler_ran p) (o_handler o) && Bool.eqb (p_www p) (o_www o)
  && Bool.eqb (p_gzip p) (o_gzip o) && Bool.eqb (p_cors p) (o_cors o).
Definition mismatches (check_err : bool) (login pass : string) (ops : list rop) (root : nat) (cs : list rcase) : list N :=
  let crs := compile ops root in
  flat_map (fun c => if obs_agrees (dispatch_c check_err login pass no_other tag_handler crs ops (c_req c)) (c_obs c)
                     then [] else [c_id c]) cs.

(* the property itself, as a decision on OBSERVATIONS of the implementation (no reference to basic_auth):
   without exactly the credentials nothing behind the check ran and the answer is 401/400 (or the router's own
   404/405); with them (login without ':') the answer is not an authentication failure. *)
Definition spec_ok (login pass : string) (c : rcase) : bool :=
  let o := c_obs c in
  let st := o_status o in
  (* the router's own redirect of a path that is not in canonical form: nothing behind the router ran *)
  let redirected := N.eqb st 301 && negb (path_clean (q_path (c_req c))) && negb (o_handler o) && N.eqb (o_backend o) 0 in
  if carries_credentials login pass (q_auth (c_req c)) then
    has_char ":"%char login || negb (exact_credentials login pass (q_auth (c_req c)))
    || negb (N.eqb st 401 || N.eqb st 400) && (o_handler o || N.eqb st 404 || N.eqb st 405 || redirected)
  else negb (o_handler o) && N.eqb (o_backend o) 0
       && (N.eqb st 401 || N.eqb st 400 || N.eqb st 404 || N.eqb st 405 || redirected).
Definition spec_violations (login pass : string) (cs : list rcase) : list N :=
  flat_map (fun c => if spec_ok login pass c then [] else [c_id c]) cs.

(* cases for the middleware alone (BasicAuthMiddleware over a recording handler, any header bytes) *)
Record acase := { a_id : N; a_auth : string; a_status : N; a_next : bool; a_www : bool;
                  a_payload : string; a_decode_ok : bool (* DecodeString of the part after the first space *) }.
Definition auth_mismatches (check_err : bool) (login pass : string) (cs : list acase) : list N :=
  flat_map (fun c =>
    let v := basic_auth_gen check_err login pass (a_auth c) in
    let dec_ok := match split_first " "%char (a_auth c) with
                  | Some (_, rest) => String.eqb (b64_decode_prefix rest) (a_payload c)
                                      && Bool.eqb (b64_decode_ok rest) (a_decode_ok c)
                  | None => true
                  end in
    if Bool.eqb (verdict_eqb v VPass) (a_next c)
       && (a_next c || N.eqb (verdict_status v) (a_status c))
       && Bool.eqb (verdict_eqb v VChallenge401) (a_www c) && dec_ok
    then [] else [a_id c]) cs.
Definition auth_spec_violations (login pass : string) (cs : list acase) : list N :=
  flat_map (fun c =>
    if carries_credentials login pass (a_auth c)
    then (if has_char ":"%char login || negb (exact_credentials login pass (a_auth c)) || a_next c then [] else [a_id c])
    else (if negb (a_next c) && (N.eqb (a_status c) 401 || N.eqb (a_status c) 400) then [] else [a_id c])) cs.
