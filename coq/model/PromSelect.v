(* CLokiQuerier.Select (reader/service/promQueryable.go) after the SQL has been sent: the loop over
   the result rows, labelsGetter (Plan/Fetch/Get), ReshuffleSeries and the final sort, as pure
   functions of the row list and of the rows answered to the labels request.
   Rows are (fingerprint, value, timestamp_ms) in the order ClickHouse returned them. Sample values
   are integers (the harness feeds integral float64 values; values are only copied, never computed
   with, except by the count_over_time MapResult).  Executable definitions only. *)
From Coq Require Import List ZArith NArith String Ascii Bool.
From Qryn Require Import lib.Strs.
Import ListNotations.
Open Scope string_scope.

Record row := { r_fp : N; r_val : Z; r_ts : Z }.
Definition sample := (Z * Z)%type.                          (* model.Sample{TimestampMs, Value} *)
Record pseries := { ps_fp : N; ps_samples : list sample }.  (* model.Series without the getter *)
Definition labels := list (string * string).

(* TranspileLabelMatchersDownsample's MapResult for count_over_time *)
Definition map_result_count (samples : list sample) : list sample :=
  flat_map (fun s => repeat (fst s, 1%Z) (Z.to_nat (snd s))) samples.
Definition apply_mr (mr : bool) (s : pseries) : pseries :=
  if mr then {| ps_fp := ps_fp s; ps_samples := map_result_count (ps_samples s) |} else s.

(* ---------- the row loop ----------
   state = res.Series, newest first (lastLabels is the fingerprint of the newest series).
   `if len(res.Series) == 0 || fp != lastLabels` opens a series, after MapResult has been applied to
   the one being closed; the row is appended to the newest series. *)
Definition loop_step (mr : bool) (st : list pseries) (r : row) : list pseries :=
  let smp := (r_ts r, r_val r) in
  match st with
  | [] => [{| ps_fp := r_fp r; ps_samples := [smp] |}]
  | s :: ss =>
    if N.eqb (r_fp r) (ps_fp s) then {| ps_fp := ps_fp s; ps_samples := ps_samples s ++ [smp] |} :: ss
    else {| ps_fp := r_fp r; ps_samples := [smp] |} :: apply_mr mr s :: ss
  end.
Definition select_loop (mr : bool) (rows : list row) : list pseries :=
  match fold_left (loop_step mr) rows [] with
  | [] => []
  | s :: ss => rev (apply_mr mr s :: ss)
  end.

(* ---------- byte-wise string order (Go's < on strings) ---------- *)
Fixpoint str_ltb (a b : string) : bool :=
  match a, b with
  | _, EmptyString => false
  | EmptyString, String _ _ => true
  | String x a', String y b' =>
    let nx := N_of_ascii x in let ny := N_of_ascii y in
    if N.ltb nx ny then true else if N.ltb ny nx then false else str_ltb a' b'
  end.

Section ISORT.
  Context {A : Type} (lt : A -> A -> bool).
  (* stable insertion sort: x goes after every element that is not greater *)
  Fixpoint insert_sorted (x : A) (l : list A) : list A :=
    match l with
    | [] => [x]
    | y :: r => if lt x y then x :: l else y :: insert_sorted x r
    end.
  Definition isort (l : list A) : list A := fold_left (fun acc x => insert_sorted x acc) l [].
End ISORT.

(* ---------- labelsGetter ---------- *)
(* Fetch: one answered row per (fingerprint, day); the last row of a fingerprint wins; label pairs
   sorted by name (sort.Slice is not stable: names are unique in what qryn stores). Get sorts again. *)
Definition fetch_row := (N * labels)%type.
Definition sort_labels (l : labels) : labels := isort (fun a b => str_ltb (fst a) (fst b)) l.
Definition fingerprints_has (fetch : list fetch_row) (fp : N) : option labels :=
  fold_left (fun acc fr => if N.eqb (fst fr) fp then Some (sort_labels (snd fr)) else acc) fetch None.
Definition labels_get (fetch : list fetch_row) (fp : N) : labels :=
  match fingerprints_has fetch fp with None => [] | Some l => sort_labels l end.

(* ---------- ReshuffleSeries ----------
   key = labels.Hash() of the series' label list (xxhash over name 0xff value 0xff ..: the separators cannot occur
   in UTF-8 label text; the model keys by the label list itself: the 64-bit hash is taken to be injective on the
   label lists of one answer).  Before fix 3acbc45 the key was CityHash64 of the text "n1=v1 n2=v2 ..", which
   {a="b c=d"} and {a="b", c="d"} share.  The first series of a key receives the samples of every later series
   with the same key (appended, then sorted by timestamp); the later series is left out of the returned slice. *)
Fixpoint list_eqb {A} (eq : A -> A -> bool) (a b : list A) : bool :=
  match a, b with
  | [], [] => true
  | x :: r, y :: r' => eq x y && list_eqb eq r r'
  | _, _ => false
  end.
Definition pair_eqb {A B} (ea : A -> A -> bool) (eb : B -> B -> bool) (x y : A * B) : bool :=
  ea (fst x) (fst y) && eb (snd x) (snd y).
Definition labels_eqb : labels -> labels -> bool := list_eqb (pair_eqb String.eqb String.eqb).
Definition label_str (l : labels) : string := join " " (map (fun kv => fst kv ++ "=" ++ snd kv) l).   (* the former key *)
Definition sort_samples (l : list sample) : list sample := isort (fun a b => Z.ltb (fst a) (fst b)) l.
Fixpoint reshuffle_go (seen : list labels) (l : list (labels * pseries)) : list pseries :=
  match l with
  | [] => []
  | (k, s) :: rest =>
    if existsb (labels_eqb k) seen then reshuffle_go seen rest
    else
      let dups := filter (fun ks => labels_eqb (fst ks) k) rest in
      {| ps_fp := ps_fp s;
         ps_samples := fold_left (fun acc d => sort_samples (acc ++ ps_samples (snd d))) dups (ps_samples s) |}
      :: reshuffle_go (k :: seen) rest
  end.
Definition reshuffle (getl : N -> labels) (ss : list pseries) : list pseries :=
  reshuffle_go [] (map (fun s => (getl (ps_fp s), s)) ss).

(* ---------- the final sort.Slice ---------- *)
Fixpoint labels_less (a b : labels) : bool :=
  match a with
  | [] => true
  | (n1, v1) :: ra =>
    match b with
    | [] => false
    | (n2, v2) :: rb =>
      if negb (String.eqb n1 n2) then str_ltb n1 n2
      else if negb (String.eqb v1 v2) then str_ltb v1 v2
      else labels_less ra rb
    end
  end.

Record out_series := { o_labels : labels; o_fp : N; o_samples : list sample }.
(* strict version used for placing an element: equal label lists keep their order *)
Definition out_lt (a b : out_series) : bool := labels_less (o_labels a) (o_labels b) && negb (labels_less (o_labels b) (o_labels a)).

Definition select_series (mr : bool) (rows : list row) (fetch : list fetch_row) : list out_series :=
  let getl := labels_get fetch in
  let ss := reshuffle getl (select_loop mr rows) in
  isort out_lt (map (fun s => {| o_labels := getl (ps_fp s); o_fp := ps_fp s; o_samples := ps_samples s |}) ss).

(* ---------- several Selects on one querier (a PromQL query with several selectors / offsets) ----------
   labelsGetter as the object it is in Go: the window it was created with, the fingerprints resolved so far
   (fingerprintsHas) and the planned ones (fingerprintToFetch, a set). `answer from to fps` is the database's
   reply to the labels request for that window.  CLokiQuerier itself keeps only db and ctx: every Select
   builds its own getter from its own hints.  The querier state below has a slot for a retained getter so
   that "which getter does a Select use" is part of the model: select_step ignores the slot and stores the
   getter it built. *)
Record lgetter := { lg_from : Z; lg_to : Z; lg_has : list fetch_row; lg_plan : list N }.
Definition new_getter (from_ms to_ms : Z) : lgetter := {| lg_from := from_ms; lg_to := to_ms; lg_has := []; lg_plan := [] |}.
Definition lg_plan_fp (g : lgetter) (fp : N) : lgetter :=
  if existsb (N.eqb fp) (lg_plan g) then g
  else {| lg_from := lg_from g; lg_to := lg_to g; lg_has := lg_has g; lg_plan := lg_plan g ++ [fp] |}.
Definition lg_fetch (answer : Z -> Z -> list N -> list fetch_row) (g : lgetter) : lgetter :=
  match lg_plan g with
  | [] => g                                             (* len(fingerprintToFetch) == 0: no request *)
  | fps => {| lg_from := lg_from g; lg_to := lg_to g; lg_has := lg_has g ++ answer (lg_from g) (lg_to g) fps; lg_plan := lg_plan g |}
  end.
Definition lg_get (g : lgetter) (fp : N) : labels := labels_get (lg_has g) fp.

Record select_call := { cl_mr : bool; cl_from : Z; cl_to : Z; cl_rows : list row }.   (* hints.Start / End in ms *)
Definition qstate := option lgetter.
Definition select_step (answer : Z -> Z -> list N -> list fetch_row) (st : qstate) (c : select_call) : qstate * list out_series :=
  let g0 := new_getter (cl_from c) (cl_to c) in                          (* newLabelsGetter(hints.Start, hints.End, ..) *)
  let ss := select_loop (cl_mr c) (cl_rows c) in
  let g1 := fold_left lg_plan_fp (map ps_fp ss) g0 in                    (* Plan at every series opened *)
  let g2 := lg_fetch answer g1 in
  let getl := lg_get g2 in
  (Some g2,
   isort out_lt (map (fun s => {| o_labels := getl (ps_fp s); o_fp := ps_fp s; o_samples := ps_samples s |})
                     (reshuffle getl ss))).
Fixpoint run_selects (answer : Z -> Z -> list N -> list fetch_row) (st : qstate) (cs : list select_call) : list (list out_series) :=
  match cs with
  | [] => []
  | c :: r => let '(st', out) := select_step answer st c in out :: run_selects answer st' r
  end.

(* ================= comparison / specification oracles for generated case files ================= *)
Definition str_eqb := String.eqb.
Definition samples_eqb : list sample -> list sample -> bool := list_eqb (pair_eqb Z.eqb Z.eqb).
Definition sample_lt (a b : sample) : bool := Z.ltb (fst a) (fst b) || (Z.eqb (fst a) (fst b) && Z.ltb (snd a) (snd b)).
Definition canon_samples (l : list sample) : list sample := isort sample_lt l.
Definition out_eqb (a b : out_series) : bool :=
  labels_eqb (o_labels a) (o_labels b) && N.eqb (o_fp a) (o_fp b) && samples_eqb (o_samples a) (o_samples b).
Fixpoint samples_ltb (a b : list sample) : bool :=
  match a, b with
  | _, [] => false
  | [], _ :: _ => true
  | x :: ra, y :: rb => if sample_lt x y then true else if sample_lt y x then false else samples_ltb ra rb
  end.
(* canonical form: series by (fingerprint, samples), samples by (ts, value): Go's sorts are not stable on ties *)
Definition canon_out (l : list out_series) : list out_series :=
  isort (fun a b => N.ltb (o_fp a) (o_fp b) || (N.eqb (o_fp a) (o_fp b) && samples_ltb (o_samples a) (o_samples b)))
        (map (fun o => {| o_labels := o_labels o; o_fp := o_fp o; o_samples := canon_samples (o_samples o) |}) l).

Record scase := { sc_id : Z; sc_mr : bool; sc_rows : list row; sc_fetch : list fetch_row; sc_obs : list out_series }.

Definition scase_mismatch (c : scase) : bool :=
  negb (list_eqb out_eqb (canon_out (select_series (sc_mr c) (sc_rows c) (sc_fetch c))) (canon_out (sc_obs c))).

(* ---- the specification of Select's assembly, judged on the OBSERVED series ----
   rows fingerprint-contiguous, label sets of distinct fingerprints distinct (checked by the caller's
   class): every fingerprint of the rows is returned exactly once, with exactly its rows in order
   (after MapResult), under its own sorted labels, and the series come sorted by labels. *)
Definition fps_of (rows : list row) : list N := nodup N.eq_dec (map r_fp rows).
Definition rows_of (fp : N) (rows : list row) : list sample :=
  map (fun r => (r_ts r, r_val r)) (filter (fun r => N.eqb (r_fp r) fp) rows).
Fixpoint sorted_by {A} (le : A -> A -> bool) (l : list A) : bool :=
  match l with
  | a :: ((b :: _) as r) => le a b && sorted_by le r
  | _ => true
  end.
Definition count_fp (fp : N) (obs : list out_series) : nat := List.length (filter (fun o => N.eqb (o_fp o) fp) obs).
Definition select_spec_ok (mr : bool) (rows : list row) (fetch : list fetch_row) (obs : list out_series) : bool :=
  forallb (fun fp =>
     Nat.eqb (count_fp fp obs) 1 &&
     forallb (fun o => negb (N.eqb (o_fp o) fp) ||
                       (samples_eqb (o_samples o)
                          (if mr then map_result_count (rows_of fp rows) else rows_of fp rows)
                        && labels_eqb (o_labels o) (labels_get fetch fp))) obs) (fps_of rows)
  && forallb (fun o => existsb (N.eqb (o_fp o)) (fps_of rows)) obs
  && sorted_by (fun a b => labels_less (o_labels a) (o_labels b)) obs.

(* label sets shared by several fingerprints: every label set once (strictly sorted), every fingerprint's
   label set present, no sample lost or invented *)
Definition select_dup_ok (mr : bool) (rows : list row) (fetch : list fetch_row) (obs : list out_series) : bool :=
  sorted_by (fun a b => out_lt a b) obs
  && forallb (fun fp => existsb (fun o => labels_eqb (o_labels o) (labels_get fetch fp)) obs) (fps_of rows)
  && (mr || Nat.eqb (List.length (flat_map o_samples obs)) (List.length rows)).
Definition scase_dup_violation (c : scase) : bool := negb (select_dup_ok (sc_mr c) (sc_rows c) (sc_fetch c) (sc_obs c)).

Definition scase_spec_violation (c : scase) : bool := negb (select_spec_ok (sc_mr c) (sc_rows c) (sc_fetch c) (sc_obs c)).
Definition select_mismatches (cs : list scase) : list Z := map sc_id (filter scase_mismatch cs).
Definition select_spec_violations (cs : list scase) : list Z := map sc_id (filter scase_spec_violation cs).

(* ================= the storage contract side: model.SeriesSet and Prometheus' label order ================= *)
(* model.SeriesSet: Reset() puts idx at -1; Next() { idx++; return Series != nil && idx < len(Series) } (Select always
   allocates Series); At() = Series[idx] (None = index out of range, a Go panic) *)
Record sset := { ss_series : list out_series; ss_idx : Z }.
Definition sset_new (l : list out_series) : sset := {| ss_series := l; ss_idx := -1 |}.
Definition sset_next (s : sset) : sset * bool :=
  let s' := {| ss_series := ss_series s; ss_idx := ss_idx s + 1 |} in
  (s', (ss_idx s' <? Z.of_nat (List.length (ss_series s')))%Z).
Definition sset_at (s : sset) : option out_series :=
  if ((0 <=? ss_idx s) && (ss_idx s <? Z.of_nat (List.length (ss_series s))))%Z
  then nth_error (ss_series s) (Z.to_nat (ss_idx s)) else None.
(* the engine's loop `for ss.Next() { s := ss.At() .. }` *)
Fixpoint sset_drain (fuel : nat) (s : sset) : list (option out_series) :=
  match fuel with
  | O => []
  | S f => let '(s', ok) := sset_next s in if ok then sset_at s' :: sset_drain f s' else []
  end.

(* labels.Compare of Prometheus (model/labels/labels.go): pairwise by name then value, then the shorter list first *)
Definition str_compare (a b : string) : comparison :=
  if str_ltb a b then Lt else if str_ltb b a then Gt else Eq.
Fixpoint labels_compare (a b : labels) : comparison :=
  match a, b with
  | [], [] => Eq
  | [], _ :: _ => Lt
  | _ :: _, [] => Gt
  | (n1, v1) :: ra, (n2, v2) :: rb =>
    match str_compare n1 n2 with
    | Eq => match str_compare v1 v2 with Eq => labels_compare ra rb | c => c end
    | c => c
    end
  end.
