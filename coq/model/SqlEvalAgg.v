(* C08: an evaluator for the metric statements of LogqlPlan.v - SqlEval.v (C07, TRUSTED reading of the ClickHouse
   subset of the log plans) extended with the aggregate functions and the few scalar forms the metric planners print.
   SqlEval.v is not changed: the SELECT machinery (alias binding, PREWHERE/WHERE, ANY LEFT JOIN, GROUP BY groups in order
   of first occurrence, ORDER BY, LIMIT, projection) follows SqlEval.esel_gen clause by clause (its helper functions are
   used as they are); every expression this file does not recognise goes to SqlEval.ev unchanged (so the IN (<select>)
   sub-selections of fingerprints are evaluated by SqlEval itself).

   What is added (each clause says what it reads from the ClickHouse documentation):
   * the fragments the planners print as raw text / raw identifiers are PARSED from their text, so that the meaning is a
     function of the bytes sent to ClickHouse and not of the planner model's own structure: `name(arg, ...)` calls over
     column paths and '' ; interpreted calls:
       COUNT() / count()           number of rows of the group
       sum / avg / min / max (x)   over the rows of the group (avg = sum / count); x evaluated per row
       countMerge(x)               the sum of the count states x of the group (AggregatingMergeTree roll-up)
       any(x)                      x of a row of the group (the first one; callers quantify over `tie` upstream)
       argMin(v, k) / argMax(v, k) v of the row with the least / greatest k (the first such row)
       varPop / stddevPop (x)      oracles over the list of values
       toFloat64(x)                the number x as a float (exact rational here)
       length(x)                   bytes of a string
       lengthUTF8(x)               code points of a string: the bytes that are no UTF-8 continuation byte (10xxxxxx); on
                                   well-formed UTF-8 (RFC 3629) that is the number of encoded characters (the
                                   documentation leaves ill-formed input undefined; ClickHouse's countCodePoints
                                   counts exactly these bytes)
       cityHash64(m)               oracle over a Map value
   * `a / <decimal literal>` and `intDiv(a, n) * m` (intDiv truncates toward zero),
   * toFloat64OrZero(x): the oracle `to_float` of a string,
   * mapFilter((k,v) -> k IN (...) / NOT IN (...), m),
   * quantile(p)(value): oracle over the `value` column of the group,
   * SELECT (esel_a): SqlEval.esel_gen with the alias rule made precise for aggregates: an alias is not visible inside
     its own definition, an aggregating alias has no per-row value, HAVING is evaluated on the OUTPUT row of each group.
   `None` = outside the modelled subset. Executable definitions only. *)
From Coq Require Import List ZArith NArith QArith String Ascii Bool.
From Qryn Require Import lib.Strs model.Sql model.SqlEval.
Import ListNotations.
Open Scope string_scope.

(* ---------- the text of a raw fragment as a small term ---------- *)
Inductive tx := TId (s : string) | TStr (s : string) | TCall (f : string) (args : list tx).

Definition is_name_char (c : ascii) : bool := is_lower c || is_upper c || is_digit c || Ascii.eqb c "_".
(* "name(" inner ")" with balanced inner text *)
Fixpoint take_name (s : string) (acc : string) : option (string * string) :=
  match s with
  | EmptyString => None
  | String c r => if Ascii.eqb c "(" then Some (rev_s acc "", r)
                  else if is_name_char c then take_name r (String c acc) else None
  end.
Fixpoint balanced (s : string) (depth : nat) : bool :=
  match s with
  | EmptyString => Nat.eqb depth 0
  | String c r => if Ascii.eqb c "(" then balanced r (S depth)
                  else if Ascii.eqb c ")" then match depth with O => false | S d => balanced r d end
                  else balanced r depth
  end.
Definition split_call (s : string) : option (string * string) :=
  match take_name s "" with
  | Some (name, rest) =>
    match rev_s rest "" with
    | String c inner_rev =>
      let inner := rev_s inner_rev "" in
      if Ascii.eqb c ")" && negb (String.eqb name "") && balanced inner 0 then Some (name, inner) else None
    | EmptyString => None
    end
  | None => None
  end.
(* arguments: split at "," (optionally followed by one space) outside parentheses *)
Fixpoint split_top (s : string) (depth : nat) (cur : string) (acc : list string) : list string :=
  match s with
  | EmptyString => rev (rev_s cur "" :: acc)
  | String c r =>
    if Ascii.eqb c "," && Nat.eqb depth 0 then
      match r with
      | String d r' => if Ascii.eqb d " " then split_top r' 0 "" (rev_s cur "" :: acc)
                       else split_top r 0 "" (rev_s cur "" :: acc)
      | EmptyString => split_top r 0 "" (rev_s cur "" :: acc)
      end
    else split_top r (if Ascii.eqb c "(" then S depth else if Ascii.eqb c ")" then pred depth else depth) (String c cur) acc
  end.
Fixpoint parse_tx (fuel : nat) (s : string) : tx :=
  match fuel with
  | O => TId s
  | S f =>
    if String.eqb s "''" then TStr "" else
    match split_call s with
    | Some (name, inner) => TCall name (if String.eqb inner "" then [] else map (parse_tx f) (split_top inner 0 "" []))
    | None => TId s
    end
  end.

(* a decimal literal: digits [ '.' digits ], exact *)
Fixpoint digits_z (s : string) (acc : Z) : option Z :=
  match s with
  | EmptyString => Some acc
  | String c r => if is_digit c then digits_z r (acc * 10 + (Z.of_N (N_of_ascii c) - 48))%Z else None
  end.
Fixpoint split_dot_s (s : string) (acc : string) : string * option string :=
  match s with
  | EmptyString => (rev_s acc "", None)
  | String c r => if Ascii.eqb c "." then (rev_s acc "", Some r) else split_dot_s r (String c acc)
  end.
Definition dec_q (s : string) : option Q :=
  let '(neg, body) := match s with String c r => if Ascii.eqb c "-" then (true, r) else (false, s) | EmptyString => (false, s) end in
  let '(i, f) := split_dot_s body "" in
  if String.eqb i "" then None else
  match digits_z i 0, (match f with Some t => if String.eqb t "" then None else digits_z t 0 | None => Some 0%Z end) with
  | Some iz, Some fz =>
    let scale := Z.to_pos (10 ^ Z.of_nat (match f with Some t => String.length t | None => 0 end))%Z in
    let q := Qred (Qplus (inject_Z iz) (fz # scale)) in
    Some (if neg then Qopp q else q)
  | _, _ => None
  end.

Definition qsum_q (l : list Q) : Q := Qred (fold_right Qplus 0%Q l).
Definition qmin_q (l : list Q) : option Q :=
  match l with [] => None | x :: r => Some (fold_left (fun a b => if Qle_bool a b then a else b) r x) end.
Definition qmax_q (l : list Q) : option Q :=
  match l with [] => None | x :: r => Some (fold_left (fun a b => if Qle_bool a b then b else a) r x) end.
Definition qcount {A} (l : list A) : Q := inject_Z (Z.of_nat (List.length l)).
Definition vnum (q : Q) : value := VNum (Qred q).

(* lengthUTF8: every byte outside 0x80..0xBF starts a code point *)
Definition is_utf8_cont (c : ascii) : bool := let n := nat_of_ascii c in Nat.leb 128 n && Nat.ltb n 192.
Fixpoint utf8_points (s : string) : nat :=
  match s with
  | EmptyString => O
  | String c r => if is_utf8_cont c then utf8_points r else S (utf8_points r)
  end.

Section AGG.
  Variable re_match : string -> string -> bool.
  Variable parse_float : string -> option Q.
  Variable json_get : string -> list string -> string.
  Variable hash_labels : list (string * string) -> Z.
  Variable tie : forall A : Type, list A -> list A.
  Variable db : database.
  (* added oracles *)
  Variable hash_map : list (string * string) -> Z.          (* cityHash64(<Map>) *)
  Variable to_float : string -> Q.                           (* toFloat64OrZero *)
  Variable quantile_o : string -> list Q -> Q.               (* quantile(<printed p>)(...) *)
  Variable varpop stddevpop : list Q -> Q.

  Notation BASE := (SqlEval.ev re_match parse_float json_get hash_labels tie db).

  (* the key of the least / greatest row, first occurrence *)
  Definition arg_pick (greatest : bool) (kvs : list (Z * value)) : option value :=
    match kvs with
    | [] => None
    | x :: r => Some (snd (fold_left (fun best y => if (if greatest then Z.ltb (fst best) (fst y) else Z.ltb (fst y) (fst best)) then y else best) r x))
    end.

  (* agg = false: the expression is evaluated for ONE source row (an alias binding, WHERE, a GROUP BY key, ON); an
     aggregate function has no value there *)
  Fixpoint ev_tx (agg : bool) (t : tx) (g : list row) {struct t} : option value :=
    match t with
    | TStr s => Some (VStr s)
    | TId s => match g with r :: _ => lookup s r | [] => None end
    | TCall f args =>
      match args with
      | [] => if agg && (String.eqb f "COUNT" || String.eqb f "count") then Some (VInt (Z.of_nat (List.length g))) else None
      | [a] =>
        if String.eqb f "any" then (if agg then match g with r :: _ => ev_tx false a [r] | [] => None end else None)
        else if String.eqb f "toFloat64" then match ev_tx agg a g with Some v => option_map vnum (num_of v) | None => None end
        else if String.eqb f "length" then match ev_tx agg a g with Some (VStr s) => Some (VInt (Z.of_nat (String.length s))) | _ => None end
        else if String.eqb f "lengthUTF8" then match ev_tx agg a g with Some (VStr s) => Some (VInt (Z.of_nat (utf8_points s))) | _ => None end
        else if String.eqb f "cityHash64" then match ev_tx agg a g with Some (VMap m) => Some (VInt (hash_map m)) | _ => None end
        else if negb agg then None else
          match map_opt (fun r => match ev_tx false a [r] with Some v => num_of v | None => None end) g with
          | None => None
          | Some qs =>
            if String.eqb f "sum" || String.eqb f "countMerge" then Some (vnum (qsum_q qs))
            else if String.eqb f "avg" then match qs with [] => None | _ => Some (vnum (Qdiv (qsum_q qs) (qcount qs))) end
            else if String.eqb f "min" then option_map vnum (qmin_q qs)
            else if String.eqb f "max" then option_map vnum (qmax_q qs)
            else if String.eqb f "varPop" then Some (vnum (varpop qs))
            else if String.eqb f "stddevPop" then Some (vnum (stddevpop qs))
            else None
          end
      | [a; b] =>
        if agg && (String.eqb f "argMin" || String.eqb f "argMax") then
          match map_opt (fun r => match ev_tx false b [r], ev_tx false a [r] with Some (VInt k), Some v => Some (k, v) | _, _ => None end) g with
          | Some kvs => arg_pick (String.eqb f "argMax") kvs
          | None => None
          end
        else None
      | _ => None
      end
    end.

  Definition is_agg_name (f : string) : bool :=
    existsb (String.eqb f) ["COUNT"; "count"; "any"; "sum"; "countMerge"; "avg"; "min"; "max"; "varPop"; "stddevPop"; "argMin"; "argMax"].
  Fixpoint has_agg (t : tx) : bool :=
    match t with TCall f args => is_agg_name f || existsb has_agg args | _ => false end.

  Definition ev_text (agg : bool) (s : string) (g : list row) (fallback : option value) : option value :=
    match parse_tx 6 s with
    | TId _ => fallback
    | t => match ev_tx agg t g with
           | Some v => Some v
           | None => if has_agg t then None else fallback     (* e.g. the labels-map fragment SqlEval reads whole *)
           end
    end.

  Definition in_names (k : string) (names : list string) : bool := existsb (String.eqb k) names.

  Fixpoint eva (agg : bool) (e : expr) (g : list row) {struct e} : option value :=
    match e with
    | Raw s => ev_text agg s g (BASE e g)
    | Id s => ev_text agg s g (BASE e g)
    | Sep sep parts =>
      match parts with
      | [a; FloatV t] =>
        (* <aggregate> / <seconds of the range> *)
        if String.eqb sep " / " then
          match eva agg a g, dec_q t with
          | Some v, Some dv => match num_of v with
                               | Some x => if Qeq_bool dv 0 then None else Some (vnum (Qdiv x dv))
                               | None => None end
          | _, _ => None end
        else BASE e g
      | [Fn f [a; IntV n]; IntV m] =>
        (* intDiv(ts, n) * m *)
        if String.eqb sep " * " && String.eqb f "intDiv" then
          match eva agg a g with
          | Some (VInt x) => if Z.eqb n 0 then None else Some (VInt (Z.quot x n * m))
          | _ => None end
        else BASE e g
      | [a; IntV n] =>
        (* the same with a divisor of whole seconds, as a statement read back from its text has it (`/ 30`): the operator /
           of ClickHouse is a floating-point division whatever the operand types *)
        if String.eqb sep " / " then
          match eva agg a g with
          | Some v => match num_of v with
                      | Some x => if Z.eqb n 0 then None else Some (vnum (Qdiv x (inject_Z n)))
                      | None => None end
          | None => None end
        else BASE e g
      | [Raw t1; Raw op; Raw t3; Sep s2 ls; Raw t4; col; Raw t5] =>
        (* byWithoutFilterCol: mapFilter((k,v) -> k IN ('a','b'), col) *)
        if String.eqb sep "" && String.eqb t1 "mapFilter((k,v) -> k " && String.eqb t3 " (" && String.eqb s2 "," && String.eqb t4 "), "
           && String.eqb t5 ")" && (String.eqb op "IN" || String.eqb op "NOT IN") then
          match str_lits ls, eva agg col g with
          | Some names, Some (VMap m) =>
            Some (VMap (filter (fun kv => if String.eqb op "IN" then in_names (fst kv) names else negb (in_names (fst kv) names)) m))
          | _, _ => None end
        else BASE e g
      | [Raw t1; FloatV p; Raw t3] =>
        (* quantile(p)(value) *)
        if String.eqb sep "" && String.eqb t1 "quantile(" && String.eqb t3 ")(value)" then
          if negb agg then None else
          match map_opt (fun r => match lookup "value" r with Some v => num_of v | None => None end) g with
          | Some qs => Some (vnum (quantile_o p qs))
          | None => None end
        else BASE e g
      | [Raw t1; col; Raw t3] =>
        (* byWithoutFilterCol for by (): mapFilter((k,v) -> 0, col) keeps no pair (a constant 1 keeps every pair) *)
        if String.eqb sep "" && String.eqb t1 "mapFilter((k,v) -> 0, " && String.eqb t3 ")" then
          match eva agg col g with Some (VMap _) => Some (VMap []) | _ => None end
        else if String.eqb sep "" && String.eqb t1 "mapFilter((k,v) -> 1, " && String.eqb t3 ")" then
          match eva agg col g with Some (VMap m) => Some (VMap m) | _ => None end
        else BASE e g
      | _ => BASE e g
      end
    | Fn name args =>
      match args with
      | [a] => if String.eqb name "toFloat64OrZero" then
                 match eva agg a g with Some (VStr s) => Some (vnum (to_float s)) | _ => None end
               else BASE e g
      | _ => BASE e g
      end
    | _ => BASE e g
    end.

  (* ---------- SELECT: SqlEval.esel_gen with ClickHouse's alias rule made precise for aggregates ----------
     An alias of the select list is a substitution: it is visible in WHERE / GROUP BY / ORDER BY / the other select
     expressions and wins over a source column of that name, EXCEPT inside its own definition, where the name is the
     source column (`quantile(0.9)(value) as value`, `mapFilter(.., labels) as labels`). An alias whose expression
     aggregates has no per-row value; HAVING sees the output row. Rows are kept as (alias bindings, source row). *)
  Section SELA.
    Variable etab : expr -> option table.
    Definition drop_key (a : string) (b : row) : row := filter (fun kv => negb (String.eqb (fst kv) a)) b.
    Definition binds_of (cols : list expr) (b0 r : row) : row :=
      flat_map (fun c => match c with
                         | Col x a => if String.eqb a "" then []
                                      else match eva false x [(drop_key a b0 ++ r)%list] with Some v => [(a, v)] | None => [] end
                         | _ => [] end) cols.
    Definition brow (cols : list expr) (r : row) : row * row := (binds_of cols (binds_of cols [] r) r, r).
    Definition full (br : row * row) : row := (fst br ++ snd br)%list.
    Definition cond1 (c : option expr) (br : row * row) : option bool :=
      match c with None => Some true | Some e => truthy (eva false e [full br]) end.
    (* ARRAY JOIN <alias0>.slice as <alias>: the rows of the select that builds `slice` are already one per array element here
       (topk_rows below); the join gives the element's components the names <alias>.1, <alias>.2, ... *)
    Fixpoint strip_prefix (p s : string) : option string :=
      match p with
      | EmptyString => Some s
      | String c p' => match s with String d s' => if Ascii.eqb c d then strip_prefix p' s' else None | EmptyString => None end
      end.
    Definition array_join_row (src alias : string) (l : row) : row :=
      (l ++ flat_map (fun kv => match strip_prefix (src ++ ".") (fst kv) with
                                | Some suffix => [((alias ++ "." ++ suffix)%string, snd kv)]
                                | None => [] end) l)%list.
    Definition join1a (left : option table) (j : string * expr * option expr) : option table :=
      match left, j with
      | Some lt, (tp, Col (Id src) alias, None) =>
        if String.eqb tp "array" then
          (* only over a source whose elements were laid out by topk_rows *)
          if forallb (fun l => match lookup (src ++ ".1") l with Some _ => true | None => false end) lt
          then Some (map (array_join_row src alias) lt) else None
        else None
      | Some lt, (tp, tbl, Some on) =>
        if String.eqb tp "ANY LEFT " || String.eqb tp "GLOBAL ANY LEFT " then
          match etab tbl with
          | Some rt =>
            map_opt (fun l => match find_opt (fun r => truthy (eva false on [(l ++ r)%list])) (tie _ rt) with
                              | Some (Some r) => Some (l ++ r)%list
                              | Some None => Some (l ++ map (fun n => (n, VNull)) (join_names tbl))%list
                              | None => None end) lt
          | None => None end
        else None
      | _, _ => None
      end.
    Definition group_a (keys : list expr) (rows : list (row * row)) : option (list (list (row * row))) :=
      match map_opt (fun br => match map_opt (fun k => eva false k [full br]) keys with
                               | Some ks => Some (ks, br) | None => None end) rows with
      | Some krs => Some (map (fun k => map snd (filter (fun kr => values_eqb (fst kr) k) krs)) (nodup_keys (map fst krs)))
      | None => None
      end.
    Definition order_a (ords : list expr) (gs : list (list (row * row))) : option (list (list (row * row))) :=
      match ords with
      | [] => Some gs
      | _ =>
        let dirs := map (fun o => match o with Ord _ asc => asc | _ => true end) ords in
        match map_opt (fun g => match map_opt (fun o => match o with Ord e _ => eva true e (map full g) | _ => None end) ords with
                                | Some ks => if all_int ks then Some (ks, g) else None
                                | None => None end) (tie _ gs) with
        | Some kgs => Some (map snd (isort (fun a b => keys_leb dirs (fst a) (fst b)) kgs))
        | None => None
        end
      end.
    Definition project_a (cols : list expr) (g : list (row * row)) : option row :=
      map_opt (fun c => match eva true (col_body c) (map (fun br => (drop_key (col_name c) (fst br) ++ snd br)%list) g) with
                        | Some v => Some (col_name c, v) | None => None end) cols.

    (* TopKPlanner's first select:
         SELECT par_a.timestamp_ns as timestamp_ns,
                arraySlice(arraySort([x -> (-x.1, x.2[, x.3]),] groupArray((par_a.value, par_a.fingerprint[, par_a.labels]))), 1, k) as slice
         FROM par_a GROUP BY timestamp_ns
       read together with the ARRAY JOIN that consumes it: per timestamp the tuples (value, fingerprint[, labels]) of the group,
       sorted ascending by the key (bottomk: the tuple itself; topk: (-value, fingerprint[, labels])), the first k of them, ONE ROW
       PER KEPT TUPLE with the components in slice.1, slice.2, slice.3. Fingerprints are distinct within a timestamp (one row per
       series), so the third component never decides; equal (value, fingerprint) pairs keep their order after `tie`. *)
    Definition topk_shape (e : expr) : option (Z * bool * bool) :=
      match e with
      | Sep sep [Raw t1; Raw lam; Raw t2; Raw lab; Raw t3; IntV k; Raw t4] =>
        if String.eqb sep "" && String.eqb t1 "arraySlice(arraySort(" && String.eqb t2 "groupArray((par_a.value, par_a.fingerprint"
           && String.eqb t3 "))), 1, " && String.eqb t4 ")" then
          let hl := String.eqb lab ", par_a.labels" in
          if negb hl && negb (String.eqb lab "") then None else
          (* the direction is what the TEXT says: no lambda or the key (x.1, ..) = ascending values, the key (-x.1, ..) = descending *)
          if String.eqb lam "" then Some (k, false, hl)
          else if String.eqb lam ("x -> (-x.1, x.2" ++ (if hl then ", x.3" else "") ++ "),") then Some (k, true, hl)
          else if String.eqb lam ("x -> (x.1, x.2" ++ (if hl then ", x.3" else "") ++ "),") then Some (k, false, hl)
          else None
        else None
      | _ => None
      end.
    Definition tk_leb (top : bool) (a b : Q * Z * row) : bool :=
      let va := if top then Qopp (fst (fst a)) else fst (fst a) in
      let vb := if top then Qopp (fst (fst b)) else fst (fst b) in
      match Qcompare va vb with
      | Datatypes.Lt => true
      | Datatypes.Gt => false
      | Datatypes.Eq => Z.leb (snd (fst a)) (snd (fst b))
      end.
    Definition topk_rows (q : select) : option (option table) :=      (* None = not that select *)
      match s_cols q, s_groupby q, s_from q with
      | [Col tsx tsa; Col sl sla], [Id gk], Some f =>
        match topk_shape sl with
        | Some (k, top, hl) =>
          if String.eqb tsa "timestamp_ns" && String.eqb sla "slice" && String.eqb gk "timestamp_ns"
             && match s_where q, s_prewhere q, s_having q, s_orderby q, s_limit q, s_offset q, s_joins q, s_unions q with
                | None, None, None, [], None, None, [], [] => negb (s_distinct q) | _, _, _, _, _, _, _, _ => false end then
            Some (match etab f with
                  | None => None
                  | Some rows =>
                    match map_opt (fun r => match eva false tsx [r], lookup "par_a.value" r, lookup "par_a.fingerprint" r with
                                            | Some ts, Some v, Some (VInt fp) =>
                                              match num_of v with
                                              | Some x => Some (ts, (x, fp, ((("slice.1", v) :: ("slice.2", VInt fp) ::
                                                                  (if hl then match lookup "par_a.labels" r with Some m => [("slice.3", m)] | None => [] end
                                                                   else []))%list)))
                                              | None => None end
                                            | _, _, _ => None end) (tie _ rows) with
                    | None => None
                    | Some trs =>
                      let keys := nodup_keys (map (fun x => [fst x]) trs) in
                      Some (flat_map (fun key =>
                              let g := map snd (filter (fun x => values_eqb [fst x] key) trs) in
                              map (fun e => (("timestamp_ns", match key with t :: _ => t | [] => VNull end) :: snd e)%list)
                                  (firstn (Z.to_nat k) (isort (tk_leb top) g))) keys)
                    end
                  end)
          else None
        | None => None
        end
      | _, _, _ => None
      end.

    Definition esel_a (q : select) : option table :=
      match topk_rows q with Some res => res | None =>
      if s_distinct q then None else
      match s_offset q, s_unions q with
      | None, [] =>
        let src := match s_from q with None => Some [[]] | Some f => etab f end in
        match fold_left join1a (s_joins q) src with
        | None => None
        | Some rows00 =>
          let rows0 := map (brow (s_cols q)) rows00 in
          match filter_opt (fun br => match cond1 (s_prewhere q) br, cond1 (s_where q) br with
                                      | Some a, Some b => Some (a && b) | _, _ => None end) rows0 with
          | None => None
          | Some rows1 =>
            let groups :=
              match s_groupby q with
              | [] => match s_having q with None => Some (map (fun r => [r]) rows1) | Some _ => None end
              | keys => group_a keys rows1
              end in
            match groups with
            | None => None
            | Some gs =>
              (* HAVING: on the output row of the group *)
              let kept := match s_having q with
                          | None => Some gs
                          | Some h => filter_opt (fun g => match project_a (s_cols q) g with
                                                           | Some out => truthy (eva false h [out])
                                                           | None => None end) gs
                          end in
              match kept with
              | None => None
              | Some gs1 =>
                match order_a (s_orderby q) gs1 with
                | None => None
                | Some sorted =>
                  let limited := match s_limit q with
                                 | None => Some sorted
                                 | Some (IntV n) =>
                                   Some (firstn (Z.to_nat n) (match s_orderby q with [] => tie _ sorted | _ => sorted end))
                                 | Some _ => None end in
                  match limited with
                  | None => None
                  | Some out => map_opt (project_a (s_cols q)) out
                  end
                end
              end
            end
          end
        end
      | _, _ => None
      end
      end.
  End SELA.

  Fixpoint etaba (fuel : nat) (e : expr) {struct fuel} : option table :=
    match fuel with
    | O => None
    | S f =>
      match e with
      | Id name => option_map (qualify name) (db name)
      | WRef a q => option_map (qualify a) (esel_a (etaba f) q)
      | Col x a =>
        match x with
        | Id name => option_map (qualify a) (db name)
        | WRef _ q => option_map (qualify a) (esel_a (etaba f) q)
        | _ => None
        end
      | _ => None
      end
    end.

  (* the statement the reader sends; fuel = nesting depth of FROM / JOIN operands *)
  Definition eval_agg (q : select) : option table := esel_a (etaba 64) q.
End AGG.
