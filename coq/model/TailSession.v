(* C12 -- one live-tail session (GET /loki/api/v1/tail over a websocket) as a small transition system.

   Transcribed from reader/controller/queryRangeController.go (Tail: the handler's for/select loop over
   watchCtx.Done, the ping ticker and watcher.GetRes(); its deferred calls: con.Close, watcher.Close, the drainer
   goroutine `for range watcher.GetRes() {}`, cancel) and reader/service/queryRangeService.go (Tail: the goroutine that
   at every tick of its one-second ticker asks for the version info, looks at res.Done(), runs the query -- one tick's
   pipeline is model/ReadPath.v's tail chain, theorem tail_tick_pipeline_terminates -- and SENDS the encoded answer, or an
   error message followed by return, on the unbuffered channel res; deferred: ticker.Stop, close(res), cancel).

   fixed = true is the handler since 5d78c0a: `case str, ok := <-watcher.GetRes(): if !ok { return }`. Before, a receive
   from the closed channel (the tail goroutine ended: database error) delivered the zero value at once, again and again. *)
From Coq Require Import List Bool Arith.
Import ListNotations.

Inductive tstate := TIdle       (* waiting for the next tick *)
                  | TSendRes    (* blocked in res <- answer; goes on with the next tick *)
                  | TSendErr    (* blocked in res <- error message (onErr); returns afterwards *)
                  | TDone.      (* returned: res is closed *)
Inductive hstate := HLoop | HDone.            (* HDone: returned; watcher closed, drainer started, context cancelled *)
Inductive dstate := DNone | DRun | DDone.     (* the deferred drainer goroutine *)

Record state := mkS { s_t : tstate; s_h : hstate; s_d : dstate; s_closed : bool (* watcher.Close() was called *);
                      s_gone : bool (* the client went away: every write fails, the close handler cancels *) }.

Definition init : state := mkS TIdle HLoop DNone false false.

(* timed = the step waits for a ticker (the tail goroutine's tick, the handler's ping); the others are immediate *)
Inductive label := LTick | LPing | LRecvH | LRecvClosedH | LCtxDone | LRecvD | LClosedD | LClientGone.
Definition timed (l : label) : bool := match l with LTick | LPing => true | _ => false end.

Definition h_returns (s : state) (t' : tstate) : state := mkS t' HDone DRun true (s_gone s).

Definition next (fixed : bool) (s : state) : list (label * state) :=
  (* the tail goroutine's tick: database error / watcher closed -> return; error entry -> send the error; else send the answer *)
  (match s_t s with
   | TIdle => if s_closed s then [(LTick, mkS TDone (s_h s) (s_d s) (s_closed s) (s_gone s))]
              else [(LTick, mkS TDone (s_h s) (s_d s) (s_closed s) (s_gone s));
                    (LTick, mkS TSendErr (s_h s) (s_d s) (s_closed s) (s_gone s));
                    (LTick, mkS TSendRes (s_h s) (s_d s) (s_closed s) (s_gone s))]
   | _ => []
   end) ++
  (* the handler *)
  (match s_h s with
   | HLoop =>
     (* ping: the write fails once the client is gone *)
     (if s_gone s then [(LPing, h_returns s (s_t s)); (LCtxDone, h_returns s (s_t s))] else [(LPing, s)]) ++
     (match s_t s with
      | TSendRes => [(LRecvH, if s_gone s then h_returns s TIdle else mkS TIdle HLoop (s_d s) (s_closed s) (s_gone s))]
      | TSendErr => [(LRecvH, if s_gone s then h_returns s TDone else mkS TDone HLoop (s_d s) (s_closed s) (s_gone s))]
      | TDone => if fixed then [(LRecvClosedH, h_returns s TDone)]
                 else [(LRecvClosedH, if s_gone s then h_returns s TDone else s)]      (* writes the zero value: an empty message *)
      | TIdle => []
      end)
   | HDone => []
   end) ++
  (* the drainer *)
  (match s_d s with
   | DRun => match s_t s with
             | TSendRes => [(LRecvD, mkS TIdle (s_h s) DRun (s_closed s) (s_gone s))]
             | TSendErr => [(LRecvD, mkS TDone (s_h s) DRun (s_closed s) (s_gone s))]
             | TDone => [(LClosedD, mkS TDone (s_h s) DDone (s_closed s) (s_gone s))]
             | TIdle => []
             end
   | _ => []
   end) ++
  (* the environment: the client goes away, once *)
  (if s_gone s then [] else [(LClientGone, mkS (s_t s) (s_h s) (s_d s) (s_closed s) true)]).

Definition step (fixed : bool) (s s' : state) : Prop := In s' (map snd (next fixed s)).
(* an immediate step: no ticker involved, the client does nothing *)
Definition istep (fixed : bool) (s s' : state) : Prop :=
  In s' (map snd (filter (fun p => negb (timed (fst p)) && match fst p with LClientGone => false | _ => true end) (next fixed s))).

Definition all_done (s : state) : bool :=
  match s_t s, s_h s, s_d s with TDone, HDone, DDone => true | _, _, _ => false end.

(* the tail goroutine is blocked in a send and nobody will ever receive *)
Definition send_stuck (s : state) : bool :=
  match s_t s with
  | TSendRes | TSendErr => match s_h s, s_d s with HLoop, _ => false | HDone, DRun => false | _, _ => true end
  | _ => false
  end.

Definition inv (s : state) : bool :=
  match s_h s with
  | HLoop => match s_d s with DNone => negb (s_closed s) | _ => false end
  | HDone => s_closed s && match s_d s with DNone => false | DRun => true | DDone => match s_t s with TDone => true | _ => false end end
  end.

(* winding down: the client is gone, or the tail goroutine has ended *)
Definition winding (s : state) : bool := s_gone s || match s_t s with TDone => true | _ => false end.

Definition measure (s : state) : nat :=
  (match s_h s with HLoop => 100 | HDone => 0 end) +
  (match s_d s with DNone => 20 | DRun => 10 | DDone => 0 end) +
  (match s_h s, s_t s with
   | HLoop, TIdle => 3 | HLoop, TSendRes => 2 | HLoop, TSendErr => 2 | HLoop, TDone => 0
   | HDone, TSendRes => 3 | HDone, TIdle => 2 | HDone, TSendErr => 1 | HDone, TDone => 0
   end) + (if s_gone s then 0 else 200).

(* immediate steps only: how many can still follow *)
Definition imeasure (s : state) : nat :=
  (match s_h s with HLoop => 10 | HDone => 0 end) + (match s_d s with DNone => 4 | DRun => 2 | DDone => 0 end) +
  (match s_t s with TSendRes => 1 | TSendErr => 1 | _ => 0 end).

Definition all_states : list state :=
  flat_map (fun t => flat_map (fun h => flat_map (fun d => flat_map (fun c => map (fun g => mkS t h d c g) [false; true])
    [false; true]) [DNone; DRun; DDone]) [HLoop; HDone]) [TIdle; TSendRes; TSendErr; TDone].

Definition succs (fixed : bool) (s : state) : list state := map snd (next fixed s).
Definition isuccs (fixed : bool) (s : state) : list state :=
  map snd (filter (fun p => negb (timed (fst p)) && match fst p with LClientGone => false | _ => true end) (next fixed s)).

(* time does not pass while an immediate step is enabled (a ready channel operation is taken before the next tick: Go's
   select picks among the READY cases): the steps of the session under this urgency rule *)
Definition env_succs (s : state) : list state := if s_gone s then [] else [mkS (s_t s) (s_h s) (s_d s) (s_closed s) true].
Definition usuccs (fixed : bool) (s : state) : list state :=
  match isuccs fixed s with [] => succs fixed s | i => i ++ env_succs s end.
Definition ustep (fixed : bool) (s s' : state) : Prop := In s' (usuccs fixed s).

(* the checks the proofs lift from all_states to every state *)
Definition inv_preserved (fixed : bool) : bool :=
  forallb (fun s => implb (inv s) (forallb inv (succs fixed s))) all_states.
Definition never_stuck : bool := forallb (fun s => implb (inv s) (negb (send_stuck s))) all_states.
Definition winding_decreases (fixed : bool) : bool :=
  forallb (fun s => implb (inv s && winding s)
     (forallb (fun s' => winding s' && Nat.ltb (measure s') (measure s)) (usuccs fixed s) &&
      (match usuccs fixed s with [] => all_done s | _ => true end))) all_states.
Definition uinv_preserved (fixed : bool) : bool :=
  forallb (fun s => implb (inv s) (forallb inv (usuccs fixed s))) all_states.
Definition immediate_decreases (fixed : bool) : bool :=
  forallb (fun s => implb (inv s) (forallb (fun s' => Nat.ltb (imeasure s') (imeasure s)) (isuccs fixed s))) all_states.
