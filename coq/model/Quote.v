(* C10 — model of reader/utils/sql_select/objects.go StringVal.String:
   eight sequential strings.Replace calls over the escape table, then a quote on each side.
   Executable definitions only.  Bytes are Coq strings. *)
From Coq Require Import List String Ascii Bool.
Import ListNotations.
Open Scope string_scope.

(* ---- strings.Replace(s, old, new, -1) for a non-empty old: leftmost, non-overlapping.
   [skip] counts the bytes of an occurrence that is being stepped over. *)
Fixpoint repl (old new : string) (skip : nat) (s : string) : string :=
  match s with
  | EmptyString => EmptyString
  | String x r =>
      match skip with
      | S k => repl old new k r
      | O => if prefix old s then new ++ repl old new (String.length old - 1) r
             else String x (repl old new O r)
      end
  end.

(* Go inserts [new] between all runes when old is empty; qryn never does that, the
   model leaves the string alone (and the table check in props/C10.v rejects such a table). *)
Definition replace_all (old new s : string) : string :=
  match old with EmptyString => s | _ => repl old new O s end.

(* the loop `for i, v := range find { res = strings.Replace(res, v, replace[i], -1) }` *)
Definition esc_seq (tbl : list (string * string)) (s : string) : string :=
  fold_left (fun acc p => replace_all (fst p) (snd p) acc) tbl s.

(* the table of StringVal.String, in source order (regenerated from the source as
   GenSqlSites.gen_escape_table; props/C10.v proves the two equal) *)
Definition bs : string := String "\" EmptyString.
Definition ch (n : nat) : string := String (ascii_of_nat n) EmptyString.
Definition escape_table : list (string * string) :=
  [ (bs, bs ++ bs);
    (ch 0, bs ++ "0");
    (ch 10, bs ++ "n");
    (ch 13, bs ++ "r");
    (ch 8, bs ++ "b");
    (ch 9, bs ++ "t");
    (ch 26, bs ++ "x1a");
    ("'", bs ++ "'") ].

(* the same function as a per-byte map (QuoteProofs.esc_seq_is_esc) *)
Definition esc_char (c : ascii) : string :=
  if Ascii.eqb c "\" then "\\"
  else if Ascii.eqb c "000" then "\0"
  else if Ascii.eqb c "010" then "\n"
  else if Ascii.eqb c "013" then "\r"
  else if Ascii.eqb c "008" then "\b"
  else if Ascii.eqb c "009" then "\t"
  else if Ascii.eqb c "026" then "\x1a"
  else if Ascii.eqb c "'" then "\'"
  else String c EmptyString.

Fixpoint esc (s : string) : string :=
  match s with EmptyString => EmptyString | String c r => esc_char c ++ esc r end.

(* StringVal.String *)
Definition quote_seq (s : string) : string := "'" ++ esc_seq escape_table s ++ "'".
Definition quote (s : string) : string := "'" ++ esc s ++ "'".
