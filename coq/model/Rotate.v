(* Model of ctrl/qryn/maintenance/rotate.go: Rotate, rotateTables, storagePolicyUpdate, forgetSetting,
   getSetting/putSetting, the TTL expression builder, and of heputils.FingerprintLabelsDJBHashPrometheus
   (the settings key).  Executable definitions only; proofs are in proofs/RotateProofs.v.

   The database is what Rotate can observe and change: per data table the TTL expression and the storage
   policy last set by an ALTER, and the `settings` table as a map fingerprint -> latest value ("" = no row:
   getSetting returns "" when the query yields nothing).  A connection fault makes the k-th call of a run
   return an error (with or without the statement having taken effect); every error ends the run. *)
From Coq Require Import List ZArith Bool String Ascii DecimalString.
Import ListNotations.
Open Scope string_scope.
Open Scope Z_scope.

(* ------------------------------------------------------------------ tables and groups *)
Inductive table := TimeSeries | TimeSeriesGin | SamplesV3 | TempoTraces | TempoAttrsGin | TempoKv | Metrics15s.
Scheme Equality for table.

Definition all_tables : list table :=
  [TimeSeries; TimeSeriesGin; SamplesV3; TempoTraces; TempoAttrsGin; TempoKv; Metrics15s].

Definition table_name (t : table) : string :=
  match t with
  | TimeSeries => "time_series" | TimeSeriesGin => "time_series_gin" | SamplesV3 => "samples_v3"
  | TempoTraces => "tempo_traces" | TempoAttrsGin => "tempo_traces_attrs_gin" | TempoKv => "tempo_traces_kv"
  | Metrics15s => "metrics_15s"
  end.

(* the eight calls of Rotate, in its order: three storagePolicyUpdate, five rotateTables *)
Inductive group := SpV3 | SpTraces | SpMetrics | TtlSamples | TtlTimeSeries | TtlTraces | TtlAttrs | TtlMetrics.

Scheme Equality for group.

Definition groups : list group :=
  [SpV3; SpTraces; SpMetrics; TtlSamples; TtlTimeSeries; TtlTraces; TtlAttrs; TtlMetrics].

Definition is_sp (g : group) : bool :=
  match g with SpV3 | SpTraces | SpMetrics => true | _ => false end.

Definition tables_of (g : group) : list table :=
  match g with
  | SpV3 => [TimeSeries; TimeSeriesGin; SamplesV3]
  | SpTraces => [TempoTraces; TempoAttrsGin; TempoKv]
  | SpMetrics => [Metrics15s]
  | TtlSamples => [SamplesV3]
  | TtlTimeSeries => [TimeSeries; TimeSeriesGin]
  | TtlTraces => [TempoTraces]
  | TtlAttrs => [TempoAttrsGin; TempoKv]
  | TtlMetrics => [Metrics15s]
  end.

Definition setting_name (g : group) : string :=
  match g with
  | SpV3 => "v3_storage_policy"
  | SpTraces => "v1_traces_storage_policy"
  | SpMetrics => "metrics_15s_storage_policy"
  | TtlSamples => "v3_samples_days"
  | TtlTimeSeries => "v3_time_series_days"
  | TtlTraces => "v1_traces_days"
  | TtlAttrs => "tempo_attrs_v1"
  | TtlMetrics => "metrics_15s"
  end.

(* minTTL (one minute) / dayTTL of the rotateTables calls, in seconds: int32(minTTL.Seconds()) *)
Definition g_min (g : group) : Z :=
  match g with TtlTimeSeries | TtlAttrs => 86400 | _ => 60 end.

(* the minimum the property demands per table: one minute for sample tables, one day for index tables *)
Definition table_min (t : table) : Z :=
  match t with
  | SamplesV3 | TempoTraces | Metrics15s => 60
  | TimeSeries | TimeSeriesGin | TempoAttrsGin | TempoKv => 86400
  end.

Inductive col := CTs | CDate.
Definition col_text (c : col) : string :=
  match c with CTs => "toDateTime(timestamp_ns / 1000000000)" | CDate => "date" end.
Definition g_col (g : group) : col :=
  match g with TtlTimeSeries | TtlAttrs => CDate | _ => CTs end.

(* ------------------------------------------------------------------ settings key *)
(* func FingerprintLabelsDJBHashPrometheus: var hash int32 = 5381; for i := len-1 .. 0 { hash = (hash*33) ^ int32(uint16(data[i])) };
   return uint32(hash).  Computed on the unsigned 32-bit representation. *)
Definition djb_step (b : ascii) (h : Z) : Z := Z.lxor ((h * 33) mod 4294967296) (Z.of_N (N_of_ascii b)).
Fixpoint djb_fold (s : string) (h0 : Z) : Z :=
  match s with EmptyString => h0 | String c r => djb_step c (djb_fold r h0) end.
Definition djb (s : string) : Z := djb_fold s 5381.

Definition dq : string := String (ascii_of_nat 34) EmptyString.   (* one double quote *)
(* fmt.Sprintf(`{"type":%s, "name":%s`, strconv.Quote(tp), strconv.Quote(name)); the names need no escapes *)
Definition key_text (tp name : string) : string :=
  "{" ++ dq ++ "type" ++ dq ++ ":" ++ dq ++ tp ++ dq ++ ", " ++ dq ++ "name" ++ dq ++ ":" ++ dq ++ name ++ dq.
Definition key_spec (g : group) : Z := djb (key_text "rotate" (setting_name g)).
(* the eight fingerprints, tabulated (computing the hash on every settings access is slow inside Coq);
   proofs/RotateProofs.v key_is_djb: key g = key_spec g for every g *)
Definition key (g : group) : Z :=
  match g with
  | SpV3 => 2811023400 | SpTraces => 1932952743 | SpMetrics => 351918738 | TtlSamples => 2986595147
  | TtlTimeSeries => 987312111 | TtlTraces => 1731654574 | TtlAttrs => 3312469232 | TtlMetrics => 471363531
  end.

(* ------------------------------------------------------------------ configuration *)
(* one ttl_policy tier: the timeout as a time.Duration (int64 nanoseconds) and the disk to move to ("" = none) *)
Record policy := { p_ns : Z; p_disk : string }.
Record config := {
  cluster : string; distributed : bool; days : list policy; drop_days : Z; storage_policy : string }.

Definition zs (z : Z) : string := NilZero.string_of_int (Z.to_int z).   (* %d *)

(* ------------------------------------------------------------------ TTL expression *)
Record tier := { tr_secs : Z; tr_disk : string }.

(* intsevalSec := int64(rp.TTL / time.Second)                     -- Go's integer division truncates toward zero
   if intsevalSec < int64(minTTL/time.Second) { intsevalSec = int64(minTTL / time.Second) }
   if intsevalSec > math.MaxInt32 { intsevalSec = math.MaxInt32 }
   (before /repo fix "tier timeouts are whole seconds by integer arithmetic" the value was int32(rp.TTL.Seconds()), whose
   result for a timeout beyond 68 years is implementation-defined; amd64 gave -2^31, which the lower clamp turned into
   the minimum: refuted form kept as old_tier_secs / RotateProofs.old_conversion_moves_early) *)
Definition second_ns : Z := 1000000000.
Definition max_int32 : Z := 2147483647.
Definition whole_seconds (ns : Z) : Z := Z.quot ns second_ns.
Definition clamp (minv : Z) (v : Z) : Z :=
  let v1 := if v <? minv then minv else v in
  if max_int32 <? v1 then max_int32 else v1.
Definition tier_secs (minv ns : Z) : Z := clamp minv (whole_seconds ns).
Definition tiers_of (minv : Z) (ds : list policy) : list tier :=
  map (fun p => {| tr_secs := tier_secs minv (p_ns p); tr_disk := p_disk p |}) ds.

(* the code before the fix, on amd64 (CVTTSD2SL yields the "integer indefinite" value -2^31 when the truncated
   float does not fit int32); the float rounding of Duration.Seconds() is left out: whole seconds only *)
Definition old_tier_secs (minv ns : Z) : Z :=
  let s := whole_seconds ns in
  let conv := if (s <? -2147483648) || (max_int32 <? s) then -2147483648 else s in
  if conv <? minv then minv else conv.

Definition tier_text (c : col) (t : tier) : string :=
  col_text c ++ " + toIntervalSecond(" ++ zs (tr_secs t) ++ ")" ++
  (if String.eqb (tr_disk t) "" then "" else " TO DISK '" ++ tr_disk t ++ "'").
Definition drop_text (c : col) (d : Z) : string := col_text c ++ " + toIntervalDay(" ++ zs d ++ ")".
Fixpoint join (sep : string) (l : list string) : string :=
  match l with
  | [] => ""
  | [x] => x
  | x :: r => x ++ sep ++ join sep r
  end.
Definition ttl_text (c : col) (ts : list tier) (d : Z) : string :=
  join ", " (map (tier_text c) ts ++ [drop_text c d])%list.

(* the value a group wants applied and recorded *)
Definition desired (cfg : config) (g : group) : string :=
  if is_sp g then storage_policy cfg
  else ttl_text (g_col g) (tiers_of (g_min g) (days cfg)) (drop_days cfg).

(* ------------------------------------------------------------------ calls on the connection and their effect *)
Inductive call :=
| CGet (g : group)                                         (* getSetting: Query *)
| CTune (t : table)                                        (* ALTER TABLE t MODIFY SETTING ttl_only_drop_parts ... *)
| CTtl (t : table) (c : col) (ts : list tier) (d : Z)      (* ALTER TABLE t MODIFY TTL <ttl_text c ts d> *)
| CPolicy (t : table) (p : string)                         (* ALTER TABLE t MODIFY SETTING storage_policy=$1 *)
| CPut (g : group) (v : string).                           (* putSetting: INSERT INTO settings *)

Record db := { d_ttl : table -> string; d_policy : table -> string; d_settings : Z -> string }.

Definition apply (d : db) (c : call) : db :=
  match c with
  | CGet _ | CTune _ => d
  | CTtl t c ts dd =>
    let v := ttl_text c ts dd in
    {| d_ttl := fun t' => if table_beq t' t then v else d_ttl d t';
       d_policy := d_policy d; d_settings := d_settings d |}
  | CPolicy t p =>
    {| d_ttl := d_ttl d; d_policy := fun t' => if table_beq t' t then p else d_policy d t';
       d_settings := d_settings d |}
  | CPut g v =>
    let k := key g in
    {| d_ttl := d_ttl d; d_policy := d_policy d;
       d_settings := fun k' => if k' =? k then v else d_settings d k' |}
  end.

Definition recd (d : db) (g : group) : string := d_settings d (key g).
Definition val (d : db) (g : group) (t : table) : string := if is_sp g then d_policy d t else d_ttl d t.

(* fault = (number of calls that still succeed, does the failing statement take effect) *)
Record world := { w_db : db; w_log : list (call * bool); w_fault : option (nat * bool) }.   (* log: newest first *)

Definition exec (w : world) (c : call) : world * bool :=
  match w_fault w with
  | Some (O, eff) =>
    ({| w_db := if eff then apply (w_db w) c else w_db w; w_log := (c, false) :: w_log w; w_fault := None |}, false)
  | Some (S k, eff) =>
    ({| w_db := apply (w_db w) c; w_log := (c, true) :: w_log w; w_fault := Some (k, eff) |}, true)
  | None =>
    ({| w_db := apply (w_db w) c; w_log := (c, true) :: w_log w; w_fault := None |}, true)
  end.

(* a sequence of Exec calls, each followed by `if err != nil { return err }` *)
Fixpoint exec_all (w : world) (cs : list call) : world * bool :=
  match cs with
  | [] => (w, true)
  | c :: r => let '(w1, ok) := exec w c in if ok then exec_all w1 r else (w1, false)
  end.

(* ------------------------------------------------------------------ rotateTables / storagePolicyUpdate *)
Definition alter_call (cfg : config) (g : group) (t : table) : call :=
  if is_sp g then CPolicy t (storage_policy cfg)
  else CTtl t (g_col g) (tiers_of (g_min g) (days cfg)) (drop_days cfg).

(* the loop over the tables: rotateTables issues two statements per table, storagePolicyUpdate one *)
Definition alters (cfg : config) (g : group) : list call :=
  flat_map (fun t => if is_sp g then [alter_call cfg g t] else [CTune t; alter_call cfg g t]) (tables_of g).

(* `if err != nil || storagePolicy == "" || val == storagePolicy { return err }` resp.
   `if err != nil || val == rotateTTLStr { return err }` *)
Definition skip (cfg : config) (g : group) (v : string) : bool :=
  (is_sp g && String.eqb (storage_policy cfg) "") || String.eqb v (desired cfg g).

(* forgetSetting: clear an existing record before the tables are touched *)
Definition forget (g : group) (v : string) (w : world) : world * bool :=
  if String.eqb v "" then (w, true) else exec w (CPut g "").

(* the ALTER loop, then putSetting of the applied value *)
Definition alter_and_record (cfg : config) (g : group) (w : world) : world * bool :=
  let '(w3, ok3) := exec_all w (alters cfg g) in
  if ok3 then exec w3 (CPut g (desired cfg g)) else (w3, false).

Definition group_op (cfg : config) (g : group) (w : world) : world * bool :=
  let '(w1, ok1) := exec w (CGet g) in
  if ok1 then
    let v := recd (w_db w) g in
    if skip cfg g v then (w1, true) else
    let '(w2, ok2) := forget g v w1 in
    if ok2 then alter_and_record cfg g w2 else (w2, false)
  else (w1, false).

Fixpoint seq_ops (cfg : config) (gs : list group) (w : world) : world * bool :=
  match gs with
  | [] => (w, true)
  | g :: r => let '(w1, ok) := group_op cfg g w in if ok then seq_ops cfg r w1 else (w1, false)
  end.

(* func Rotate *)
Definition rotate (cfg : config) (w : world) : world * bool := seq_ops cfg groups w.

Definition fault := option (nat * bool).
Definition run (cfg : config) (f : fault) (d : db) : world * bool :=
  rotate cfg {| w_db := d; w_log := []; w_fault := f |}.
Definition run_db (cfg : config) (f : fault) (d : db) : db := w_db (fst (run cfg f d)).
Definition run_log (cfg : config) (f : fault) (d : db) : list (call * bool) := w_log (fst (run cfg f d)).

(* a history: runs with changing configurations and faults *)
Definition run_hist (h : list (config * fault)) (d : db) : db :=
  fold_left (fun d cf => run_db (fst cf) (snd cf) d) h d.

(* ------------------------------------------------------------------ the property's predicates *)
(* a record names a value only when every table of the group carries it *)
Definition consistent (d : db) : Prop :=
  forall g t, In t (tables_of g) -> recd d g <> "" -> val d g t = recd d g.
(* the group is configured: TTL groups always, storage-policy groups when a policy is set *)
Definition wanted (cfg : config) (g : group) : bool := negb (is_sp g && String.eqb (storage_policy cfg) "").
Definition converged (cfg : config) (d : db) : Prop :=
  forall g, wanted cfg g = true ->
    recd d g = desired cfg g /\ forall t, In t (tables_of g) -> val d g t = desired cfg g.

Definition is_get (c : call) : bool := match c with CGet _ => true | _ => false end.
Definition tiers_ok (c : call) : Prop :=
  match c with CTtl t _ ts _ => Forall (fun tr => table_min t <= tr_secs tr) ts | _ => True end.

(* boolean versions over the eight groups, used on the implementation's observations *)
Definition consistent_b (d : db) : bool :=
  forallb (fun g => String.eqb (recd d g) "" || forallb (fun t => String.eqb (val d g t) (recd d g)) (tables_of g)) groups.
Definition converged_b (cfg : config) (d : db) : bool :=
  forallb (fun g => negb (wanted cfg g) ||
     (String.eqb (recd d g) (desired cfg g) && forallb (fun t => String.eqb (val d g t) (desired cfg g)) (tables_of g))) groups.

(* the table part of converged_b: what an observer of the tables can check without knowing under which
   settings names the implementation keeps its records *)
Definition applied_b (cfg : config) (d : db) : bool :=
  forallb (fun g => negb (wanted cfg g) || forallb (fun t => String.eqb (val d g t) (desired cfg g)) (tables_of g)) groups.

(* ------------------------------------------------------------------ statement text (what the fake connection sees) *)
Inductive oarg := AS (s : string) | AN (n : Z).
Record ocall := { o_q : bool; o_sql : string; o_args : list oarg; o_ok : bool }.

Definition nl : string := String (ascii_of_nat 10) EmptyString.
Definition get_sql (dist : bool) : string :=
  "SELECT argMax(value, inserted_at) as _value FROM " ++ (if dist then "settings_dist" else "settings") ++
  " WHERE fingerprint = $1 " ++ nl ++ "GROUP BY fingerprint HAVING argMax(name, inserted_at) != ''".
Definition put_sql : string :=
  "INSERT INTO settings (fingerprint, type, name, value, inserted_at)" ++ nl ++ "VALUES ($1, $2, $3, $4, now64(9))".
Definition on_cluster (cfg : config) : string :=
  if String.eqb (cluster cfg) "" then "" else " ON CLUSTER `" ++ cluster cfg ++ "` ".
Definition tune_tail : string :=
  "MODIFY SETTING ttl_only_drop_parts = 1, merge_with_ttl_timeout = 3600, index_granularity = 8192".
Definition policy_tail : string := "MODIFY SETTING storage_policy=$1".

Definition render (cfg : config) (e : call * bool) : ocall :=
  let '(c, ok) := e in
  match c with
  | CGet g => {| o_q := true; o_sql := get_sql (distributed cfg); o_args := [AN (key g)]; o_ok := ok |}
  | CTune t => {| o_q := false; o_sql := "ALTER TABLE " ++ table_name t ++ " " ++ on_cluster cfg ++ nl ++ tune_tail;
                  o_args := []; o_ok := ok |}
  | CTtl t c ts d => {| o_q := false;
                        o_sql := "ALTER TABLE " ++ table_name t ++ " " ++ on_cluster cfg ++ " MODIFY TTL " ++ ttl_text c ts d;
                        o_args := []; o_ok := ok |}
  | CPolicy t p => {| o_q := false; o_sql := "ALTER TABLE " ++ table_name t ++ " " ++ on_cluster cfg ++ " " ++ policy_tail;
                      o_args := [AS p]; o_ok := ok |}
  | CPut g v => {| o_q := false; o_sql := put_sql;
                   o_args := [AN (key g); AS "rotate"; AS (setting_name g); AS v]; o_ok := ok |}
  end.

