(* Property C06, round 8: the service name of a stored span on the two sides of the store.

   Writer: OTLPDecoder.Decode takes the [service_name] column of the trace row from the FLATTENED attribute map
   (`attributesMap["service.name"]`, span attributes followed by the resource's, every write overwriting the one before);
   zipkinDecoderV2 from the endpoints.  Reader: parseOTLP derives the name it reports for the span (the name the Tempo
   answer groups the span under) from the FIRST-LEVEL attribute map of the stored span (last occurrence of a key), the first
   of service.name / peer.service / faas.name / k8s.deployment.name / process.executable.name that is a non-empty string;
   parseZipkinJSON from the endpoints of the stored text.  Both are in model/Spans.v ([otlp_span], [parse_otlp],
   [parse_zipkin]); here: the statement that the two names are ONE name, its domain, and the oracle the check evaluates on
   the implementation's observations.  Executable definitions only. *)
From Coq Require Import List ZArith NArith Bool String Ascii.
From Qryn Require Import model.Spans.
Import ListNotations.
Open Scope string_scope.
Open Scope Z_scope.

(* the attribute named "service": a key-value list under it flattens to the key "service.name" as well *)
Definition k_svc_prefix : string := "service".

(* The domain.  Zipkin ([p_ordered]): every span.  OTLP: the attribute service.name the span is stored with (last occurrence among
   the span's attributes followed by the resource's; the synthesised one when there is none) is a non-empty STRING and no attribute
   is named "service".  Outside: service.name = 5 is stored with service_name "5" and read back under a fallback name, service.name = ""
   likewise, and {service: {name: x}} after it overwrites the flattened key only ([service_names_differ_outside]). *)
Definition svc_guard (p : pushed) : bool :=
  if p_ordered p then true
  else match lookup k_service (p_attrs p) with Some (AStr s) => negb (String.eqb s "") | _ => false end
       && match lookup k_svc_prefix (p_attrs p) with None => true | Some _ => false end.

(* one span: the name the read path reports = the service_name column = the pushed service name *)
Definition svc_one (p : pushed) (r : trow) (o : option rspan) : bool :=
  match o with
  | Some x => String.eqb (rs_service x) (t_service r) && String.eqb (t_service r) (p_service p)
  | None => false
  end.
Fixpoint svc_all (ps : list pushed) (rs : list trow) (os : list (option rspan)) : bool :=
  match ps, rs, os with
  | p :: ps', r :: rs', o :: os' => (if svc_guard p then svc_one p r o else true) && svc_all ps' rs' os'
  | _, _, _ => true                  (* lengths are judged by spec_ok *)
  end.
Definition svc_ok (c : case) : bool :=
  if c_err c then true
  else match pushed_of (c_in c) with
       | None => true
       | Some ps => if forallb widths_ok ps then svc_all ps (c_rows c) (c_read c) else true
       end.
Definition svc_violations (cs : list case) : list Z := map c_id (filter (fun c => negb (svc_ok c)) cs).

(* how often the run leaves the domain, and how often the two names then differ on the IMPLEMENTATION (the refutation replayed):
   (spans inside the domain, spans outside, spans outside with two different names) *)
Fixpoint svc_count (ps : list pushed) (rs : list trow) (os : list (option rspan)) (acc : Z * Z * Z) : Z * Z * Z :=
  match ps, rs, os with
  | p :: ps', r :: rs', o :: os' =>
      let '(i, a, b) := acc in
      svc_count ps' rs' os' (if svc_guard p then (i + 1, a, b) else (i, a + 1, if svc_one p r o then b else b + 1))
  | _, _, _ => acc
  end.
Definition svc_counts (cs : list case) : list Z :=
  let '(i, a, b) :=
    fold_left (fun st c =>
                 if c_err c then st
                 else match pushed_of (c_in c) with
                      | None => st
                      | Some ps => svc_count ps (c_rows c) (c_read c) st
                      end) cs (0, 0, 0) in
  [i; a; b].
