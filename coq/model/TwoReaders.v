(* The two ways the read side reads a stored label document whose members are [m] in document order (property C04):
   SQL - JSONExtractString(labels, 'k') and the Map subscript over JSONExtractKeysAndValues are represented by
   SqlEval.label_of: the FIRST member named k ('' when there is none);
   Go - /series decodes the text into a map[string]string (reader/service storedLabels, encoding/json): a later member
   replaces an earlier one of the same name: the LAST member named k.
   [ambiguous m]: some name of the document is read differently by the two. Executable definitions only. *)
From Coq Require Import List String Bool.
From Qryn Require model.SqlEval.
Import ListNotations.
Open Scope string_scope.

Fixpoint go_last (m : list (string * string)) (k : string) : option string :=
  match m with
  | [] => None
  | kv :: m' =>
    match go_last m' k with
    | Some v => Some v
    | None => if String.eqb (fst kv) k then Some (snd kv) else None
    end
  end.
Definition go_read (m : list (string * string)) (k : string) : string :=
  match go_last m k with Some v => v | None => "" end.

Definition ambiguous (m : list (string * string)) : bool :=
  existsb (fun kv : string * string => negb (String.eqb (SqlEval.label_of m (fst kv)) (go_read m (fst kv)))) m.
