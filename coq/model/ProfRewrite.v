(* Model of the re-indexing done by the pprof payload merge of the reader (property C16):
     reader/service/profMerge_v1.go   sanitizeProfile, removeInPlace, combineHeaders, compatible, equalValueType,
                                      the texts hashed by GetFunctionKey / GetMappingKey / GetLocationKey / GetSampleKey
                                      (hashLines, hashLocations, hashProfileLabels)
     reader/service/profMerge_v2.go   ProfileMergeV2.Merge / init / Profile, RewriteTableV2.Get for the five tables
                                      (strings, functions, mappings, locations, samples)
   as ProfService.MergeProfiles runs them: every stored payload is decoded (proto.Unmarshal), sanitized, its string
   table is entered into the merged string table, then functions, mappings, locations and samples are rewritten to the
   merged indices and entered into their tables; sample values are added to the entry of the sample's key.

   Strings are tokens (Z; the token 0 is the empty string): the tables only ever compare strings.  A table key is the
   list of numbers the Go code prints and hashes (the 64-bit hash itself is the comparison parameter [eqk] of every
   table: the tie instantiates it with equality of the hashed content).  uint64 arithmetic through [u64].
   Executable definitions only; proofs are in proofs/ProfRewriteProofs.v. *)
From Coq Require Import List NArith ZArith Bool.
From Qryn Require Import model.Pprof model.ProfMerge.
Import ListNotations.
Open Scope Z_scope.

Definition u64 (z : Z) : Z := z mod two64.

(* ------------------------------------------------------------------ the pprof message (reader/prof/profile.pb.go) *)
Record vtype := { vt_type : Z; vt_unit : Z }.
Record pfun := { f_id : Z; f_name : Z; f_sys : Z; f_file : Z; f_start : Z }.
Record pline := { ln_fn : Z; ln_line : Z; ln_col : Z }.
Record ploc := { l_id : Z; l_map : Z; l_addr : Z; l_lines : list pline; l_folded : bool }.
Record pmap := { m_id : Z; m_start : Z; m_limit : Z; m_off : Z; m_file : Z; m_build : Z; m_flags : Z }.
Record plabel := { lb_key : Z; lb_str : Z; lb_num : Z; lb_unit : Z }.
Record psamp := { s_locs : list Z; s_vals : list Z; s_labels : list plabel }.
Record pprofile := {
  p_strs : list Z;                       (* string table as tokens *)
  p_types : list vtype; p_ptype : option vtype;
  p_funs : list pfun; p_maps : list pmap; p_locs : list ploc; p_samps : list psamp;
  p_drop : Z; p_keep : Z; p_time : Z; p_duration : Z; p_period : Z; p_default : Z; p_comments : list Z }.

(* Go maps from ids to ids: association list, the last assignment wins, a missing key reads 0 *)
Definition amap := list (Z * Z).
Fixpoint aget (m : amap) (k : Z) : Z :=
  match m with
  | [] => 0
  | (k', v) :: r => if Z.eqb k' k then v else aget r k
  end.
Definition aset (m : amap) (k v : Z) : amap := (k, v) :: m.

(* ------------------------------------------------------------------ sanitizeProfile *)
Fixpoint index_of0 (l : list Z) (i : Z) : Z :=      (* position of the first empty string, -1 when there is none *)
  match l with
  | [] => -1
  | x :: r => if Z.eqb x 0 then i else index_of0 r (i + 1)
  end.
Fixpoint set_nth (l : list Z) (n : nat) (v : Z) : list Z :=
  match l, n with
  | [], _ => []
  | _ :: r, O => v :: r
  | x :: r, S n' => x :: set_nth r n' v
  end.

Definition san_str (z ms i : Z) : Z :=
  if Z.eqb i 0 && Z.ltb 0 z then z
  else if Z.eqb i z || Z.leb ms i || Z.ltb i 0 then 0
  else i.

(* the renumbering passes: every element gets the id j = position + 1, t[old id] = j *)
Fixpoint renumber {A} (getid : A -> Z) (setid : A -> Z -> A) (l : list A) (j : Z) (t : amap) : list A * amap :=
  match l with
  | [] => ([], t)
  | x :: r => let '(r', t') := renumber getid setid r (j + 1) (aset t (getid x) j) in (setid x j :: r', t')
  end.

Definition set_fid (f : pfun) (j : Z) : pfun :=
  {| f_id := j; f_name := f_name f; f_sys := f_sys f; f_file := f_file f; f_start := f_start f |}.
Definition set_mid (m : pmap) (j : Z) : pmap :=
  {| m_id := j; m_start := m_start m; m_limit := m_limit m; m_off := m_off m; m_file := m_file m; m_build := m_build m; m_flags := m_flags m |}.
Definition set_lid (l : ploc) (j : Z) : ploc :=
  {| l_id := j; l_map := l_map l; l_addr := l_addr l; l_lines := l_lines l; l_folded := l_folded l |}.
Definition set_lmap (l : ploc) (m : Z) : ploc :=
  {| l_id := l_id l; l_map := m; l_addr := l_addr l; l_lines := l_lines l; l_folded := l_folded l |}.
Definition set_llines (l : ploc) (ls : list pline) : ploc :=
  {| l_id := l_id l; l_map := l_map l; l_addr := l_addr l; l_lines := ls; l_folded := l_folded l |}.
Definition set_lnfn (ln : pline) (f : Z) : pline := {| ln_fn := f; ln_line := ln_line ln; ln_col := ln_col ln |}.
Definition empty_map (j : Z) : pmap := {| m_id := j; m_start := 0; m_limit := 0; m_off := 0; m_file := 0; m_build := 0; m_flags := 0 |}.

(* first location pass: a location without mapping gets the (lazily appended) empty mapping, another one the renumbered
   id of its mapping and is dropped when that is 0.  Result: kept locations, id of the empty mapping (0 = not created) *)
Fixpoint san_loc_maps (t : amap) (nmaps : Z) (ls : list ploc) (fake : Z) : list ploc * Z :=
  match ls with
  | [] => ([], fake)
  | x :: r =>
      if Z.eqb (l_map x) 0 then
        let fake' := if Z.eqb fake 0 then nmaps + 1 else fake in
        let '(r', f') := san_loc_maps t nmaps r fake' in (set_lmap x fake' :: r', f')
      else
        let m := aget t (l_map x) in
        let '(r', f') := san_loc_maps t nmaps r fake in
        if Z.eqb m 0 then (r', f') else (set_lmap x m :: r', f')
  end.

(* second location pass: the lines are rewritten up to the first one whose function is unknown; such a location is dropped *)
Fixpoint san_lines (t : amap) (ls : list pline) : option (list pline) :=
  match ls with
  | [] => Some []
  | x :: r => let f := aget t (ln_fn x) in
              if Z.eqb f 0 then None
              else match san_lines t r with Some r' => Some (set_lnfn x f :: r') | None => None end
  end.
Fixpoint san_loc_funs (t : amap) (ls : list ploc) : list ploc :=
  match ls with
  | [] => []
  | x :: r => match san_lines t (l_lines x) with
              | Some lines => set_llines x lines :: san_loc_funs t r
              | None => san_loc_funs t r
              end
  end.

Fixpoint san_locids (t : amap) (ids : list Z) : option (list Z) :=
  match ids with
  | [] => Some []
  | i :: r => let j := aget t i in
              if Z.eqb j 0 then None
              else match san_locids t r with Some r' => Some (j :: r') | None => None end
  end.
Definition san_label (str : Z -> Z) (l : plabel) : plabel :=
  {| lb_key := str (lb_key l); lb_str := str (lb_str l); lb_num := lb_num l; lb_unit := str (lb_unit l) |}.
Fixpoint san_samples (str : Z -> Z) (t : amap) (vs : nat) (ss : list psamp) : list psamp :=
  match ss with
  | [] => []
  | x :: r =>
      if negb (Nat.eqb (length (s_vals x)) vs) then san_samples str t vs r
      else match san_locids t (s_locs x) with
           | None => san_samples str t vs r
           | Some ids => {| s_locs := ids; s_vals := s_vals x; s_labels := map (san_label str) (s_labels x) |} :: san_samples str t vs r
           end
  end.

Definition san_vt (str : Z -> Z) (v : vtype) : vtype := {| vt_type := str (vt_type v); vt_unit := str (vt_unit v) |}.

Definition sanitize (p : pprofile) : pprofile :=
  let z0 := index_of0 (p_strs p) 0 in
  let strs1 := if Z.eqb z0 (-1) then p_strs p ++ [0] else p_strs p in
  let z := if Z.eqb z0 (-1) then Z.of_nat (length (p_strs p)) else z0 in
  let ms := Z.of_nat (length strs1) in
  let s0 := nth 0 strs1 0 in
  let strs := set_nth (set_nth strs1 0 (nth (Z.to_nat z) strs1 0)) (Z.to_nat z) s0 in
  let str := san_str z ms in
  let '(maps1, tm) := renumber m_id set_mid
                        (map (fun m => {| m_id := m_id m; m_start := m_start m; m_limit := m_limit m; m_off := m_off m;
                                          m_file := str (m_file m); m_build := str (m_build m); m_flags := m_flags m |}) (p_maps p)) 1 [] in
  let '(locs1, fake) := san_loc_maps tm (Z.of_nat (length maps1)) (p_locs p) 0 in
  let maps := if Z.eqb fake 0 then maps1 else maps1 ++ [empty_map fake] in
  let '(funs, tf) := renumber f_id set_fid
                       (map (fun f => {| f_id := f_id f; f_name := str (f_name f); f_sys := str (f_sys f); f_file := str (f_file f);
                                         f_start := f_start f |}) (p_funs p)) 1 [] in
  let locs2 := san_loc_funs tf locs1 in
  let '(locs, tl) := renumber l_id set_lid locs2 1 [] in
  {| p_strs := strs; p_types := map (san_vt str) (p_types p); p_ptype := option_map (san_vt str) (p_ptype p);
     p_funs := funs; p_maps := maps; p_locs := locs;
     p_samps := san_samples str tl (length (p_types p)) (p_samps p);
     p_drop := str (p_drop p); p_keep := str (p_keep p); p_time := p_time p; p_duration := p_duration p; p_period := p_period p;
     p_default := str (p_default p); p_comments := map str (p_comments p) |}.

(* ------------------------------------------------------------------ table keys: the numbers the Go code prints / hashes *)
Definition fkey (f : pfun) : list Z := [f_start f; f_name f; f_sys f; f_file f].
Definition map_size (m : pmap) : Z :=
  let size := u64 (u64 (u64 (m_limit m - m_start m) + 4096) - 1) in u64 (size - size mod 4096).
Definition mkey (m : pmap) : list Z :=
  [map_size m; m_off m; if negb (Z.eqb (m_build m) 0) then m_build m else m_file m].
(* hashLines: x[i] = line.FunctionId | (uint64(line.Line) << 32) *)
Definition line_word (f line : Z) : Z := Z.lor f (u64 (u64 line * 4294967296)).
Definition lkey (l : ploc) : list Z := l_addr l :: l_map l :: map (fun ln => line_word (ln_fn ln) (ln_line ln)) (l_lines l).
(* hashProfileLabels: the labels sorted by (Key, Str), then uint64(Key) | (uint64(Str) << 32) *)
Definition label_lt (a b : plabel) : bool :=
  Z.ltb (lb_key a) (lb_key b) || (Z.eqb (lb_key a) (lb_key b) && Z.ltb (lb_str a) (lb_str b)).
Fixpoint label_insert (x : plabel) (l : list plabel) : list plabel :=
  match l with
  | [] => [x]
  | y :: r => if label_lt y x then y :: label_insert x r else x :: l
  end.
Definition label_sort (l : list plabel) : list plabel := fold_right label_insert [] l.
Definition label_word (l : plabel) : Z := Z.lor (u64 (lb_key l)) (u64 (u64 (lb_str l) * 4294967296)).
(* the sample key: the location ids, a separator no id equals, the label words *)
Definition skey (s : psamp) : list Z := s_locs s ++ (-1) :: map label_word (label_sort (s_labels s)).

(* ------------------------------------------------------------------ RewriteTableV2.Get *)
Section Tables.
Variable eqk : list Z -> list Z -> bool.      (* rt.Map[rt.index(value)] hit: the 64-bit hashes of the two keys agree *)

Fixpoint find_key {A} (key : A -> list Z) (k : list Z) (tbl : list A) (i : nat) : option nat :=
  match tbl with
  | [] => None
  | e :: r => if eqk (key e) k then Some i else find_key key k r (S i)
  end.
(* -> (the 1-based index Get returns, the table) *)
Definition tget {A} (key : A -> list Z) (clone : A -> Z -> A) (tbl : list A) (v : A) : nat * list A :=
  match find_key key (key v) tbl 0 with
  | Some i => (S i, tbl)
  | None => (S (length tbl), tbl ++ [clone v (Z.of_nat (S (length tbl)))])
  end.

(* one loop of Merge over the functions / mappings / locations of a profile: rewrite the element, Get it, remember
   idx[old id] = merged id *)
Fixpoint phase {A} (rw : A -> A) (key : A -> list Z) (clone : A -> Z -> A) (getid : A -> Z)
         (xs : list A) (idx : amap) (tbl : list A) : amap * list A :=
  match xs with
  | [] => (idx, tbl)
  | x :: r => let '(j, tbl') := tget key clone tbl (rw x) in
              phase rw key clone getid r (aset idx (getid x) (Z.of_nat j)) tbl'
  end.

(* the string table: strIdx[i] = Get(p.StringTable[i]) - 1 *)
Fixpoint str_phase (strs : list Z) (tbl : list Z) : list Z * list Z :=
  match strs with
  | [] => ([], tbl)
  | s :: r => let '(j, tbl') := tget (fun x => [x]) (fun x _ => x) tbl s in
              let '(ix, tbl'') := str_phase r tbl' in
              ((Z.of_nat j - 1) :: ix, tbl'')
  end.

Definition sidx (ix : list Z) (i : Z) : Z := nth (Z.to_nat i) ix 0.

Definition rw_fun (ix : list Z) (f : pfun) : pfun :=
  {| f_id := f_id f; f_name := sidx ix (f_name f); f_sys := sidx ix (f_sys f); f_file := sidx ix (f_file f); f_start := f_start f |}.
Definition rw_map (ix : list Z) (m : pmap) : pmap :=
  {| m_id := m_id m; m_start := m_start m; m_limit := m_limit m; m_off := m_off m; m_file := sidx ix (m_file m);
     m_build := sidx ix (m_build m); m_flags := m_flags m |}.
Definition rw_loc (fnidx mapidx : amap) (l : ploc) : ploc :=
  {| l_id := l_id l; l_map := aget mapidx (l_map l); l_addr := l_addr l;
     l_lines := map (fun ln => set_lnfn ln (aget fnidx (ln_fn ln))) (l_lines l); l_folded := l_folded l |}.
(* label.Key and label.Str are rewritten, label.NumUnit is not *)
Definition rw_label (ix : list Z) (l : plabel) : plabel :=
  {| lb_key := sidx ix (lb_key l); lb_str := sidx ix (lb_str l); lb_num := lb_num l; lb_unit := lb_unit l |}.
Definition rw_samp (ix : list Z) (locidx : amap) (s : psamp) : psamp :=
  {| s_locs := map (aget locidx) (s_locs s); s_vals := s_vals s; s_labels := map (rw_label ix) (s_labels s) |}.
Definition clone_samp (s : psamp) (_ : Z) : psamp :=
  {| s_locs := s_locs s; s_vals := map (fun _ => 0) (s_vals s); s_labels := s_labels s |}.

Fixpoint add_at (tbl : list psamp) (n : nat) (vs : list Z) : list psamp :=
  match tbl, n with
  | [], _ => []
  | e :: r, O => {| s_locs := s_locs e; s_vals := add_values (s_vals e) vs; s_labels := s_labels e |} :: r
  | e :: r, S n' => e :: add_at r n' vs
  end.
(* _, _s := pm.sampleTable.Get(s); for i := range _s.Value { _s.Value[i] += s.Value[i] } *)
Definition samp_step (ix : list Z) (locidx : amap) (tbl : list psamp) (s : psamp) : list psamp :=
  let s' := rw_samp ix locidx s in
  let '(j, tbl') := tget skey clone_samp tbl s' in
  add_at tbl' (Nat.pred j) (s_vals s').
End Tables.

(* ------------------------------------------------------------------ ProfileMergeV2 *)
Record header := {
  h_types : list vtype; h_ptype : vtype;
  h_drop : Z; h_keep : Z; h_time : Z; h_duration : Z; h_period : Z; h_default : Z }.
Record mstate := {
  ms_head : option header;
  ms_strs : list Z; ms_funs : list pfun; ms_maps : list pmap; ms_locs : list ploc; ms_samps : list psamp }.
Definition mstate0 : mstate := {| ms_head := None; ms_strs := []; ms_funs := []; ms_maps := []; ms_locs := []; ms_samps := [] |}.

Definition vt_eqb (a b : vtype) : bool := Z.eqb (vt_type a) (vt_type b) && Z.eqb (vt_unit a) (vt_unit b).
Fixpoint vts_eqb (a b : list vtype) : bool :=
  match a, b with
  | [], [] => true
  | x :: a', y :: b' => vt_eqb x y && vts_eqb a' b'
  | _, _ => false
  end.

(* the five comparisons of the five tables *)
Record keqs := { kq_s : list Z -> list Z -> bool; kq_f : list Z -> list Z -> bool; kq_m : list Z -> list Z -> bool;
                 kq_l : list Z -> list Z -> bool; kq_a : list Z -> list Z -> bool }.

(* combineHeaders(a, b) after compatible: 1 = "incompatible period types", 2 = "incompatible sample types" *)
Definition combine_headers (a : header) (types : list vtype) (pt : vtype) (p : pprofile) : header + Z :=
  if negb (vt_eqb (h_ptype a) pt) then inr 1
  else if negb (vts_eqb (h_types a) types) then inr 2
  else inl {| h_types := h_types a; h_ptype := h_ptype a; h_drop := h_drop a; h_keep := h_keep a;
              h_time := if Z.eqb (h_time a) 0 || Z.ltb (p_time p) (h_time a) then p_time p else h_time a;
              h_duration := wrap64 (h_duration a + p_duration p);
              h_period := if Z.eqb (h_period a) 0 || Z.ltb (h_period a) (p_period p) then p_period p else h_period a;
              h_default := if Z.eqb (h_default a) 0 then p_default p else h_default a |}.

(* Merge(p) after sanitizeProfile *)
Definition merge_sane (q : keqs) (st : mstate) (p : pprofile) : mstate + Z :=
  let pt0 := match p_ptype p with Some v => v | None => {| vt_type := 0; vt_unit := 0 |} end in
  let '(ix, strs) := str_phase (kq_s q) (p_strs p) (ms_strs st) in
  let pt := san_vt (sidx ix) pt0 in
  (* s.Unit = strIdx[s.Unit]; s.Type = strIdx[s.Type] *)
  let types := map (san_vt (sidx ix)) (p_types p) in
  let head0 := match ms_head st with
               | Some h => h
               | None => {| h_types := types; h_ptype := pt; h_drop := p_drop p; h_keep := p_keep p; h_time := p_time p;
                            h_duration := 0; h_period := p_period p; h_default := p_default p |}
               end in
  match combine_headers head0 types pt p with
  | inr e => inr e
  | inl head =>
      let '(fnidx, funs) := phase (kq_f q) (rw_fun ix) fkey set_fid f_id (p_funs p) [] (ms_funs st) in
      let '(mapidx, maps) := phase (kq_m q) (rw_map ix) mkey set_mid m_id (p_maps p) [] (ms_maps st) in
      let '(locidx, locs) := phase (kq_l q) (rw_loc fnidx mapidx) lkey set_lid l_id (p_locs p) [] (ms_locs st) in
      let samps := fold_left (samp_step (kq_a q) ix locidx) (p_samps p) (ms_samps st) in
      inl {| ms_head := Some head; ms_strs := strs; ms_funs := funs; ms_maps := maps; ms_locs := locs; ms_samps := samps |}
  end.

(* Merge(p): a profile without samples or with fewer than two strings is skipped *)
Definition merged_in (p : pprofile) : bool := negb (is_nil (p_samps p) || Nat.ltb (length (p_strs p)) 2).
Definition merge_one (q : keqs) (st : mstate) (p0 : pprofile) : mstate + Z :=
  if merged_in p0 then merge_sane q st (sanitize p0) else inl st.

Fixpoint merge_all (q : keqs) (st : mstate) (ps : list pprofile) : mstate + Z :=
  match ps with
  | [] => inl st
  | p :: r => match merge_one q st p with inl st' => merge_all q st' r | inr e => inr e end
  end.

(* Profile(): the merged message (the ids were already positional) *)
Definition merged_profile (st : mstate) : pprofile :=
  match ms_head st with
  | None => {| p_strs := []; p_types := []; p_ptype := None; p_funs := []; p_maps := []; p_locs := []; p_samps := [];
               p_drop := 0; p_keep := 0; p_time := 0; p_duration := 0; p_period := 0; p_default := 0; p_comments := [] |}
  | Some h => {| p_strs := ms_strs st; p_types := h_types h; p_ptype := Some (h_ptype h);
                 p_funs := ms_funs st; p_maps := ms_maps st; p_locs := ms_locs st; p_samps := ms_samps st;
                 p_drop := h_drop h; p_keep := h_keep h; p_time := h_time h; p_duration := h_duration h; p_period := h_period h;
                 p_default := h_default h; p_comments := [] |}
  end.

Definition exact_keqs : keqs := {| kq_s := zlist_eqb; kq_f := zlist_eqb; kq_m := zlist_eqb; kq_l := zlist_eqb; kq_a := zlist_eqb |}.
Definition merge_payloads (ps : list pprofile) : pprofile + Z :=
  match merge_all exact_keqs mstate0 ps with inl st => inl (merged_profile st) | inr e => inr e end.

(* ------------------------------------------------------------------ what a profile denotes: weighted stacks of functions
   a function is resolved to (start line, name, system name, file name) with the strings as tokens; a location to the
   functions of its lines (inlined frames, innermost first); a sample to the resolved locations of its stack.
   References are followed by id; a dangling one resolves to the function (-1,-1,-1,-1) / to no line *)
Definition fden := (Z * Z * Z * Z)%type.
Definition rstr (strs : list Z) (i : Z) : Z := nth (Z.to_nat i) strs (-1).
Fixpoint find_by {A} (getid : A -> Z) (i : Z) (l : list A) : option A :=
  match l with
  | [] => None
  | x :: r => if Z.eqb (getid x) i then Some x else find_by getid i r
  end.
Definition fun_den (strs : list Z) (f : pfun) : fden := (f_start f, rstr strs (f_name f), rstr strs (f_sys f), rstr strs (f_file f)).
Definition fn_den (strs : list Z) (funs : list pfun) (id : Z) : fden :=
  match find_by f_id id funs with Some f => fun_den strs f | None => (-1, -1, -1, -1) end.
Definition loc_den (strs : list Z) (funs : list pfun) (l : ploc) : list fden := map (fun ln => fn_den strs funs (ln_fn ln)) (l_lines l).
Definition locid_den (strs : list Z) (funs : list pfun) (locs : list ploc) (id : Z) : list fden :=
  match find_by l_id id locs with Some l => loc_den strs funs l | None => [] end.
Definition stack_den (p : pprofile) (s : psamp) : list (list fden) := map (locid_den (p_strs p) (p_funs p) (p_locs p)) (s_locs s).

(* the weight of sample type k carried by the stacks a predicate selects *)
Definition weight (P : list (list fden) -> bool) (k : nat) (p : pprofile) : Z :=
  sumZ (map (fun s => if P (stack_den p s) then nth k (s_vals s) 0 else 0) (p_samps p)).

Definition fden_eqb (a b : fden) : bool :=
  let '(a1, a2, a3, a4) := a in let '(b1, b2, b3, b4) := b in Z.eqb a1 b1 && Z.eqb a2 b2 && Z.eqb a3 b3 && Z.eqb a4 b4.
Fixpoint list_eqb' {A} (eqb : A -> A -> bool) (a b : list A) : bool :=
  match a, b with
  | [], [] => true
  | x :: a', y :: b' => eqb x y && list_eqb' eqb a' b'
  | _, _ => false
  end.
Definition stack_eqb : list (list fden) -> list (list fden) -> bool := list_eqb' (list_eqb' fden_eqb).

(* ------------------------------------------------------------------ well-formed payloads
   [sane]: what sanitizeProfile establishes and Merge relies on: the first string is empty, ids are 1..n in order, every
   reference resolves, every sample has one value per sample type *)
Fixpoint positional {A} (getid : A -> Z) (l : list A) (j : Z) : bool :=
  match l with
  | [] => true
  | x :: r => Z.eqb (getid x) j && positional getid r (j + 1)
  end.
Definition in_range (n : nat) (i : Z) : bool := Z.leb 0 i && Z.ltb i (Z.of_nat n).
Definition id_in (n : nat) (i : Z) : bool := Z.leb 1 i && Z.leb i (Z.of_nat n).
Definition sane_b (p : pprofile) : bool :=
  let ns := length (p_strs p) in
  Z.eqb (nth 0 (p_strs p) (-1)) 0 &&
  positional f_id (p_funs p) 1 && positional m_id (p_maps p) 1 && positional l_id (p_locs p) 1 &&
  forallb (fun f => in_range ns (f_name f) && in_range ns (f_sys f) && in_range ns (f_file f)) (p_funs p) &&
  forallb (fun m => in_range ns (m_file m) && in_range ns (m_build m)) (p_maps p) &&
  forallb (fun l => id_in (length (p_maps p)) (l_map l) && forallb (fun ln => id_in (length (p_funs p)) (ln_fn ln)) (l_lines l)) (p_locs p) &&
  forallb (fun s => Nat.eqb (length (s_vals s)) (length (p_types p)) && forallb (id_in (length (p_locs p))) (s_locs s) &&
                    forallb (fun lb => in_range ns (lb_key lb) && in_range ns (lb_str lb)) (s_labels s)) (p_samps p) &&
  forallb (fun v => in_range ns (vt_type v) && in_range ns (vt_unit v)) (p_types p) &&
  match p_ptype p with Some v => in_range ns (vt_type v) && in_range ns (vt_unit v) | None => true end.

(* [wf_raw]: a decoded payload whose references resolve before sanitizing (what the writer stores: the pprof parser it
   uses refuses anything else): distinct non-zero ids, every reference names an existing element, string indices in
   range, one value per sample type *)
Fixpoint nodup_b (l : list Z) : bool :=
  match l with
  | [] => true
  | x :: r => negb (existsb (Z.eqb x) r) && nodup_b r
  end.
Definition has_id {A} (getid : A -> Z) (l : list A) (i : Z) : bool := existsb (fun x => Z.eqb (getid x) i) l.
Definition wf_raw_b (p : pprofile) : bool :=
  let ns := length (p_strs p) in
  nodup_b (map f_id (p_funs p)) && nodup_b (map m_id (p_maps p)) && nodup_b (map l_id (p_locs p)) &&
  negb (has_id f_id (p_funs p) 0) && negb (has_id m_id (p_maps p) 0) && negb (has_id l_id (p_locs p) 0) &&
  forallb (fun f => in_range ns (f_name f) && in_range ns (f_sys f) && in_range ns (f_file f)) (p_funs p) &&
  forallb (fun l => (Z.eqb (l_map l) 0 || has_id m_id (p_maps p) (l_map l)) &&
                    forallb (fun ln => has_id f_id (p_funs p) (ln_fn ln)) (l_lines l)) (p_locs p) &&
  forallb (fun s => Nat.eqb (length (s_vals s)) (length (p_types p)) && forallb (has_id l_id (p_locs p)) (s_locs s)) (p_samps p).

(* [closed]: what the merged message must be for ANY payloads (round 8, proofs/ProfSaneProofs.v merged_profile_closed): ids of
   functions and locations 1..n in order, the string indices of the functions inside the string table, every function id of a
   line and every location id of a sample names an existing element, every sample has n values *)
Definition closed_b (n : nat) (p : pprofile) : bool :=
  let ns := length (p_strs p) in
  positional f_id (p_funs p) 1 && positional l_id (p_locs p) 1 &&
  forallb (fun f => in_range ns (f_name f) && in_range ns (f_sys f) && in_range ns (f_file f)) (p_funs p) &&
  forallb (fun l => forallb (fun ln => id_in (length (p_funs p)) (ln_fn ln)) (l_lines l)) (p_locs p) &&
  forallb (fun s => Nat.eqb (length (s_vals s)) n && forallb (id_in (length (p_locs p))) (s_locs s)) (p_samps p).
