(* Property C11, round 6: the identity under which simpleExpressionPlanner.analyzeCond de-duplicates the terms of a
   selector is the TEXT AttrSelector.String() prints (Traceql.attr_sel_string: label, blank, operator, blank, the token
   of the value).  Two different conditions that print alike are silently merged: the second gets the bit, the WHERE
   test and the literal of the first.  This file states, executably, what the grammar of model_v2.go / lexer_rules v2.go
   guarantees about the fields of a term (`term_grammar`) and that the library values the harness attaches are functions
   of the tokens (`lib_functional`); proofs/TraceqlKeyProofs.v shows that on such terms the printing is injective, hence
   `keys_ok`.  Both predicates, and the equality of the model's key with the text the REAL String() printed, are
   computed on every harness case (mismatch code 6).

   Executable definitions only. *)
From Coq Require Import List ZArith String Ascii Bool.
From Qryn Require Import model.Traceql.
Import ListNotations.
Open Scope string_scope.

Fixpoint all_chars (p : ascii -> bool) (s : string) : bool :=
  match s with EmptyString => true | String c r => p c && all_chars p r end.
Definition first_is (p : ascii -> bool) (s : string) : bool :=
  match s with String c _ => p c | EmptyString => false end.
Fixpoint last_is (p : ascii -> bool) (s : string) : bool :=
  match s with
  | EmptyString => false
  | String c EmptyString => p c
  | String _ r => last_is p r
  end.

Definition is_blank (c : ascii) : bool := Ascii.eqb c " ".
Definition is_quote (c : ascii) : bool := Ascii.eqb c """" || Ascii.eqb c "`".
Definition is_lower (c : ascii) : bool := let n := N_of_ascii c in (97 <=? n)%N && (n <=? 122)%N.
(* the bytes of FVal: Minus? Integer Dot? Integer? *)
Definition num_char (c : ascii) : bool := is_digit c || Ascii.eqb c "-" || Ascii.eqb c ".".

(* Label_name: an optional dot, a letter or underscore, then letters, digits, dot, underscore, minus.  What matters for
   the key is that it is not empty and holds no blank. *)
Definition label_grammar (l : string) : bool := negb (String.eqb l "") && all_chars (fun c => negb (is_blank c)) l.

(* Value: exactly one alternative of the grammar captured something.
   StrVal: a Quoted_string / Ticked_string token (starts with its quote);
   FVal: Minus? Integer Dot? Integer? (only the bytes - 0..9 .);
   TimeVal: Integer Dot? Integer? unit (starts with a digit, ends with the letter of the unit). *)
Definition value_grammar (v : value) : bool :=
  match v_str v with
  | Some s => first_is is_quote s && String.eqb (v_f v) "" && String.eqb (v_time v) ""
  | None =>
      if negb (String.eqb (v_f v) "") then all_chars num_char (v_f v) && String.eqb (v_time v) ""
      else first_is is_digit (v_time v) && last_is is_lower (v_time v)
  end.
Definition term_grammar (t : attr_sel) : bool := label_grammar (a_label t) && value_grammar (a_val t).

(* the captured tokens of a value (the remaining fields of the record are library values computed from them) *)
Definition tokens_eqb (a b : value) : bool :=
  String.eqb (v_time a) (v_time b) && String.eqb (v_f a) (v_f b) && opt_eqb String.eqb (v_str a) (v_str b).
Definition lib_functional (ts : list attr_sel) : bool :=
  forallb (fun a => forallb (fun b => negb (tokens_eqb (a_val a) (a_val b)) || value_eqb (a_val a) (a_val b)) ts) ts.

(* what the theorems ask of the terms of one selector instead of keys_ok *)
Definition terms_grammar (e : attr_exp) : bool :=
  forallb term_grammar (exp_terms e) && lib_functional (exp_terms e).

(* every term of a script, selector by selector, in the order analyzeCond meets them *)
Fixpoint script_terms (s : script) : list attr_sel :=
  match s with
  | Script h _ tl =>
      (match sel_attr h with Some e => exp_terms e | None => [] end ++
       match tl with Some s' => script_terms s' | None => [] end)%list
  end.
Fixpoint script_terms_grammar (s : script) : bool :=
  match s with
  | Script h _ tl =>
      match sel_attr h with Some e => terms_grammar e | None => true end
      && match tl with Some s' => script_terms_grammar s' | None => true end
  end.

Fixpoint strs_eqb (a b : list string) : bool :=
  match a, b with
  | [], [] => true
  | x :: a', y :: b' => String.eqb x y && strs_eqb a' b'
  | _, _ => false
  end.
(* the tie of the key: `keys` are the texts the real AttrSelector.String() printed for the terms of the script *)
Definition keys_tie (s : script) (keys : list string) : bool :=
  strs_eqb (map attr_sel_string (script_terms s)) keys.
