(* The two halves of property C04 put together: histories whose streams carry LABELS (model/SeriesIndex.v knows a
   stream only by its fingerprint). A stream's fingerprint is fp_of (sanitized labels); the series row announced by a
   stream carries encodeLabels of that stream's labels. Also the oracle that checks the second fact on the code: the
   labels text of every series row observed in a history decodes to the label set of the stream with that fingerprint.
   Executable definitions only; proofs in proofs/DiscoverProofs.v. *)
From Coq Require Import List ZArith String Ascii Bool Uint63.
From Qryn Require Import model.GoQuote model.LabelJson model.Fingerprint model.Labels model.ProtoLabels model.SeriesIndex.
Import ListNotations.
Open Scope Z_scope.

Record lstream := { ls_raw : list label; ls_entries : list entry }.      (* labels as the client sent them *)
Definition ls_labels (s : lstream) : list label := sanitize (ls_raw s).   (* what onEntries fingerprints and encodes *)

Inductive laction :=
| LPush (streams : list lstream) (ts_ok spl_ok : bool)
| LPushBad (streams : list lstream)
| LBegin (streams : list lstream)
| LMore (k : nat) (streams : list lstream)
| LFlush (k : nat) (ts_ok spl_ok : bool)
| LEnd (k : nat) (ts_ok spl_ok : bool)
| LAbort (k : nat)
| LReset
| LEvict (k : nat).

Definition lstreams_of (a : laction) : list lstream :=
  match a with LPush ss _ _ | LPushBad ss | LBegin ss | LMore _ ss => ss | _ => [] end.
Definition lstreams (h : list laction) : list lstream := flat_map lstreams_of h.

Section FP.
  Variable fp_of : list label -> Z.          (* fingerprintLabels, either type *)
  Definition to_stream (s : lstream) : stream := {| s_fp := fp_of (ls_labels s); s_entries := ls_entries s |}.
  Definition to_action (a : laction) : action :=
    match a with
    | LPush ss a b => Push (map to_stream ss) a b
    | LPushBad ss => PushBad (map to_stream ss)
    | LBegin ss => Begin (map to_stream ss)
    | LMore k ss => More k (map to_stream ss)
    | LFlush k a b => Flush k a b
    | LEnd k a b => End k a b
    | LAbort k => Abort k
    | LReset => CacheReset
    | LEvict k => CacheEvict k
    end.
  Definition lrun (h : list laction) : state := run init (map to_action h).
End FP.

(* ------------------------------------------------------------------ oracle on the observed series rows of a history *)
Record hdoc := {
  hd_id : Z;
  hd_labels : list (Z * list label);     (* fingerprint id -> sanitized labels of the streams with that fingerprint *)
  hd_rows : list (Z * string)            (* every series row that reached the client: fingerprint id, labels text *)
}.
Fixpoint lookup_labels (f : Z) (t : list (Z * list label)) : option (list label) :=
  match t with
  | [] => None
  | (k, v) :: r => if k =? f then Some v else lookup_labels f r
  end.
Definition row_doc_ok (t : list (Z * list label)) (r : Z * string) : bool :=
  match lookup_labels (fst r) t, json_decode (snd r) with
  | Some L, Some L' => same_labels L' L
  | _, _ => false
  end.
Definition hd_bad (c : hdoc) : bool := negb (forallb (row_doc_ok (hd_labels c)) (hd_rows c)).
Definition hdreport (cs : list hdoc) : list (list Z) := [map hd_id (filter hd_bad cs)].
