(* TRUSTED: a denotational semantics of the ClickHouse subset that qryn's LogQL log-query plans
   use, over the object tree of Sql.v. There is no ClickHouse to run against, so this file is
   the meaning the C07 theorems are relative to; it is kept small and every clause says what it
   reads from the ClickHouse documentation. `None` always means "outside the modelled subset or
   a ClickHouse exception" - never a silent default.

   Shape of the model
   * a value is an integer (all Int/UInt/Date columns; a Date is its day number), a string, a
     finite float (Q), a Map(String,String) or NULL;
   * a row is an association list column-name -> value; a table is a list of rows; a database
     maps a table name to its rows (Distributed tables = their local table: one logical table);
   * a WithRef carries its query (Sql.WRef alias q), so the WITH list of a Select is not
     consulted: `FROM alias`, `IN (alias)`, `JOIN alias` evaluate the query the reference holds;
   * PREWHERE is WHERE (documented: "PREWHERE is an optimisation ... same semantics");
   * a SELECT alias is visible in WHERE / PREWHERE / GROUP BY / HAVING / ORDER BY and in the other SELECT
     expressions, and it WINS over a source column of the same name (prefer_column_name_to_alias = 0, the
     default): every source row is extended with the alias bindings (two passes: an alias may use aliases
     that use source columns only; a binding whose expression does not evaluate on the row is left out);
   * GROUP BY groups by the key tuple, aggregates see the rows of their group, non-aggregate
     expressions see the first row of the group;
   * ORDER BY is a stable sort and `ANY LEFT JOIN` takes the first matching right row, both AFTER
     the rows went through `tie`, an arbitrary reordering supplied by the caller: ClickHouse
     promises no order among ties and no particular ANY row, so theorems quantify over `tie`;
   * width of bitShiftLeft (documentation example: bitShiftLeft(99, 2) = 140): the result has the
     type of the shifted argument. SqlBitSetAnd widens each condition with toUInt64 (fix in /repo:
     a bare UInt8 condition lost bit i >= 8), so bit i >= 64 is lost.
   Executable definitions only. *)
From Coq Require Import List ZArith NArith QArith String Ascii Bool.
From Qryn Require Import lib.Strs model.Sql.
From Qryn Require model.LogqlTemplate.      (* format_eval: ClickHouse format(pattern, s0, s1, ...) *)
Import ListNotations.
Open Scope string_scope.

Inductive value :=
 | VInt (z : Z) | VStr (s : string) | VNum (q : Q) | VMap (m : list (string * string)) | VNull.
Definition row := list (string * value).
Definition table := list row.
Definition database := string -> option table.

Definition vbool (b : bool) : value := VInt (if b then 1 else 0)%Z.

Fixpoint lookup (k : string) (r : row) : option value :=
  match r with
  | [] => None
  | kv :: r' => if String.eqb k (fst kv) then Some (snd kv) else lookup k r'
  end.

(* a Map subscript m['k'] and JSONExtractString(doc, 'k') of an absent key are both '' *)
Fixpoint label_of (m : list (string * string)) (k : string) : string :=
  match m with
  | [] => ""
  | kv :: m' => if String.eqb (fst kv) k then snd kv else label_of m' k
  end.

(* ---------- option plumbing (f is a parameter of the fix: callers recurse through it) ---------- *)
Section OPT.
  Context {A B : Type} (f : A -> option B).
  Fixpoint map_opt (l : list A) : option (list B) :=
    match l with
    | [] => Some []
    | a :: r => match f a, map_opt r with Some b, Some bs => Some (b :: bs) | _, _ => None end
    end.
End OPT.
Section OPTF.
  Context {A : Type} (p : A -> option bool).
  Fixpoint filter_opt (l : list A) : option (list A) :=
    match l with
    | [] => Some []
    | a :: r => match p a, filter_opt r with
                | Some b, Some rs => Some (if b then a :: rs else rs)
                | _, _ => None end
    end.
  (* first element satisfying p: Some None = no such element *)
  Fixpoint find_opt (l : list A) : option (option A) :=
    match l with
    | [] => Some None
    | a :: r => match p a with Some true => Some (Some a) | Some false => find_opt r | None => None end
    end.
End OPTF.

(* ---------- LIKE patterns: % any run, _ any one byte, \% \_ \\ literal, a backslash before
   anything else is itself (ClickHouse string-search-functions, "like") ---------- *)
Inductive litem := LAny | LOne | LCh (c : ascii).
Fixpoint like_parse (p : string) : list litem :=
  match p with
  | EmptyString => []
  | String c r =>
    if Ascii.eqb c "%" then LAny :: like_parse r
    else if Ascii.eqb c "_" then LOne :: like_parse r
    else if Ascii.eqb c "\" then
      match r with
      | String d r2 => if Ascii.eqb d "%" || Ascii.eqb d "_" || Ascii.eqb d "\" then LCh d :: like_parse r2
                       else LCh c :: like_parse r
      | EmptyString => [LCh c]
      end
    else LCh c :: like_parse r
  end.
Fixpoint lmatch (p : list litem) (s : string) {struct p} : bool :=
  match p with
  | [] => match s with EmptyString => true | _ => false end
  | LCh c :: p' => match s with String d s' => Ascii.eqb c d && lmatch p' s' | EmptyString => false end
  | LOne :: p' => match s with String _ s' => lmatch p' s' | EmptyString => false end
  | LAny :: p' =>
    (fix any (s : string) : bool :=
       lmatch p' s || match s with String _ s' => any s' | EmptyString => false end) s
  end.
Definition like_sem (pat s : string) : bool := lmatch (like_parse pat) s.
(* ilike: case-insensitive LIKE; modelled for ASCII letters only *)
Definition ilike_sem (pat s : string) : bool := lmatch (like_parse (to_lower pat)) (to_lower s).

(* ---------- scalar operators ---------- *)
Definition num_of (v : value) : option Q :=
  match v with VInt z => Some (inject_Z z) | VNum q => Some q | _ => None end.
Definition cmp_holds (op : lop) (c : comparison) : option bool :=
  match op with
  | OEq => Some (match c with Datatypes.Eq => true | _ => false end)
  | ONeq => Some (match c with Datatypes.Eq => false | _ => true end)
  | OLt => Some (match c with Datatypes.Lt => true | _ => false end)
  | OLe => Some (match c with Datatypes.Gt => false | _ => true end)
  | OGt => Some (match c with Datatypes.Gt => true | _ => false end)
  | OGe => Some (match c with Datatypes.Lt => false | _ => true end)
  | _ => None
  end.
(* comparison: NULL if an operand is NULL; strings compare with == and != only; numbers numerically;
   anything else is a type error *)
Definition vcmp (op : lop) (a b : value) : option value :=
  match a, b with
  | VNull, _ | _, VNull => Some VNull
  | VInt x, VInt y => option_map vbool (cmp_holds op (Z.compare x y))
  | VStr x, VStr y =>
    match op with
    | OEq => Some (vbool (String.eqb x y))
    | ONeq => Some (vbool (negb (String.eqb x y)))
    | _ => None
    end
  | _, _ => match num_of a, num_of b with
            | Some x, Some y => option_map vbool (cmp_holds op (Qcompare x y))
            | _, _ => None end
  end.

(* and / or over UInt8 and NULL ("and": 0 if any argument is 0, else NULL if any is NULL, else 1;
   "or": 1 if any argument is non-zero, else NULL if any is NULL, else 0) *)
Inductive tri := T1 | T0 | TN.
Definition tri_of (v : value) : option tri :=
  match v with VInt z => Some (if Z.eqb z 0 then T0 else T1) | VNull => Some TN | _ => None end.
Definition tri_val (t : tri) : value := match t with T1 => VInt 1 | T0 => VInt 0 | TN => VNull end.
Definition tri_and (a b : tri) : tri :=
  match a, b with T0, _ | _, T0 => T0 | TN, _ | _, TN => TN | T1, T1 => T1 end.
Definition tri_or (a b : tri) : tri :=
  match a, b with T1, _ | _, T1 => T1 | TN, _ | _, TN => TN | T0, T0 => T0 end.
Definition vlogic (is_and : bool) (vs : list value) : option value :=
  match vs with
  | [] => None                                  (* "()" is a syntax error *)
  | _ => match map_opt tri_of vs with
         | Some ts => Some (tri_val (fold_left (if is_and then tri_and else tri_or) ts (if is_and then T1 else T0)))
         | None => None end
  end.
(* a WHERE / HAVING / ON condition keeps a row iff it is a non-zero number; NULL drops it *)
Definition truthy (o : option value) : option bool :=
  match o with
  | Some (VInt z) => Some (negb (Z.eqb z 0))
  | Some VNull => Some false
  | _ => None
  end.

Definition value_eqb (a b : value) : bool :=
  match a, b with
  | VInt x, VInt y => Z.eqb x y
  | VStr x, VStr y => String.eqb x y
  | VNum x, VNum y => Qeq_bool x y
  | VNull, VNull => true
  | _, _ => false
  end.
Fixpoint values_eqb (a b : list value) : bool :=
  match a, b with
  | [], [] => true
  | x :: a', y :: b' => value_eqb x y && values_eqb a' b'
  | _, _ => false
  end.

(* bitShiftLeft(toUInt64(<condition>), i): the result stays UInt64 *)
Definition shl64 (b i : N) : N := N.modulo (N.shiftl b i) 18446744073709551616.

(* the one raw fragment of the log plans that is interpreted: the Map made from the JSON document
   time_series.labels (the model stores the document as its key/value list) *)
Definition labels_map_raw : string :=
  "mapFromArrays(arrayMap(x -> x.1, JSONExtractKeysAndValues(time_series.labels, 'String') as rawlbls), arrayMap(x -> x.2, rawlbls))".

(* the raw fragment ParserPlanner installs as the fingerprint of a re-labelled row; interpreted through the
   hash oracle applied to the value of `labels` *)
Definition fp_labels_raw : string := "cityHash64(arraySort(arrayZip(mapKeys(labels),mapValues(labels))))".

(* mapUpdate(m1, m2): m1 with the pairs of m2 written over it (new keys appended) *)
Fixpoint map_set (m : list (string * string)) (k v : string) : list (string * string) :=
  match m with
  | [] => [(k, v)]
  | kv :: r => if String.eqb (fst kv) k then (k, v) :: r else kv :: map_set r k v
  end.
Definition map_update (m1 m2 : list (string * string)) : list (string * string) :=
  fold_left (fun m kv => map_set m (fst kv) (snd kv)) m2 m1.
(* mapFilter((k,v) -> v != '', m): the pairs of a map whose value is not '' *)
Definition nonempty_kv (kv : string * string) : bool := negb (String.eqb (snd kv) "").

(* ---------- the extraction oracle of the regexp stage ----------
   re_groups pattern haystack = arrayMap(x -> x[1], extractAllGroupsHorizontal(haystack, pattern)):
   one string per capture group of the pattern (numbered by opening parenthesis), the text the group captured in the FIRST
   match of the pattern in the haystack, as LogQL defines the stage (it was the last match, x[length(x)], before the repair
   regexp-last-match); '' when there is no match or the group took no part in it (a subscript outside the bounds of an
   array is the default value); None = ClickHouse exception (the pattern is not RE2, or has no capture group).
   The oracle is a type class with the default instance no_groups (declared below the evaluator), so that the statements
   of the other properties that use this evaluator - none of them reads a regexp stage - keep their four oracles; the
   C07 theorems quantify over every instance. *)
Class ReGroups := re_groups : string -> string -> option (list string).
(* mapFromArrays(arrayFilter((x,y) -> x != '' AND y != '', names, vals), arrayFilter((x,y) -> x != '' AND y != '', vals, names)):
   the pairs whose name and value are both non-empty, in order *)
Definition re_pair_ok (kv : string * string) : bool := negb (String.eqb (fst kv) "") && negb (String.eqb (snd kv) "").
Definition re_pairs (names vals : list string) : list (string * string) := filter re_pair_ok (combine names vals).
(* the text of regexMap around the label names and the expression, with the id 0 the model draws under WithId *)
Definition regex_map_t1 : string := "mapFromArrays(arrayFilter( (x,y) -> x != '' AND y != '',  [".
Definition regex_map_t2 : string := "] as re_lbls_0,  arrayMap(x -> x[1], extractAllGroupsHorizontal(string, ".
Definition regex_map_t3 : string := ")) as re_vals_0),arrayFilter((x,y) -> x != '' AND y != '', re_vals_0, re_lbls_0))".

Fixpoint strs_eqb (a b : list string) : bool :=
  match a, b with
  | [], [] => true
  | x :: a', y :: b' => String.eqb x y && strs_eqb a' b'
  | _, _ => false
  end.
(* string literals of a list of objects *)
Fixpoint str_lits (l : list expr) : option (list string) :=
  match l with
  | [] => Some []
  | StrV s :: r => match str_lits r with Some ss => Some (s :: ss) | None => None end
  | _ => None
  end.
(* the parts of a json path: a string literal is a key, a bare number (Raw digits, printed for an [n] part) an array index;
   the oracle json_get receives an index part as the byte 0 followed by the digits and a key that begins with the byte 0
   with that byte doubled, as LogqlPlan.json_part reads them *)
Definition key_lit (s : string) : string :=
  match s with String c _ => if Ascii.eqb c "000"%char then String "000"%char s else s | EmptyString => s end.
Fixpoint path_lits (l : list expr) : option (list string) :=
  match l with
  | [] => Some []
  | StrV s :: r => match path_lits r with Some ss => Some (key_lit s :: ss) | None => None end
  | Raw d :: r => match path_lits r with Some ss => Some (String "000"%char d :: ss) | None => None end
  | _ => None
  end.
(* mapDropFilter's lambda  (k,v) -> k!='a' and (k, v)!=('b', 'x') ... : the pairs it removes *)
Fixpoint drop_specs (cl : list expr) : option (list (string * option string)) :=
  match cl with
  | [] => Some []
  | Sep sep parts :: r =>
    let one := match parts with
               | [Raw t; StrV k] => if String.eqb sep "" && String.eqb t "k!=" then Some (k, None) else None
               | [Raw t; StrV k; Raw t2; StrV v; Raw t3] =>
                 if String.eqb sep "" && String.eqb t "(k, v)!=(" && String.eqb t2 ", " && String.eqb t3 ")" then Some (k, Some v) else None
               | _ => None end in
    match one, drop_specs r with Some x, Some xs => Some (x :: xs) | _, _ => None end
  | _ => None
  end.
Definition drop_keeps (specs : list (string * option string)) (kv : string * string) : bool :=
  forallb (fun sp => match snd sp with
                     | None => negb (String.eqb (fst kv) (fst sp))
                     | Some v => negb (String.eqb (fst kv) (fst sp) && String.eqb (snd kv) v) end) specs.

(* ---------- ORDER BY: stable insertion sort on precomputed keys ---------- *)
Section SORT.
  Context {A : Type} (leb : A -> A -> bool).
  Fixpoint insert_sorted (x : A) (l : list A) : list A :=
    match l with
    | [] => [x]
    | y :: r => if leb x y then x :: l else y :: insert_sorted x r
    end.
  (* foldr keeps equal keys in input order: x goes before the first y with x <= y *)
  Fixpoint isort (l : list A) : list A :=
    match l with [] => [] | x :: r => insert_sorted x (isort r) end.
End SORT.
(* keys compare lexicographically; each key ascending or descending; only numbers are ordered *)
Fixpoint keys_leb (dirs : list bool) (a b : list value) : bool :=
  match dirs, a, b with
  | asc :: ds, VInt x :: a', VInt y :: b' =>
    match Z.compare x y with
    | Datatypes.Eq => keys_leb ds a' b'
    | Datatypes.Lt => asc
    | Datatypes.Gt => negb asc
    end
  | _, _, _ => true
  end.
Definition all_int (vs : list value) : bool := forallb (fun v => match v with VInt _ => true | _ => false end) vs.

Section EVAL.
  Context {RG : ReGroups}.                           (* oracle: the capture groups of the last match (regexp stage) *)
  Variable re_match : string -> string -> bool.      (* oracle: RE2 match(haystack, pattern) *)
  Variable parse_float : string -> option Q.         (* oracle: toFloat64OrNull / a float literal; finite values only *)
  (* oracle: if(JSONType(doc, path...) == 'String', JSONExtractString(doc, path...), JSONExtractRaw(doc, path...)) *)
  Variable json_get : string -> list string -> string.
  Variable hash_labels : list (string * string) -> Z.  (* oracle: cityHash64 of the sorted pairs of a label map *)
  Variable tie : forall A : Type, list A -> list A.  (* arbitrary reordering (a permutation) *)
  Variable db : database.

  Definition qualify (a : string) (t : table) : table :=
    map (fun r => (r ++ map (fun kv => ((a ++ "." ++ fst kv)%string, snd kv)) r)%list) t.

  Definition col_name (e : expr) : string :=
    match e with Col _ a => a | Id s => s | _ => "" end.
  Definition col_body (e : expr) : expr := match e with Col x _ => x | _ => e end.

  Section SEL.
    Variable etab : expr -> option table.                 (* a FROM / JOIN operand *)
    Variable ev : expr -> list row -> option value.       (* an expression over a group of rows *)

    Definition alias_binds (cols : list expr) (env : row) : row :=
      flat_map (fun c => match c with
                         | Col x a => if String.eqb a "" then []
                                      else match ev x [env] with Some v => [(a, v)] | None => [] end
                         | _ => [] end) cols.
    Definition arow (cols : list expr) (r : row) : row :=
      (alias_binds cols (alias_binds cols r ++ r) ++ r)%list.

    Definition cond_ok (c : option expr) (r : row) : option bool :=
      match c with None => Some true | Some e => truthy (ev e [r]) end.

    (* [GLOBAL] ANY LEFT JOIN: every left row once, with the first right row (in `tie` order) on
       which ON holds; without partner the right columns are NULL here (ClickHouse: type defaults) *)
    Definition join_names (tbl : expr) : list string :=
      match tbl with
      | WRef a q | Col (WRef _ q) a =>
        let ns := map col_name (s_cols q) in (ns ++ map (fun n => (a ++ "." ++ n)%string) ns)%list
      | _ => []
      end.
    Definition join1 (left : option table) (j : string * expr * option expr) : option table :=
      match left, j with
      | Some lt, (tp, tbl, Some on) =>
        if String.eqb tp "ANY LEFT " || String.eqb tp "GLOBAL ANY LEFT " then
          match etab tbl with
          | Some rt =>
            map_opt (fun l => match find_opt (fun r => truthy (ev on [(l ++ r)%list])) (tie _ rt) with
                              | Some (Some r) => Some (l ++ r)%list
                              | Some None => Some (l ++ map (fun n => (n, VNull)) (join_names tbl))%list
                              | None => None end) lt
          | None => None end
        else None
      | _, _ => None
      end.

    (* groups in order of first occurrence of their key *)
    Fixpoint nodup_keys (ks : list (list value)) : list (list value) :=
      match ks with
      | [] => []
      | k :: r => k :: filter (fun k' => negb (values_eqb k k')) (nodup_keys r)
      end.
    Definition group_rows (keys : list expr) (rows : table) : option (list (list row)) :=
      match map_opt (fun r => match map_opt (fun k => ev k [r]) keys with
                              | Some ks => Some (ks, r) | None => None end) rows with
      | Some krs =>
        Some (map (fun k => map snd (filter (fun kr => values_eqb (fst kr) k) krs)) (nodup_keys (map fst krs)))
      | None => None
      end.

    Definition order_groups (ords : list expr) (gs : list (list row)) : option (list (list row)) :=
      match ords with
      | [] => Some gs
      | _ =>
        let dirs := map (fun o => match o with Ord _ asc => asc | _ => true end) ords in
        match map_opt (fun g => match map_opt (fun o => match o with Ord e _ => ev e g | _ => None end) ords with
                                | Some ks => if all_int ks then Some (ks, g) else None
                                | None => None end) (tie _ gs) with
        | Some kgs => Some (map snd (isort (fun a b => keys_leb dirs (fst a) (fst b)) kgs))
        | None => None
        end
      end.

    Definition esel_gen (q : select) : option table :=
      if s_distinct q then None else
      match s_offset q, s_unions q with
      | None, [] =>
        let src := match s_from q with None => Some [[]] | Some f => etab f end in
        match fold_left join1 (s_joins q) src with
        | None => None
        | Some rows00 =>
          let rows0 := map (arow (s_cols q)) rows00 in
          match filter_opt (fun r => match cond_ok (s_prewhere q) r, cond_ok (s_where q) r with
                                     | Some a, Some b => Some (a && b) | _, _ => None end) rows0 with
          | None => None
          | Some rows1 =>
            let groups :=
              match s_groupby q with
              | [] => match s_having q with None => Some (map (fun r => [r]) rows1) | Some _ => None end
              | keys => match group_rows keys rows1 with
                        | Some gs => filter_opt (fun g => match s_having q with
                                                          | None => Some true
                                                          | Some h => truthy (ev h g) end) gs
                        | None => None end
              end in
            match groups with
            | None => None
            | Some gs =>
              match order_groups (s_orderby q) gs with
              | None => None
              | Some sorted =>
                (* LIMIT without ORDER BY keeps ARBITRARY rows: whatever comes first after `tie` *)
                let limited := match s_limit q with
                               | None => Some sorted
                               | Some (IntV n) =>
                                 Some (firstn (Z.to_nat n) (match s_orderby q with [] => tie _ sorted | _ => sorted end))
                               | Some _ => None end in
                match limited with
                | None => None
                | Some out =>
                  map_opt (fun g => map_opt (fun c => match ev (col_body c) g with
                                                      | Some v => Some (col_name c, v) | None => None end)
                                            (s_cols q)) out
                end
              end
            end
          end
        end
      | _, _ => None
      end.
  End SEL.

  (* the first column of a subquery result, for IN (subquery) *)
  Definition first_col (t : table) : option (list value) :=
    map_opt (fun r => match r with kv :: _ => Some (snd kv) | [] => None end) t.

  Definition str_fn2 (f : string -> string -> bool) (a b : option value) : option value :=
    match a, b with
    | Some (VStr x), Some (VStr y) => Some (vbool (f x y))
    | _, _ => None
    end.

  Fixpoint ev (e : expr) (g : list row) {struct e} : option value :=
    match e with
    | Raw s => if String.eqb s labels_map_raw then
                 match g with r :: _ => match lookup "time_series.labels" r with
                                        | Some (VMap m) => Some (VMap m) | _ => None end
                            | [] => None end
               else if String.eqb s fp_labels_raw then
                 match g with r :: _ => match lookup "labels" r with
                                        | Some (VMap m) => Some (VInt (hash_labels m)) | _ => None end
                            | [] => None end
               else None
    | Id s => match g with r :: _ => lookup s r | [] => None end
    | QRaw s => Some (VStr s)
    | Idx m k => match ev m g, ev k g with
                 | Some (VMap kvs), Some (VStr key) => Some (VStr (label_of kvs key))
                 | _, _ => None end
    | StrV s => Some (VStr s)
    | IntV z => Some (VInt z)
    | FloatV t => option_map VNum (parse_float t)
    | BoolV b => Some (vbool b)
    | DateV d => Some (VInt d)
    | LOp op cl =>
      match op with
      | OAnd => match map_opt (fun c => ev c g) cl with Some vs => vlogic true vs | None => None end
      | OOr => match map_opt (fun c => ev c g) cl with Some vs => vlogic false vs | None => None end
      | OOther _ => None
      | _ => match cl with
             | [a; b] => match ev a g, ev b g with Some x, Some y => vcmp op x y | _, _ => None end
             | _ => None end
      end
    | Not x => match ev x g with
               | Some v => match tri_of v with
                           | Some T1 => Some (VInt 0) | Some T0 => Some (VInt 1) | Some TN => Some VNull
                           | None => None end
               | None => None end
    | NotNull x => match ev x g with
                   | Some VNull => Some (VInt 0) | Some _ => Some (VInt 1) | None => None end
    | In l rs =>
      match ev l g with
      | None => None
      | Some lv =>
        let vals := match rs with
                    | [WRef _ q] | [SubQ q] =>
                      match esel_gen etab ev q with Some t => first_col t | None => None end
                    | _ => map_opt (fun r => ev r g) rs
                    end in
        match lv, vals with
        | VNull, Some _ => Some VNull
        | _, Some vs => Some (vbool (existsb (value_eqb lv) vs))
        | _, None => None
        end
      end
    | Fn name args =>
      match args with
      | [a; b] =>
        if String.eqb name "match" then str_fn2 (fun s p => re_match s p) (ev a g) (ev b g)
        else if String.eqb name "like" then str_fn2 (fun s p => like_sem p s) (ev a g) (ev b g)
        else if String.eqb name "notLike" then str_fn2 (fun s p => negb (like_sem p s)) (ev a g) (ev b g)
        else if String.eqb name "ilike" then str_fn2 (fun s p => ilike_sem p s) (ev a g) (ev b g)
        else if String.eqb name "notILike" then str_fn2 (fun s p => negb (ilike_sem p s)) (ev a g) (ev b g)
        else if String.eqb name "JSONExtractString" then
          match ev a g, ev b g with
          | Some (VMap kvs), Some (VStr key) => Some (VStr (label_of kvs key))
          | _, _ => None end
        else if String.eqb name "mapUpdate" then
          match ev a g, ev b g with
          | Some (VMap m1), Some (VMap m2) => Some (VMap (map_update m1 m2))
          | _, _ => None end
        else if String.eqb name "mapFilter" then
          (* mapFilter((k,v) -> <mapDropFilter clauses>, m) *)
          match a, ev b g with
          | Sep sep [Raw t; Sep sep2 cl], Some (VMap m) =>
            if String.eqb sep "" && String.eqb t "(k,v) -> " && String.eqb sep2 " and " then
              match drop_specs cl with Some sp => Some (VMap (filter (drop_keeps sp) m)) | None => None end
            else None
          | _, _ => None end
        else None
      | [a; b; c0] =>
        (* sqlJsonParser.path2Sql: if(JSONType(doc, p1,...,pn) == 'String', JSONExtractString(doc, p1,...,pn), JSONExtractRaw(doc, p1,...,pn)):
           the string at the path, or the raw text of any other value, '' when the path is missing. The SAME path and document
           in the three calls (since the repair json-path-alias; the text was `p1,...,pn as jp_N` with jp_N in the other two
           calls, where the alias names the last argument only - a reading this clause no longer has to paper over) *)
        if String.eqb name "if" then
          match a, b, c0 with
          | Sep sep [Fn jt [doc; Sep sep3 path]; StrV t], Fn f1 [doc1; Sep sep4 path1], Fn f2 [doc2; Sep sep5 path2] =>
            if String.eqb sep " == " && String.eqb jt "JSONType" && String.eqb sep3 "," && String.eqb sep4 "," && String.eqb sep5 ","
               && String.eqb t "String" && String.eqb f1 "JSONExtractString" && String.eqb f2 "JSONExtractRaw" then
              match ev doc g, path_lits path, ev doc1 g, path_lits path1, ev doc2 g, path_lits path2 with
              | Some (VStr s), Some p, Some (VStr s1), Some p1, Some (VStr s2), Some p2 =>
                if String.eqb s s1 && String.eqb s s2 && strs_eqb p p1 && strs_eqb p p2 then Some (VStr (json_get s p)) else None
              | _, _, _, _, _, _ => None end
            else None
          | _, _, _ => None end
        else None
      | [a] =>
        if String.eqb name "toFloat64OrNull" then
          match ev a g with
          | Some (VStr s) => Some (match parse_float s with Some q => VNum q | None => VNull end)
          | _ => None end
        else if String.eqb name "toFloat64" then
          match ev a g with Some v => option_map VNum (num_of v) | None => None end
        else None
      | _ => None
      end
    | BitSetAnd cl =>
      (* groupBitOr(bitShiftLeft(toUInt64(c0), 0) + bitShiftLeft(toUInt64(c1), 1) + ...) over the rows of the group;
         the sum of UInt64 terms with disjoint bits does not wrap *)
      match map_opt (fun r =>
              match map_opt (fun c => truthy (ev c [r])) cl with
              | Some bs => Some (fst (fold_left (fun acc b => (fst acc + shl64 (if b : bool then 1 else 0) (snd acc), snd acc + 1)%N)
                                                bs (0%N, 0%N)))
              | None => None end) g with
      | Some masks => Some (VInt (Z.of_N (fold_left N.lor masks 0%N)))
      | None => None
      end
    | WithId f => ev (f 0%N) g                 (* the id only names an alias inside the object *)
    | Sep sep parts =>
      (* sqlJsonParser: mapFilter((k,v) -> v != '', mapFromArrays(['l1',...], [<path2Sql>,...])): an extraction that yields ''
         (missing path, not JSON) writes no label; before the repair of json-missing-path-overwrites the text was the bare
         mapFromArrays(...) and every parameter label was written *)
      match parts with
      | [Raw t1; Sep s1 ls; Raw t2; Sep s2 ps; Raw t3] =>
        if String.eqb sep "" && String.eqb t1 "mapFromArrays([" && String.eqb s1 "," && String.eqb t2 "], ["
           && String.eqb s2 "," && String.eqb t3 "])" then
          match str_lits ls, map_opt (fun p => match ev p g with Some (VStr v) => Some v | _ => None end) ps with
          | Some ks, Some vs => if Nat.eqb (List.length ks) (List.length vs) then Some (VMap (combine ks vs)) else None
          | _, _ => None end
        else if String.eqb sep "" && String.eqb t1 "mapFilter((k,v) -> v != '', mapFromArrays([" && String.eqb s1 "," && String.eqb t2 "], ["
           && String.eqb s2 "," && String.eqb t3 "]))" then
          match str_lits ls, map_opt (fun p => match ev p g with Some (VStr v) => Some v | _ => None end) ps with
          | Some ks, Some vs => if Nat.eqb (List.length ks) (List.length vs) then Some (VMap (filter nonempty_kv (combine ks vs))) else None
          | _, _ => None end
        else None
      (* regexMap: the map of the non-empty (name, last captured text) pairs; arrayFilter over two arrays of different
         sizes is an exception *)
      | [Raw t1; Sep s1 ls; Raw t2; StrV re; Raw t3] =>
        if String.eqb sep "" && String.eqb t1 regex_map_t1 && String.eqb s1 "," && String.eqb t2 regex_map_t2
           && String.eqb t3 regex_map_t3 then
          match str_lits ls, g with
          | Some names, r :: _ =>
            match lookup "string" r with
            | Some (VStr line) =>
              match re_groups re line with
              | Some vs => if Nat.eqb (List.length vs) (List.length names) then Some (VMap (re_pairs names vs)) else None
              | None => None end
            | _ => None end
          | _, _ => None end
        else None
      (* LineFormatPlanner: format('<pattern>', labels['a'], ...) - "formats a pattern string with the strings listed in the
         arguments; the pattern can contain replacement fields surrounded by curly braces {}; anything not contained in braces
         is literal text, copied unchanged; a brace character in the literal text is escaped by doubling: {{ and }}; a field
         name is a number (starting from zero)" (model/LogqlTemplate.v format_eval; None = an exception) *)
      | [Raw t1; StrV f; Raw t2; Sep s2 args; Raw t3] =>
        if String.eqb sep "" && String.eqb t1 "format(" && String.eqb t2 ", " && String.eqb s2 ", " && String.eqb t3 ")" then
          match map_opt (fun a => match ev a g with Some (VStr v) => Some v | _ => None end) args with
          | Some vs => option_map VStr (LogqlTemplate.format_eval f vs)
          | None => None end
        else None
      | _ => None
      end
    | WRef _ _ | SubQ _ | Col _ _ | Ord _ _ | CtxParam _ _ => None
    end
  with etab (e : expr) {struct e} : option table :=
    match e with
    | Id name => option_map (qualify name) (db name)
    | WRef a q => option_map (qualify a) (esel_gen etab ev q)
    | Col x a =>
      match x with
      | Id name => option_map (qualify a) (db name)
      | WRef _ q => option_map (qualify a) (esel_gen etab ev q)
      | _ => None
      end
    | _ => None
    end.

  Definition esel (q : select) : option table := esel_gen etab ev q.
End EVAL.

(* what the reader executes: the rows of the outermost SELECT *)
Definition eval {RG : ReGroups} := @esel RG.

(* the default instance: no regexp extraction is available (every regexMap is outside the subset) *)
#[global] Instance no_groups : ReGroups | 100 := fun _ _ => None.
