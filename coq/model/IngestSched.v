(* C01, "every request eventually gets exactly one answer while the database keeps answering", lifted from one
   worker to the whole system (workers + promise store + HTTP handlers with retries).
   Executable definitions only:
   - next_act db g: a scheduler that picks one enabled step of the system that is NOT an arrival of new work
     (fetch loop of a worker: PlanFlush/timer, dial, swapBuffers, call of Do; the database returning from a Do
     with the outcome chosen by the policy `db`; doParse receiving an item; a doPush goroutine starting an attempt
     or returning from Get(); doParse answering).  The policy may fail every INSERT: the retries run out.
   - mu g: a variant (natural number) that every step chosen by next_act decreases.
   - run_sched: next_act iterated.
   The theorems are in proofs/IngestLiveAll.v / props/C01.v. *)
From Coq Require Import List NArith ZArith Bool.
From Qryn Require Import model.Ingest model.PushHandler.
Import ListNotations.

(* ---------------------------------------------------------------- which traces: no Stop, every sub-request routed *)
Definition opt_some {A} (o : option A) : bool := match o with Some _ => true | None => false end.

(* the route wired a service for the sub-request: a worker of that round-robin group and kind exists, and
   ProcessRequest does not panic on the request (a panic is the death of the process, not a trace) *)
Definition routed (sig : list (kind * nat)) (g : nat) (k : kind) (r : req) : bool :=
  existsb (fun c => Nat.eqb (snd c) g && kind_eqb (fst c) k) sig && opt_some (eff k r).
Definition item_routed (sig : list (kind * nat)) (it : item) : bool :=
  match it with
  | IChunk c => forallb (fun x => routed sig (fst (fst (fst x))) (snd (fst (fst x))) (snd (fst x))) c
  | IError => true
  end.
Definition sig_of_cfg (cfg : list (kind * nat * Z)) : list (kind * nat) := map fst cfg.
Definition sig_of (l : list svc) : list (kind * nat) := map (fun sv => (kd sv, grp sv)) l.
(* the traces the liveness statement is about: no worker is stopped (Stop is only called at shutdown: the promises
   a stopped worker holds are never completed), direct requests do not panic, pushes are routed *)
Definition act_live (sig : list (kind * nat)) (a : gact) : bool :=
  match a with
  | GSvc _ SStop => false
  | GEnvReq _ k _ r _ => opt_some (eff k r)
  | GNewHandler items => forallb (item_routed sig) items
  | _ => true
  end.
(* steps that bring no new work: everything but direct requests and new pushes *)
Definition internal (a : gact) : bool :=
  match a with
  | GEnvReq _ _ _ _ _ | GNewHandler _ => false
  | GSvc _ SStop | GSvc _ SPingFail | GSvc _ (SDial false) => false
  | _ => true
  end.

(* ---------------------------------------------------------------- the scheduler *)
(* next step of one worker's fetch loop / of the database on its behalf; db = outcome of the Do that is out *)
Definition svc_next (db : bool) (sv : svc) : option sact :=
  match inflight sv with
  | Some po => Some (if p_sent po then SDoReturn db else SSend)
  | None =>
      if is_nil (results sv) then None
      else if negb (planned sv) then Some SPlan            (* the flush interval expires *)
      else if negb (client sv) then Some (SDial true)      (* the database accepts the connection *)
      else Some SSwap
  end.
Fixpoint first_svc (db : nat -> bool) (l : list svc) (s : nat) : option gact :=
  match l with
  | [] => None
  | sv :: t => match svc_next (db s) sv with Some a => Some (GSvc s a) | None => first_svc db t (S s) end
  end.

Fixpoint pick_worker (l : list svc) (i : nat) (g : nat) (k : kind) : option nat :=
  match l with
  | [] => None
  | sv :: t => if Nat.eqb (grp sv) g && kind_eqb (kd sv) k then Some i else pick_worker t (S i) g k
  end.
Definition sub_next (g : gstate) (h i : nat) (sp : subpush) : option gact :=
  match sp_result sp with
  | Some _ => None
  | None =>
      match sp_cur sp with
      | Some _ => Some (GSubGet h i)
      | None => match pick_worker (svcs g) 0 (sp_svc sp) (sp_kind sp) with
                | Some s => Some (GSubReq h i s)
                | None => None
                end
      end
  end.
Fixpoint first_sub (g : gstate) (h i : nat) (l : list subpush) : option gact :=
  match l with
  | [] => None
  | sp :: t => match sub_next g h i sp with Some a => Some a | None => first_sub g h (S i) t end
  end.
Definition handler_next (g : gstate) (h : nat) (hd : handler) : option gact :=
  match h_items hd with
  | _ :: _ => Some (GItem h)
  | [] => match first_sub g h 0 (h_subs hd) with
          | Some a => Some a
          | None => match h_answer hd with None => Some (GAnswer h) | Some _ => None end
          end
  end.
Fixpoint first_handler (g : gstate) (h : nat) (l : list handler) : option gact :=
  match l with
  | [] => None
  | hd :: t => match handler_next g h hd with Some a => Some a | None => first_handler g (S h) t end
  end.

(* db g s = what the database will answer to the Do of worker s that is out in state g *)
Definition next_act (db : gstate -> nat -> bool) (g : gstate) : option gact :=
  match first_svc (db g) (svcs g) 0 with
  | Some a => Some a
  | None => first_handler g 0 (hs g)
  end.

Fixpoint run_sched (db : gstate -> nat -> bool) (fuel : nat) (g : gstate) : gstate * list gact * list event :=
  match fuel with
  | O => (g, [], [])
  | S f =>
      match next_act db g with
      | None => (g, [], [])
      | Some a =>
          match gstep g a with
          | None => (g, [], [])
          | Some (g1, e1) => let '(g2, tr, e2) := run_sched db f g1 in (g2, a :: tr, e1 ++ e2)
          end
      end
  end.

(* ---------------------------------------------------------------- the variant *)
(* steps the fetch loop and the database still owe to the promises the worker holds *)
Definition wm (sv : svc) : nat :=
  (match inflight sv with Some po => if p_sent po then 1 else 2 | None => 0 end) +
  (if is_nil (results sv) then 0
   else (if planned sv then 0 else 1) + (if is_none (inflight sv) then (if client sv then 0 else 1) else 1) + 3).
(* steps a doPush goroutine still owes: two per attempt that is left, one for the Get() it is blocked in *)
Definition sw (att : N) (sp : subpush) : nat :=
  match sp_result sp with
  | Some _ => 0
  | None => 2 * (N.to_nat att - N.to_nat (sp_used sp)) + (match sp_cur sp with Some _ => 1 | None => 0 end)
  end.
Definition iw (att : N) (it : item) : nat :=
  match it with
  | IChunk c => 1 + 6 * list_sum (map (fun x => sw att (mk_sub att x)) c)
  | IError => 1
  end.
Definition hm (att : N) (hd : handler) : nat :=
  list_sum (map (iw att) (h_items hd)) + (match h_answer hd with None => 1 | Some _ => 0 end) +
  6 * list_sum (map (sw att) (h_subs hd)).
Definition mu (g : gstate) : nat :=
  list_sum (map (hm (attempts g)) (hs g)) + list_sum (map wm (svcs g)).

(* ---------------------------------------------------------------- what "everything is finished" means *)
Definition svc_quiet (sv : svc) : bool := is_nil (results sv) && is_none (inflight sv).
Definition handler_done (hd : handler) : bool :=
  is_nil (h_items hd) && opt_some (h_answer hd) && forallb (fun sp => opt_some (sp_result sp)) (h_subs hd).
Definition all_done (g : gstate) : bool := forallb svc_quiet (svcs g) && forallb handler_done (hs g).

(* the Do outcomes of a schedule are those of the policy *)
Fixpoint follows (db : gstate -> nat -> bool) (g : gstate) (tr : list gact) : bool :=
  match tr with
  | [] => true
  | a :: t =>
      (match a with GSvc s (SDoReturn ok) => Bool.eqb ok (db g s) | _ => true end) &&
      match gstep g a with Some (g', _) => follows db g' t | None => true end
  end.
