(* Transcription of reader/prof/transpiler/planner_selector.go: StreamSelectorPlanner.Process (prof_selector_abs),
   processIndexed (prof_selector), acceptsAbsent, getMatchers, getMatcherClause, getArrayExists.  A Pyroscope label selector (list of
   name/op/value with the value already unquoted by parser.Str.Unquote) becomes the query that
   selects fingerprints from profiles_series_gin.  Executable definitions only. *)
From Coq Require Import List ZArith NArith String Ascii Bool.
From Qryn Require Import lib.Strs lib.CivilDate model.Sql model.SqlRender model.Logql model.LogqlPlan model.PromSel.
Import ListNotations.
Open Scope string_scope.

(* parser.Selector after Unquote; the operator alphabet is that of the lexer: = != =~ !~ *)
Record selector := { sl_name : string; sl_op : mop; sl_val : string }.

(* the pseudo labels: switch selector.Name *)
Inductive pseudo := PName | PPeriodType | PPeriodUnit | PSampleType | PSampleUnit | PProfileType | PServiceName.
Definition pseudo_of (name : string) : option pseudo :=
  if String.eqb name "__name__" then Some PName
  else if String.eqb name "__period_type__" then Some PPeriodType
  else if String.eqb name "__period_unit__" then Some PPeriodUnit
  else if String.eqb name "__sample_type__" then Some PSampleType
  else if String.eqb name "__sample_unit__" then Some PSampleUnit
  else if String.eqb name "__profile_type__" then Some PProfileType
  else if String.eqb name "service_name" then Some PServiceName
  else None.

(* getMatcherClause(field, op, val) *)
Definition matcher_clause (field : expr) (op : mop) (v : string) : expr :=
  match op with
  | MEq => Eq field (StrV v)
  | MNeq => Neq field (StrV v)
  | MRe => Eq (Fn "match" [field; StrV v]) (IntV 1)
  | MNre => Neq (Fn "match" [field; StrV v]) (IntV 1)
  end.

(* "splitByChar(':', type_id)[k]" *)
Definition type_part (k : Z) : expr := Idx (Fn "splitByChar" [StrV ":"; Id "type_id"]) (IntV k).
(* getArrayExists: "arrayExists(x -> %s, %s)" *)
Definition array_exists (cond : expr) : expr :=
  Fn "arrayExists" [Sep " -> " [Id "x"; cond]; Id "sample_types_units"].
(* "format('{}:{}:{}:{}:{}', (splitByChar(':', type_id) as _parts)[1], x.1, x.2, _parts[2], _parts[3])" *)
Definition profile_type_field : expr :=
  Fn "format" [StrV "{}:{}:{}:{}:{}";
               Idx (Sep "" [Raw "("; Sep " as " [Fn "splitByChar" [StrV ":"; Id "type_id"]; Id "_parts"]; Raw ")"]) (IntV 1);
               Id "x.1"; Id "x.2"; Idx (Id "_parts") (IntV 2); Idx (Id "_parts") (IntV 3)].

Definition global_clause (p : pseudo) (op : mop) (v : string) : expr :=
  match p with
  | PName => matcher_clause (type_part 1) op v
  | PPeriodType => matcher_clause (type_part 2) op v
  | PPeriodUnit => matcher_clause (type_part 3) op v
  | PSampleType => Eq (array_exists (matcher_clause (Id "x.1") op v)) (IntV 1)
  | PSampleUnit => Eq (array_exists (matcher_clause (Id "x.2") op v)) (IntV 1)
  | PProfileType => Eq (array_exists (matcher_clause profile_type_field op v)) (IntV 1)
  | PServiceName => matcher_clause (Id "service_name") op v
  end.
Definition kv_clause (s : selector) : expr :=
  And [Eq (Id "key") (StrV (sl_name s)); matcher_clause (Id "val") (sl_op s) (sl_val s)].

(* Pyroscope selectors are Prometheus matchers: a regex value is anchored before it reaches match() *)
Definition prof_selector_val (s : selector) : selector :=
  match sl_op s with
  | MRe | MNre => {| sl_name := sl_name s; sl_op := sl_op s; sl_val := anchor (sl_val s) |}
  | _ => s
  end.

(* getMatchers: (globalMatchers, kvMatchers), each in selector order *)
Fixpoint get_matchers (sels : list selector) : list expr * list expr :=
  match sels with
  | [] => ([], [])
  | s0 :: r =>
    let s := prof_selector_val s0 in
    let '(g, kv) := get_matchers r in
    match pseudo_of (sl_name s) with
    | Some p => (global_clause p (sl_op s) (sl_val s) :: g, kv)
    | None => (g, kv_clause s :: kv)
    end
  end.

(* date >= FormatFromDate(ctx.From) (30 min margin) ; date <= ctx.To.UTC().Format("2006-01-02") *)
Definition prof_selector (gin_table : string) (from_ns to_ns : Z) (sels : list selector) : select :=
  let '(g, kv) := get_matchers sels in
  let q0 := set_groupby [Id "fingerprint"]
             (and_where [Ge (Id "date") (DateV (from_day from_ns)); Le (Id "date") (DateV (to_ns / (86400 * 1000000000)))]
              (set_from (Id gin_table) (set_cols [Id "fingerprint"] empty_select))) in
  let q1 := match g with [] => q0 | _ => and_where [And g] q0 end in
  match kv with
  | [] => q1
  | _ => and_having [Eq (BitSetAnd kv) (IntV (2 ^ Z.of_nat (List.length kv) - 1))] (and_where [Or kv] q1)
  end.

(* ---------- StreamSelectorPlanner.Process since the absent-label fix ----------
   `prof_selector` above is processIndexed: every selector on a stored label needs an index row as witness.
   Process itself first sets apart the selectors on stored labels (not pseudo labels) that accept the empty string
   (acceptsAbsent: val == "" for =, val != "" for !=, the anchored regular expression matched against "" for =~ / !~;
   `re_full v p` is the oracle "v matches ^(?:p)$" as in PromSel): a series without the label satisfies them, the index
   has no row to witness that, so each of them only excludes the series that carry the label with a value it rejects:
   `fingerprint IN (<processIndexed of the inverse selector>) == 0`, appended to the WHERE in selector order. *)
Definition sel_accepts_absent (re_full : string -> string -> bool) (s : selector) : bool :=
  match pseudo_of (sl_name s) with
  | Some _ => false
  | None => prom_match_val re_full (sl_op s) (sl_val s) ""
  end.
Definition sel_inverse (s : selector) : selector :=
  {| sl_name := sl_name s;
     sl_op := match sl_op s with MEq => MNeq | MNeq => MEq | MRe => MNre | MNre => MRe end;
     sl_val := sl_val s |}.
Definition prof_not_rejected (gin_table : string) (from_ns to_ns : Z) (s : selector) : expr :=
  Eq (In (Id "fingerprint") [SubQ (prof_selector gin_table from_ns to_ns [sel_inverse s])]) (IntV 0).
Definition prof_indexed_sels (re_full : string -> string -> bool) (sels : list selector) : list selector :=
  filter (fun s => negb (sel_accepts_absent re_full s)) sels.
Definition prof_absent_sels (re_full : string -> string -> bool) (sels : list selector) : list selector :=
  filter (sel_accepts_absent re_full) sels.
Definition prof_selector_abs (re_full : string -> string -> bool) (gin_table : string) (from_ns to_ns : Z) (sels : list selector) : select :=
  fold_left (fun q s => and_where [prof_not_rejected gin_table from_ns to_ns s] q)
            (prof_absent_sels re_full sels)
            (prof_selector gin_table from_ns to_ns (prof_indexed_sels re_full sels)).

(* fc_full: (pattern, value, anchored match) as answered by labels.Matcher.Matches in the harness; the planner only
   asks about the value "" *)
Record fcase := { fc_id : Z; fc_table : string; fc_from_ns : Z; fc_to_ns : Z; fc_cluster : bool; fc_sels : list selector;
                  fc_full : list (string * string * bool) }.
Definition fcase_sql (c : fcase) : option string :=
  render (prof_selector_abs (tbl_lookup (fc_full c)) (fc_table c) (fc_from_ns c) (fc_to_ns c) (fc_sels c)) (fc_cluster c).
