(* Model of the walk of the Loki JSON push decoder over the JSON document (writer/utils/unmarshal/unmarshal.go:
   pushRequestDec.Decode, decodeStream, decodeStreamStream, decodeStreamLabels, decodeStreamValues/-Value,
   decodeStreamEntries/-Entry).  Property C03.  Definitions only.

   The tokenizer (go-faster/jx) is not modelled: the document is given as the tree of values jx walks over, objects as
   the ordered list of their members (repeated keys are visited in order, as jx does).  The walk is transcribed: which
   keys are looked at, what type each position must have (anything else makes jx return an error: None), the
   positional handling of a values element [ts, line, third, ...], the keys of an entries element, the accumulation
   of the sample type.  Number texts are carried as the float64 bits strconv gives them; time.Parse(RFC3339) and the
   unicode classes of the label-string scanner are oracles, as in LokiTime.v / LokiLabels.v.
   The result is the member list of model/Decode.v (MLbl / MEnt / MOther per stream object), so that
   decode (BLoki members) and its theorems apply to the document. *)
From Coq Require Import List ZArith NArith Bool Ascii String.
From Qryn Require Import gen.DecodeConsts model.Decode model.LokiLabels model.LokiTime.
Import ListNotations.
Open Scope Z_scope.

Inductive jv :=
| JNull | JBool (b : bool)
| JNum (bits : N) (int : option Z) (* a number: the bits of the float64 its text denotes; its value when the text is an
                                     integer literal within int64 (what jx Int64 accepts), None otherwise *)
| JStr (s : string)               (* the decoded string *)
| JArr (l : list jv)
| JObj (l : list (string * jv)).

Section WALK.
  Variable uletter udigit : string -> bool.
  Variable rfc3339 : string -> option Z.

  (* state of one element: timestamp, line, value (None = not seen) *)
  Definition upd_entry (e : lentry) (ts : Z) : lentry := LE ts (le_line e) (le_val e).

  (* decodeStreamValue: [ "<ns>", "<line>", <number | anything else: skipped>, ... ] by position *)
  Fixpoint value_positions (j : nat) (els : list jv) (e : lentry) : option lentry :=
    match els with
    | [] => Some e
    | v :: r =>
      match j with
      | O => match v with
             | JStr s => match parse_int64 s with Some ts => value_positions 1 r (upd_entry e ts) | None => None end
             | _ => None
             end
      | S O => match v with
               | JStr s => value_positions 2 r (LE (le_ts e) (Some s) (le_val e))
               | _ => None
               end
      | S (S O) => match v with
                   | JNum b _ => value_positions 3 r (LE (le_ts e) (le_line e) (Some b))
                   | _ => value_positions 3 r e                    (* structured metadata etc.: d.Skip() *)
                   end
      | _ => value_positions j r e
      end
    end.
  Definition value_entry (v : jv) : option lentry :=
    match v with JArr els => value_positions 0 els (LE 0 None None) | _ => None end.

  (* decodeStreamEntry: { "ts" | "timestamp": "<text>", "line": "<s>", "value": <number>, other keys skipped }, members in order *)
  Fixpoint entry_members (ms : list (string * jv)) (e : lentry) : option lentry :=
    match ms with
    | [] => Some e
    | (k, v) :: r =>
      if String.eqb k "ts" || String.eqb k "timestamp" then
        match v with
        | JStr s => match parse_time rfc3339 s with Some ts => entry_members r (upd_entry e ts) | None => None end
        | _ => None
        end
      else if String.eqb k "line" then
        match v with JStr s => entry_members r (LE (le_ts e) (Some s) (le_val e)) | _ => None end
      else if String.eqb k "value" then
        match v with JNum b _ => entry_members r (LE (le_ts e) (le_line e) (Some b)) | _ => None end
      else entry_members r e
    end.
  Definition entry_entry (v : jv) : option lentry :=
    match v with JObj ms => entry_members ms (LE 0 None None) | _ => None end.

  Fixpoint all_some {A B} (f : A -> option B) (l : list A) : option (list B) :=
    match l with
    | [] => Some []
    | x :: r => match f x, all_some f r with Some y, Some ys => Some (y :: ys) | _, _ => None end
    end.

  (* decodeStreamStream: an object whose members are all strings *)
  Definition stream_labels (v : jv) : option labels :=
    match v with
    | JObj ms => all_some (fun kv => match snd kv with JStr s => Some (fst kv, s) | _ => None end) ms
    | _ => None
    end.

  (* one member of a stream object; buf = the labels gathered so far (the label text is parsed behind them) *)
  Definition stream_member (buf : labels) (kv : string * jv) : option lmember :=
    let '(k, v) := kv in
    if String.eqb k "stream" then option_map MLbl (stream_labels v)
    else if String.eqb k "labels" then
      match v with
      | JStr text => match parse_labels uletter udigit text buf with
                     | Some out => Some (MLbl (skipn (List.length buf) out))
                     | None => None
                     end
      | _ => None
      end
    else if String.eqb k "values" then
      match v with JArr els => option_map MEnt (all_some value_entry els) | _ => None end
    else if String.eqb k "entries" then
      match v with JArr els => option_map MEnt (all_some entry_entry els) | _ => None end
    else Some MOther.

  Fixpoint stream_members (ms : list (string * jv)) (st : labels * list lentry) : option (list lmember) :=
    match ms with
    | [] => Some []
    | kv :: r =>
      match stream_member (fst st) kv with
      | None => None
      | Some m => match stream_members r (member_step st m) with Some rest => Some (m :: rest) | None => None end
      end
    end.
  Definition stream_object (v : jv) : option (list lmember) :=
    match v with JObj ms => stream_members ms ([], []) | _ => None end.

  (* Decode: the top-level object; every "streams" member must be an array of stream objects, other keys are skipped *)
  Fixpoint top_members (ms : list (string * jv)) : option (list (list lmember)) :=
    match ms with
    | [] => Some []
    | (k, v) :: r =>
      if String.eqb k "streams" then
        match v with
        | JArr ss => match all_some stream_object ss, top_members r with
                     | Some a, Some b => Some (a ++ b)
                     | _, _ => None
                     end
        | _ => None
        end
      else top_members r
    end.
  Definition push_members (doc : jv) : option (list (list lmember)) :=
    match doc with JObj ms => top_members ms | _ => None end.
End WALK.

(* ---------------------------------------------------------------- documents as clients write them (specification side) *)
(* a values element: [ts as decimal text, line, optional number] ; an entries element: ts / line / value members *)
Definition dec_text (z : Z) : string := dec_Z z.
Definition jvalue_of (e : lentry) : jv :=
  JArr ([JStr (dec_text (le_ts e)); JStr (opt_str (le_line e))] ++ match le_val e with Some b => [JNum b None] | None => [] end).

(* ---------------------------------------------------------------- generated case files *)
Definition tab_lookup (tab : list (string * option Z)) (s : string) : option Z :=
  match find (fun e => String.eqb (fst e) s) tab with Some e => snd e | None => None end.

Definition lentry_eqb (a b : lentry) : bool :=
  (le_ts a =? le_ts b) &&
  match le_line a, le_line b with Some x, Some y => String.eqb x y | None, None => true | _, _ => false end &&
  match le_val a, le_val b with Some x, Some y => (x =? y)%N | None, None => true | _, _ => false end.
Definition lmember_eqb (a b : lmember) : bool :=
  match a, b with
  | MLbl x, MLbl y => labels_eqb x y
  | MEnt x, MEnt y => list_eqb lentry_eqb x y
  | MOther, MOther => true
  | _, _ => false
  end.

(* jc_case: the observations with the body the harness generated the document from (written = true), or with an empty
   body (written = false: a damaged document; the body is whatever the walk makes of it) *)
Record jcase := JCase { jc_case : case; jc_doc : jv; jc_written : bool; jc_rfc : list (string * option Z);
                        jc_letters : list string; jc_digits : list string }.
Definition jc_members (c : jcase) : option (list (list lmember)) :=
  push_members (in_tab (jc_letters c)) (in_tab (jc_digits c)) (tab_lookup (jc_rfc c)) (jc_doc c).
Definition with_body (c : case) (ms : list (list lmember)) : case :=
  Case (c_id c) (BLoki ms) (c_ctx_ttl c) (c_cache c) (c_tab c) (c_obs c) (c_err c).
Definition is_error (e : errkind) : bool := match e with EError => true | _ => false end.

(* model <> implementation: the walk rejects the document and the request did not fail with an error (or the other way
   round), the walk yields other members than the ones the document was written from, or the rows differ *)
Definition jc_mismatch (c : jcase) : bool :=
  match jc_members c with
  | None => negb (is_error (c_err (jc_case c)))
  | Some ms =>
    (jc_written c && negb (match c_body (jc_case c) with BLoki ms0 => list_eqb (list_eqb lmember_eqb) ms ms0 | _ => false end))
    || model_mismatch (with_body (jc_case c) ms)
  end.
(* the property's oracle: a written document is answered with one faithful row per entry of the body it was written from;
   for a damaged document that is accepted, per entry the walk finds *)
Definition jc_spec_violation (c : jcase) : bool :=
  if jc_written c then spec_violation (jc_case c)
  else match jc_members c with
       | Some ms => negb (is_error (c_err (jc_case c))) && spec_violation (with_body (jc_case c) ms)
       | None => false
       end.
Definition jc_check_all (cs : list jcase) : list Z * list Z :=
  (map (fun c => c_id (jc_case c)) (filter jc_mismatch cs), map (fun c => c_id (jc_case c)) (filter jc_spec_violation cs)).
