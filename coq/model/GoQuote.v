(* Model of Go's strconv.Quote (quoteWith(s, dquote, ASCIIonly=false, graphicOnly=false)) and of
   unicode/utf8.DecodeRuneInString / AppendRune, as used by encodeLabels
   (writer/utils/unmarshal/unmarshal.go) for property C04.  Executable definitions only.

   Bytes are Coq ascii; a byte's code is a Z.  strconv.IsPrint on runes >= 0x80 is an oracle
   (a function parameter [isprint]); on ASCII it is 0x20 <= r <= 0x7e. *)
From Coq Require Import List ZArith String Ascii Bool.
Import ListNotations.
Open Scope Z_scope.

Definition byte (c : ascii) : Z := Z.of_N (N_of_ascii c).
Definition chr (b : Z) : ascii := ascii_of_N (Z.to_N b).
Definition str1 (c : ascii) : string := String c EmptyString.

Fixpoint stake (n : nat) (s : string) : string :=
  match n, s with
  | S k, String c r => String c (stake k r)
  | _, _ => EmptyString
  end.
Fixpoint sdrop (n : nat) (s : string) : string :=
  match n, s with
  | S k, String _ r => sdrop k r
  | _, _ => s
  end.

(* ------------------------------------------------------------------ UTF-8 (unicode/utf8) *)
Definition in_rng (lo hi b : Z) : bool := (lo <=? b) && (b <=? hi).
Definition is_cont (b : Z) : bool := in_rng 128 191 b.

(* DecodeRuneInString: Some (rune, width) for a well-formed encoding at the head of s;
   None stands for (RuneError, 1) on an ill-formed or truncated sequence (and for the empty
   string, which no caller below passes). Accept ranges are those of utf8's first/acceptRanges
   tables: overlong forms, surrogates and values above U+10FFFF are ill-formed. *)
Definition decode_rune (s : string) : option (Z * nat) :=
  match s with
  | EmptyString => None
  | String c0 r0 =>
    let b0 := byte c0 in
    if b0 <? 128 then Some (b0, 1%nat)
    else if in_rng 194 223 b0 then
      match r0 with
      | String c1 _ => let b1 := byte c1 in
        if is_cont b1 then Some ((b0 - 192) * 64 + (b1 - 128), 2%nat) else None
      | _ => None
      end
    else if in_rng 224 239 b0 then
      match r0 with
      | String c1 (String c2 _) => let b1 := byte c1 in let b2 := byte c2 in
        let lo := if b0 =? 224 then 160 else 128 in
        let hi := if b0 =? 237 then 159 else 191 in
        if in_rng lo hi b1 && is_cont b2
        then Some ((b0 - 224) * 4096 + (b1 - 128) * 64 + (b2 - 128), 3%nat) else None
      | _ => None
      end
    else if in_rng 240 244 b0 then
      match r0 with
      | String c1 (String c2 (String c3 _)) =>
        let b1 := byte c1 in let b2 := byte c2 in let b3 := byte c3 in
        let lo := if b0 =? 240 then 144 else 128 in
        let hi := if b0 =? 244 then 143 else 191 in
        if in_rng lo hi b1 && is_cont b2 && is_cont b3
        then Some ((b0 - 240) * 262144 + (b1 - 128) * 4096 + (b2 - 128) * 64 + (b3 - 128), 4%nat)
        else None
      | _ => None
      end
    else None
  end.

(* utf8.AppendRune for a valid scalar value (callers exclude surrogates and > 0x10FFFF) *)
Definition encode_rune (r : Z) : string :=
  if r <? 128 then str1 (chr r)
  else if r <? 2048 then String (chr (192 + r / 64)) (str1 (chr (128 + r mod 64)))
  else if r <? 65536 then
    String (chr (224 + r / 4096)) (String (chr (128 + (r / 64) mod 64)) (str1 (chr (128 + r mod 64))))
  else
    String (chr (240 + r / 262144)) (String (chr (128 + (r / 4096) mod 64))
      (String (chr (128 + (r / 64) mod 64)) (str1 (chr (128 + r mod 64))))).

(* ------------------------------------------------------------------ strconv.Quote *)
Definition hexdigit (n : Z) : ascii := chr (if n <? 10 then 48 + n else 87 + n).   (* "0123456789abcdef" *)
Definition hex2 (b : Z) : string := String (hexdigit (b / 16)) (str1 (hexdigit (b mod 16))).
Fixpoint hexn (k : nat) (r : Z) : string :=      (* k lower-case hex digits, most significant first *)
  match k with
  | O => EmptyString
  | S k' => append (hexn k' (r / 16)) (str1 (hexdigit (r mod 16)))
  end.

Definition bs : ascii := chr 92.     (* backslash *)
Definition dq : ascii := chr 34.     (* double quote *)

(* appendEscapedRune for r < 0x80 (c is the byte itself) *)
Definition esc_ascii (c : ascii) : string :=
  let b := byte c in
  if (b =? 34) || (b =? 92) then String bs (str1 c)
  else if in_rng 32 126 b then str1 c
  else if b =? 7 then String bs "a"
  else if b =? 8 then String bs "b"
  else if b =? 12 then String bs "f"
  else if b =? 10 then String bs "n"
  else if b =? 13 then String bs "r"
  else if b =? 9 then String bs "t"
  else if b =? 11 then String bs "v"
  else String bs (String "x" (hex2 b)).            (* r < ' ' || r == 0x7f *)

(* appendEscapedRune for a decoded multi-byte rune r (raw = its bytes) *)
Definition esc_rune (isprint : Z -> bool) (r : Z) (raw : string) : string :=
  if isprint r then raw
  else if r <? 65536 then String bs (String "u" (hexn 4 r))
  else String bs (String "U" (hexn 8 r)).

(* the loop of quoteWith; [skip] = continuation bytes of a rune already emitted *)
Fixpoint quote_body (isprint : Z -> bool) (skip : nat) (s : string) : string :=
  match s with
  | EmptyString => EmptyString
  | String c rest =>
    match skip with
    | S k => quote_body isprint k rest
    | O =>
      let b := byte c in
      if b <? 128 then append (esc_ascii c) (quote_body isprint 0 rest)
      else match decode_rune s with
           | Some (r, w) => append (esc_rune isprint r (stake w s)) (quote_body isprint (Nat.pred w) rest)
           | None => append (String bs (String "x" (hex2 b))) (quote_body isprint 0 rest)
           end
    end
  end.

Definition go_quote (isprint : Z -> bool) (s : string) : string :=
  String dq (append (quote_body isprint 0 s) (str1 dq)).

(* strconv.IsPrint from a per-case table for runes > 0xFF; Latin-1 as in strconv/quote.go *)
Fixpoint tbl_lookup (t : list (Z * bool)) (r : Z) : bool :=
  match t with
  | [] => false
  | (k, v) :: q => if k =? r then v else tbl_lookup q r
  end.
Definition isprint_tbl (t : list (Z * bool)) (r : Z) : bool :=
  if r <=? 255 then (in_rng 32 126 r) || (in_rng 161 255 r && negb (r =? 173))
  else tbl_lookup t r.

(* ------------------------------------------------------------------ jsonQuote (writer/utils/unmarshal/unmarshal.go)
   the quoter of encodeLabels since the fix of the label document: `for _, r := range s` walks the
   runes (an ill-formed byte arrives as U+FFFD, width 1);  dquote and backslash get a backslash;
   \b \f \n \r \t; any other rune below U+10000 that IsPrint rejects (the remaining control characters,
   0x7f, non-printable BMP runes) is written \uXXXX; everything else is copied as UTF-8. It writes what
   strconv.Quote writes wherever that is JSON. *)
Definition fffd : string := String (chr 239) (String (chr 191) (str1 (chr 189))).     (* U+FFFD *)

Definition jq_ascii (c : ascii) : string :=
  let b := byte c in
  if (b =? 34) || (b =? 92) then String bs (str1 c)
  else if in_rng 32 126 b then str1 c
  else if b =? 8 then String bs "b"
  else if b =? 12 then String bs "f"
  else if b =? 10 then String bs "n"
  else if b =? 13 then String bs "r"
  else if b =? 9 then String bs "t"
  else String bs (String "u" (hexn 4 b)).

Definition jq_rune (isprint : Z -> bool) (r : Z) (raw : string) : string :=
  if isprint r || (65536 <=? r) then raw else String bs (String "u" (hexn 4 r)).

Fixpoint jquote_body (isprint : Z -> bool) (skip : nat) (s : string) : string :=
  match s with
  | EmptyString => EmptyString
  | String c rest =>
    match skip with
    | S k => jquote_body isprint k rest
    | O =>
      let b := byte c in
      if b <? 128 then append (jq_ascii c) (jquote_body isprint 0 rest)
      else match decode_rune s with
           | Some (r, w) => append (jq_rune isprint r (stake w s)) (jquote_body isprint (Nat.pred w) rest)
           | None => append fffd (jquote_body isprint 0 rest)
           end
    end
  end.

Definition json_quote (isprint : Z -> bool) (s : string) : string :=
  String dq (append (jquote_body isprint 0 s) (str1 dq)).

(* what `for range` / []rune(s) makes of a byte string: every ill-formed byte becomes U+FFFD *)
Fixpoint utf8_fix (skip : nat) (s : string) : string :=
  match s with
  | EmptyString => EmptyString
  | String c rest =>
    match skip with
    | S k => String c (utf8_fix k rest)
    | O =>
      if byte c <? 128 then String c (utf8_fix 0 rest)
      else match decode_rune s with
           | Some (_, w) => String c (utf8_fix (Nat.pred w) rest)
           | None => append fffd (utf8_fix 0 rest)
           end
    end
  end.

(* utf8.ValidString *)
Fixpoint utf8_valid (skip : nat) (s : string) : bool :=
  match s with
  | EmptyString => true
  | String c rest =>
    match skip with
    | S k => utf8_valid k rest
    | O =>
      if byte c <? 128 then utf8_valid 0 rest
      else match decode_rune s with
           | Some (_, w) => utf8_valid (Nat.pred w) rest
           | None => false
           end
    end
  end.

(* strings.ToValidUTF8(s, "�"): every RUN of ill-formed bytes is replaced by one U+FFFD *)
Fixpoint to_valid (inrun : bool) (skip : nat) (s : string) : string :=
  match s with
  | EmptyString => EmptyString
  | String c rest =>
    match skip with
    | S k => String c (to_valid false k rest)
    | O =>
      if byte c <? 128 then String c (to_valid false 0 rest)
      else match decode_rune s with
           | Some (_, w) => String c (to_valid false (Nat.pred w) rest)
           | None => if inrun then to_valid true 0 rest else append fffd (to_valid true 0 rest)
           end
    end
  end.
