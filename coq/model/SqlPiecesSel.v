(* C10 — the segmented renderer applied to the trees of the PromQL-matcher and Pyroscope-selector planner models of C17
   (model/PromSel.v transpile_label_matchers / ..._downsample / querier_transpile, model/ProfSel.v prof_selector_abs: tied byte
   for byte to reader/promql/transpiler and reader/prof/transpiler by C17).  Both build model/Sql.v trees and print through
   model/SqlRender.v, so the renderer theorems of SqlPiecesProofs apply; here: what the per-case tie evaluates (OCaml
   extraction) on hostile matcher values and label names.  Executable definitions only. *)
From Coq Require Import List ZArith NArith String Ascii Bool.
From Qryn Require Import lib.Strs model.Sql model.SqlRender model.Logql model.LogqlPlan model.PromSelect model.PromSel model.ProfSel
  model.ChLex model.SqlPieces model.SqlPiecesCases.
Import ListNotations.
Open Scope string_scope.

Definition stmt_of (q : select) (cluster : bool) : option pstmt :=
  match pieces q cluster with
  | Some t => Some {| ps_ok := pok QN t; ps_pieces := t; ps_flat := flat t; ps_render := render q cluster |}
  | None => None
  end.

(* the tree of a PromQL selection case (as PromSel.pcase_sql, before rendering) *)
Definition pcase_tree (c : pcase) : select :=
  let full := tbl_lookup (pc_full c) in
  match pc_kind c with
  | KRaw => transpile_label_matchers full (pc_hints c) (pc_ctx c) (pc_ms c)
  | KDownsample => transpile_label_matchers_downsample full (pc_hints c) (pc_ctx c) (pc_ms c)
  | KQuerier => fst (querier_transpile full (c_cluster (pc_ctx c)) "qryn" (pc_hints c) (pc_ms c))
  end.
Definition pcase_pieces (c : pcase) : option pstmt := stmt_of (pcase_tree c) (c_cluster (pc_ctx c)).

(* the tree of a Pyroscope selector case (as ProfSel.fcase_sql) *)
Definition fcase_tree (c : fcase) : select :=
  prof_selector_abs (tbl_lookup (fc_full c)) (fc_table c) (fc_from_ns c) (fc_to_ns c) (fc_sels c).
Definition fcase_pieces (c : fcase) : option pstmt := stmt_of (fcase_tree c) (fc_cluster c).

(* ---------- trees that differ only in their values ----------
   [erase_sel q]: q with the content of every StrV node erased.  Two trees with the same erasure differ only inside their values;
   SqlEraseProofs.erased_equal_same_structure: they print statements with the same token structure.  A planner is
   VALUE-INDEPENDENT when requests that differ only in their string values are planned into trees with the same erasure. *)
Definition erase : expr -> expr := subst (fun _ => EmptyString).
Definition erase_sel : select -> select := subst_sel (fun _ => EmptyString).

(* Pyroscope selectors that differ only in their values (and in the names of stored labels, which are values too: key == 'name'):
   same operator, same pseudo label or both stored labels *)
Definition sel_variant (s s' : selector) : Prop :=
  sl_op s = sl_op s' /\ pseudo_of (sl_name s) = pseudo_of (sl_name s').
(* Prometheus / LogQL stream matchers that differ only in label name and value: same operator *)
Definition matcher_variant (m m' : matcher) : Prop := m_op m = m_op m'.
