(* C10 (round 8) -- GoFmtInt.v with EXPLICIT ARGUMENT INDEXES: %[n]verb (Go 1.24 fmt/print.go: argNumber / parseArgNumber).  The LogQL json and
   regexp parser planners place quoted request strings with %[2]s ... %[1]s.  One pass over the format, as doPrintf does it: the state is
   where the scan stands inside a directive (mode), the number of the next operand (argNum) and whether an index was seen (reordered:
   then fmt does not complain about unused operands).  Fragment: an index stands directly behind the percent sign and directly before
   the verb; besides, the one flagged directive the repository uses, %0<width>d over an integer (zero padding; secondsText's %d.%09d);
   other flags / width / precision, anything else: None (never a guess).  Executable definitions only. *)
From Coq Require Import List String Ascii Bool NArith ZArith.
From Qryn Require Import model.GoFmt model.GoFmtInt.
Import ListNotations.
Open Scope string_scope.

Inductive mode :=
| MText                       (* copying text *)
| MPct                        (* behind a percent sign *)
| MIdx (acc : option nat)     (* inside [ ... : digits read so far *)
| MIdxDone (n : nat)          (* behind [n] : the verb comes next *)
| MZero                       (* behind %0 : the zero-padding flag *)
| MWid (w : nat).             (* behind %0<digits> : the width read so far *)

Definition digit_of (c : ascii) : option nat :=
  let n := N_of_ascii c in if ((48 <=? n) && (n <=? 57))%N then Some (N.to_nat (n - 48)) else None.

(* the verb v over operand number k (0-based) of all the operands; the number of the next operand *)
Definition verb_at (v : ascii) (all : list operand) (k : nat) : option (string * nat) :=
  match nth_error all k with
  | None => Some ("%!" ++ c2s v ++ "(MISSING)", k)
  | Some a => match print_verb2 v [a] with Some (txt, _) => Some (txt, S k) | None => None end
  end.

(* fmtInteger with the zero flag and a width (no other flag): the digits padded with zeros to the width, one place less when a sign
   is printed, then the sign; a number longer than the width is printed in full *)
Fixpoint zeros (n : nat) : string := match n with O => "" | S k => String "0" (zeros k) end.
Definition pad0 (w : nat) (z : Z) : string :=
  let digits := dec (Z.abs z) in
  if (z <? 0)%Z then String "-" (zeros (w - 1 - String.length digits) ++ digits) else zeros (w - String.length digits) ++ digits.

(* %0<w>d over operand number k: integers only (anything else: outside the fragment) *)
Definition padded_at (all : list operand) (k : nat) (w : nat) : option (string * nat) :=
  match nth_error all k with
  | Some (OInt _ z) => Some (pad0 w z, S k)
  | _ => None
  end.

Definition outside_verb (v : ascii) : bool := spec_byte v || other_notation v || (128 <=? N_of_ascii v)%N.

Fixpoint go3 (all : list operand) (f : string) (m : mode) (argNum : nat) (reord : bool) : option string :=
  match f with
  | EmptyString =>
    match m with
    | MText => Some (if reord then "" else extra2 (skipn argNum all))
    | MPct => Some ("%!(NOVERB)" ++ (if reord then "" else extra2 (skipn argNum all)))
    | _ => None
    end
  | String c r =>
    match m with
    | MText => if is_pct c then go3 all r MPct argNum reord else option_map (fun o => String c o) (go3 all r MText argNum reord)
    | MPct =>
      if Ascii.eqb c "[" then go3 all r (MIdx None) argNum reord
      else if Ascii.eqb c "0" then go3 all r MZero argNum reord
      else if outside_verb c then None
      else if is_pct c then option_map (fun o => "%" ++ o) (go3 all r MText argNum reord)
      else match verb_at c all argNum with
           | None => None
           | Some (txt, k) => option_map (fun o => txt ++ o) (go3 all r MText k reord)
           end
    | MIdx acc =>
      match digit_of c with
      | Some d => go3 all r (MIdx (Some (match acc with None => d | Some a => 10 * a + d end))) argNum reord
      | None => if Ascii.eqb c "]" then match acc with Some n => go3 all r (MIdxDone n) argNum reord | None => None end else None
      end
    | MZero =>
      if Ascii.eqb c "0" then go3 all r MZero argNum reord
      else match digit_of c with
           | Some d => go3 all r (MWid d) argNum reord
           | None => if Ascii.eqb c "d" then match padded_at all argNum 0 with
                                             | Some (txt, k) => option_map (fun o => txt ++ o) (go3 all r MText k reord)
                                             | None => None
                                             end
                     else None
           end
    | MWid w =>
      match digit_of c with
      | Some d => if Nat.leb w 999 then go3 all r (MWid (10 * w + d)) argNum reord else None
      | None => if Ascii.eqb c "d" then match padded_at all argNum w with
                                        | Some (txt, k) => option_map (fun o => txt ++ o) (go3 all r MText k reord)
                                        | None => None
                                        end
                else None
      end
    | MIdxDone n =>
      if outside_verb c || is_pct c then None
      else if Nat.eqb n 0 || Nat.ltb (List.length all) n then
        option_map (fun o => "%!" ++ c2s c ++ "(BADINDEX)" ++ o) (go3 all r MText argNum true)
      else match verb_at c all (n - 1) with
           | None => None
           | Some (txt, k) => option_map (fun o => txt ++ o) (go3 all r MText k true)
           end
    end
  end.

Definition fmt_go3 (f : string) (ops : list operand) : option string := go3 ops f MText 0 false.

(* a directive of a constant format as the census reads it: operand number i (1-based, at most 9), explicit or the next one *)
Definition idx_digit (i : nat) : ascii := ascii_of_nat (48 + i).
Definition verb_char (o : operand) : ascii := match o with OStr _ => "s"%char | OInt _ _ => "d"%char end.
Definition idx_verb (i : nat) (o : operand) : string := String "%" (String "[" (String (idx_digit i) (String "]" (String (verb_char o) "")))).

(* texts t0 .. tn with the directive %[i_k]verb between t_(k-1) and t_k; the verb is the one the operand's kind calls for *)
Fixpoint mkformat3 (ops : list operand) (texts : list string) (idxs : list nat) : string :=
  match texts with
  | [] => ""
  | [t] => t
  | t :: ts => match idxs with
               | i :: r => t ++ idx_verb i (nth (i - 1) ops (OStr "")) ++ mkformat3 ops ts r
               | [] => t
               end
  end.

Definition idx_ok (ops : list operand) (i : nat) : bool := Nat.leb 1 i && Nat.leb i 9 && Nat.leb i (List.length ops).

Definition fmt_case3 := (string * list operand * string)%type.
Definition fmt_verdict3 (c : fmt_case3) : nat :=
  let '(f, args, out) := c in
  match fmt_go3 f args with
  | None => 2
  | Some o => if String.eqb o out then 0 else 1
  end.
