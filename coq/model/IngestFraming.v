(* Property C05, third model file -- what stands between the socket and the wire decoders, i.e. the repository's OWN
   framing code:

     1. helpers.LimitDecoded (writer/utils/helpers/limitedBuffer.go), the reader WithOverallContextMiddleware puts
        around gzip.NewReader / snappy.NewReader: at most `limit` decoded bytes are ever handed to a route, a body that
        inflates beyond the limit ends with a 400 error, a body within the limit is read unchanged;
     2. io.ReadAll over that reader (withUnsnappyRequest, withBufferedBody, the OTLP PreRequest);
     3. the connection below the body: main.go httpStart serves the router with an http.Server whose ReadTimeout bounds
        how long a handler can wait for a body the client does not finish;
     4. the NDJSON framing loops (bufio.Scanner over the body, one line handler call per line) of datadogCFRequestDec,
        elasticBulkDec and zipkinNDDecoderV2, regenerated as small records: every framing error (a line beyond the token
        limit, a failing reader, a line the handler refuses) ends the request with a typed 400 -- never a body that is
        answered 2xx with lines dropped.  *)
From Coq Require Import List String Ascii ZArith Bool.
From Qryn Require Import model.IngestRobust model.IngestPipe.
Import ListNotations.
Open Scope Z_scope.

(* ------------------------------------------------------------------------------------------ *)
(** * 1. helpers.LimitDecoded *)

Inductive rerr := ENil | EEof | EUnder | ETooLong.   (* nil, io.EOF, an error of the decompressor, New400Error("decompressed request too long") *)

(* The decompressor below the limiter still has `rem` bytes to deliver.  One Read call with a buffer of k bytes gets at
   most `chunk` of them (a gzip reader returns what it has inflated so far); chunk <= 0 scripts a corrupt stream: (0, err);
   at the end of the data (0, io.EOF). *)
Definition under_read (rem k chunk : Z) : Z * rerr :=
  if chunk <=? 0 then (0, EUnder)
  else if rem <=? 0 then (0, EEof)
  else (Z.min (Z.min k chunk) rem, ENil).

Record lim_st := { l_left : Z; l_rem : Z }.

(* func (l *limitedDecoded) Read(p []byte) (int, error) {
       if l.left < 0 { return 0, errDecodedTooLong }
       if int64(len(p)) > l.left+1 { p = p[:l.left+1] }
       n, err := l.r.Read(p)
       l.left -= int64(n)
       if l.left < 0 { return n - 1, errDecodedTooLong }       // the byte beyond the limit
       return n, err }                                                    plen = len(p) *)
Definition lim_read (s : lim_st) (plen chunk : Z) : (Z * rerr) * lim_st :=
  if l_left s <? 0 then ((0, ETooLong), s)
  else let k := if plen >? l_left s + 1 then l_left s + 1 else plen in
       let ne := under_read (l_rem s) k chunk in
       let s' := {| l_left := l_left s - fst ne; l_rem := l_rem s - fst ne |} in
       if l_left s' <? 0 then ((fst ne - 1, ETooLong), s') else (ne, s').

(* LimitDecoded(r): left = pbPool.limit *)
Definition lim_init (limit decoded : Z) : lim_st := {| l_left := limit; l_rem := decoded |}.

(* a consumer's calls: (len(p), chunk) *)
Fixpoint lim_run (s : lim_st) (calls : list (Z * Z)) : list (Z * rerr) :=
  match calls with
  | [] => []
  | (plen, chunk) :: rest => let '(ne, s') := lim_read s plen chunk in ne :: lim_run s' rest
  end.
Definition delivered (rs : list (Z * rerr)) : Z := fold_right (fun r a => fst r + a) 0 rs.

(* the body as it was read before the limiter existed: the decompressor itself *)
Fixpoint under_run (rem : Z) (calls : list (Z * Z)) : list (Z * rerr) :=
  match calls with
  | [] => []
  | (plen, chunk) :: rest => let ne := under_read rem plen chunk in ne :: under_run (rem - fst ne) rest
  end.

(* pbPool.limit: 50 MiB until SetGlobalLimit(input_buffer_mb MiB) halves the configured value *)
Definition pb_pool_limit_default : Z := 50 * 1024 * 1024.
Definition set_global_limit (limit : Z) : Z := limit / 2.

(* io.ReadAll: reads until an error; io.EOF is success.  AllMore = the script of calls ended first *)
Inductive all_res := AllOk (n : Z) | AllErr (e : rerr) (n : Z) | AllMore (n : Z).
Fixpoint read_all (s : lim_st) (calls : list (Z * Z)) (acc : Z) : all_res :=
  match calls with
  | [] => AllMore acc
  | (plen, chunk) :: rest =>
      let '((n, e), s') := lim_read s plen chunk in
      match e with
      | ENil => read_all s' rest (acc + n)
      | EEof => AllOk (acc + n)
      | _ => AllErr e (acc + n)
      end
  end.

(* bytes a request makes the server read through Content-Encoding ce: the body itself, or what the limiter lets through *)
Definition bytes_read_limited_v3 (ce : string) (body_len decoded_len limit : Z) : Z :=      (* after 3b40c0c: plain bodies unlimited *)
  if String.eqb ce "" then body_len else Z.min decoded_len limit.
(* fourth session: a body without Content-Encoding goes through the limiter as well *)
Definition bytes_read_limited (ce : string) (body_len decoded_len limit : Z) : Z :=
  Z.min (if String.eqb ce "" then body_len else decoded_len) limit.

(* ---- the source of the limiter, as regenerated by translate/gen_goroutines_writer (framing.go) ---- *)
Definition lim_wrap_model : string := "readColser{helpers.LimitDecoded(reader)}".
Definition lim_wrap_plain_model : string := "readColser{helpers.LimitDecoded(r.Body)}".      (* case "": the body itself *)
Definition lim_new_model : string := "&limitedDecoded{r: r, left: int64(pbPool.limit)}".
Definition lim_read_model : list string := [
  "if l.left < 0 { return 0, errDecodedTooLong }";
  "if int64(len(p)) > l.left+1 { p = p[:l.left+1] }";
  "n, err := l.r.Read(p)";
  "l.left -= int64(n)";
  "if l.left < 0 { return n - 1, errDecodedTooLong }";
  "return n, err"].
Definition err_decoded_too_long_model : string := "custom_errors.New400Error(""decompressed request too long"")".
Definition set_global_limit_pb_model : string := "limit / 2".
(* every Content-Encoding the middleware accepts -- "" (none) included since the fourth session -- replaces r.Body, and only
   by a LimitDecoded reader: around the decompressor, or around the body itself *)
Definition ce_all_limited (accepted : list string) (wraps : list (string * string)) : bool :=
  forallb (fun ce => existsb (fun w => String.eqb (fst w) ce) wraps) accepted
  && forallb (fun w => String.eqb (snd w) (if String.eqb (fst w) "" then lim_wrap_plain_model else lim_wrap_model)) wraps.
(* the source after 3b40c0c: case "" did nothing *)
Definition ce_all_limited_v3 (accepted : list string) (wraps : list (string * string)) : bool :=
  forallb (fun ce => String.eqb ce "" || existsb (fun w => String.eqb (fst w) ce) wraps) accepted
  && forallb (fun w => String.eqb (snd w) lim_wrap_model) wraps.
Definition limiter_source_ok (accepted : list string) (wraps : list (string * string)) (new : string) (read : list string)
    (err : string) (pool : Z) (setpb : string) : bool :=
  ce_all_limited accepted wraps && String.eqb new lim_new_model && strs_eqb read lim_read_model
  && String.eqb err err_decoded_too_long_model && Z.eqb pool pb_pool_limit_default && String.eqb setpb set_global_limit_pb_model.

(* ---- cases of harness limread: the REAL helpers.LimitDecoded over a scripted reader ---- *)
Record rcase := {
  rc_id : Z;
  rc_global : Z;                  (* argument of helpers.SetGlobalLimit *)
  rc_decoded : Z;                 (* bytes the scripted reader has *)
  rc_calls : list (Z * Z);        (* (len(p), chunk) *)
  rc_obs : list (Z * rerr)        (* (n, err) returned by each Read *)
}.
Definition rerr_eqb (a b : rerr) : bool :=
  match a, b with ENil, ENil | EEof, EEof | EUnder, EUnder | ETooLong, ETooLong => true | _, _ => false end.
Fixpoint results_eqb (a b : list (Z * rerr)) : bool :=
  match a, b with
  | [], [] => true
  | (n, e) :: a', (m, f) :: b' => Z.eqb n m && rerr_eqb e f && results_eqb a' b'
  | _, _ => false
  end.
Definition rcase_expected (c : rcase) : list (Z * rerr) :=
  lim_run (lim_init (set_global_limit (rc_global c)) (rc_decoded c)) (rc_calls c).
Definition rcase_mismatch (c : rcase) : bool := negb (results_eqb (rcase_expected c) (rc_obs c)).
(* the property's oracle on what the real reader did: never more than limit bytes, and never a success (EOF) once the
   data is longer than the limit *)
Definition rcase_spec_ok (c : rcase) : bool :=
  let limit := set_global_limit (rc_global c) in
  (delivered (rc_obs c) <=? limit)
  && (negb (limit <? rc_decoded c) || negb (existsb (fun r => rerr_eqb (snd r) EEof) (rc_obs c))).
Definition r_mismatches (cs : list rcase) : list Z := map rc_id (filter rcase_mismatch cs).
Definition r_spec_violations (cs : list rcase) : list Z := map rc_id (filter (fun c => negb (rcase_spec_ok c)) cs).

(* ---- cases of harness ingestfuzz, stream "limit": a well-formed payload of a route that reads its body whole, of a given
   decoded size, plain or under Content-Encoding gzip / snappy, against the real router with a known limit ---- *)
Record limcase := {
  lm_id : Z;
  lm_ce : string;
  lm_decoded : Z;                 (* bytes of the payload before Content-Encoding *)
  lm_inner : Z;                   (* /ingest: bytes the gzip layer of the pprof body itself inflates to (0: none); fix 5 *)
  lm_bomb : bool;                 (* the inner layer is not a profile: refused whatever its size *)
  lm_limit : Z;                   (* pbPool.limit the harness configured *)
  lm_obs : obs
}.
(* lm_decoded: the bytes of the payload before Content-Encoding -- the body itself when there is none *)
Definition lim_over (c : limcase) : bool := (lm_limit c <? lm_decoded c) || (lm_limit c <? lm_inner c) || lm_bomb c.
Definition lim_over_v3 (c : limcase) : bool := negb (String.eqb (lm_ce c) "") && (lm_limit c <? lm_decoded c).
Definition lim_predict (c : limcase) : expect := if lim_over c then AnyError else Exact C2xx.
Definition lim_spec_ok (c : limcase) : bool :=
  let ob := lm_obs c in
  responded (ob_outcome ob) && ob_canary_ok ob
  && (ob_alloc_kb ob <=? alloc_bound_kb (served_kb ob))
  && match ob_outcome ob with O2xx => negb (lim_over c) | _ => true end.
Definition lim_mismatches (cs : list limcase) : list Z :=
  map lm_id (filter (fun c => negb (accepts (lim_predict c) (ob_outcome (lm_obs c)))) cs).
Definition lim_spec_violations (cs : list limcase) : list Z := map lm_id (filter (fun c => negb (lim_spec_ok c)) cs).

(* ------------------------------------------------------------------------------------------ *)
(** * 2. The connection: a body the client does not finish *)

(* what the client does after the request head: deliver n more body bytes, stay silent for ms milliseconds, close the
   connection.  When the script is over the client stays silent for ever. *)
Inductive client_ev := CDeliver (n : Z) | CSilence (ms : Z) | CClose.
Inductive body_res :=
| BodyRead (at_ms : Z)          (* the handler got its Content-Length bytes *)
| BodyAborted (at_ms : Z)       (* Read failed (deadline passed / connection closed): the handler returns with an error status *)
| BodyWaitsForever.             (* the handler goroutine sits in Read for as long as the client keeps the connection *)

(* net/http: with ReadTimeout d > 0 the connection's read deadline is the start of the request + d (conn.readRequest);
   every Read of the body beyond it fails.  deadline = 0: http.Serve(listener, handler), the zero-value server. *)
Fixpoint read_body (deadline need got now : Z) (evs : list client_ev) : body_res :=
  if need <=? got then BodyRead now else
  match evs with
  | [] => if 0 <? deadline then BodyAborted deadline else BodyWaitsForever
  | CClose :: _ => BodyAborted now
  | CSilence ms :: r =>
      if (0 <? deadline) && (deadline <=? now + Z.max 0 ms) then BodyAborted deadline
      else read_body deadline need got (now + Z.max 0 ms) r
  | CDeliver n :: r => read_body deadline need (got + Z.max 0 n) now r
  end.

(* main.go httpStart as regenerated (framing.go writeServer) *)
Definition server_serve_model : string := "srv.Serve(listener)".
Definition server_read_timeout_model : Z := 120000.
Definition server_read_header_timeout_model : Z := 30000.
Definition server_source_ok (serve : string) (rt rht : Z) : bool :=
  String.eqb serve server_serve_model && Z.eqb rt server_read_timeout_model && Z.eqb rht server_read_header_timeout_model.

(* cases of harness ingestfuzz --stall: the real router behind a real listener built like httpStart (timeouts scaled down
   by the check), a client that sends `sent` of `total` body bytes and then nothing for `window` ms *)
Record stallcase := {
  st_id : Z; st_total : Z; st_sent : Z; st_window : Z; st_read_timeout : Z;
  st_answered : bool; st_status_class : outcome; st_stuck : bool; st_canary_ok : bool; st_released_ms : Z
}.
(* what the model says about the handler at the end of the window *)
Definition stall_expected (c : stallcase) : body_res :=
  read_body (st_read_timeout c) (st_total c) 0 0 [CDeliver (st_sent c); CSilence (st_window c)].
Definition stall_mismatch (c : stallcase) : bool :=
  match stall_expected c with
  | BodyRead _ => negb (st_answered c) || st_stuck c
  | BodyAborted _ => st_stuck c
  | BodyWaitsForever => negb (st_stuck c)
  end.
(* the property: a request is answered or given up in bounded time -- no goroutine in handler code at the end of the window;
   other clients are served meanwhile; nothing is left once the client has gone; a complete body is answered, an
   incomplete one never 2xx *)
Definition stall_spec_ok (c : stallcase) : bool :=
  negb (st_stuck c) && st_canary_ok c && (0 <=? st_released_ms c)
  && (if st_total c <=? st_sent c then st_answered c
      else negb (st_answered c) || match st_status_class c with O4xx | O5xx => true | _ => false end).
Definition stall_mismatches (cs : list stallcase) : list Z := map st_id (filter stall_mismatch cs).
Definition stall_spec_violations (cs : list stallcase) : list Z := map st_id (filter (fun c => negb (stall_spec_ok c)) cs).

(* ------------------------------------------------------------------------------------------ *)
(** * 3. NDJSON framing: `for scanner.Scan() { line handler }` + scanner.Err() *)

(* a line of the body as the loop sees it: its length without the newline, and whether the line handler
   (DecodeLine + onEntries / decodeLine / decodeSpan -- oracles: jx and the batching handlers) returns nil for it *)
Record nd_line := { nl_len : Z; nl_ok : bool;
                    nl_rows : Z }.    (* rows the line stores once handled (an Elasticsearch action line: none) *)
(* how the body ends: EOF, or the reader fails (LimitDecoded's 400, a corrupt gzip stream, the connection's read deadline) *)
Inductive body_end := EndClean | EndReadErr.
(* the body: newline-terminated lines, an unterminated rest (if any), the end *)
Record nd_body := { nb_lines : list nd_line; nb_tail : option nd_line; nb_end : body_end }.

(* bufio.Scanner with ScanLines and Buffer(_, max): a token (line + newline, or the rest at EOF / at a read error) must
   fit into a buffer of max bytes with one byte to spare for the terminator or the next read: it is handed out iff
   nl_len < max; a longer line ends the scan with ErrTooLong, it and everything after it is not handed out.  After a read
   error the rest is still handed out (atEOF), then Err() is the read error. *)
Inductive scan_err := SNone | STooLong | SRead.
Fixpoint scan_lines (max : Z) (ls : list nd_line) : list nd_line * bool :=    (* tokens, stopped by ErrTooLong *)
  match ls with
  | [] => ([], false)
  | l :: r => if nl_len l <? max then let '(ts, e) := scan_lines max r in (l :: ts, e) else ([], true)
  end.
Definition scan (max : Z) (b : nd_body) : list nd_line * scan_err :=
  let all := (nb_lines b ++ match nb_tail b with Some t => [t] | None => [] end)%list in
  let '(ts, too_long) := scan_lines max all in
  (ts, if too_long then STooLong else match nb_end b with EndClean => SNone | EndReadErr => SRead end).

(* a framing loop as regenerated from the source *)
Record frame_prog := {
  fp_name : string;
  fp_split_lines : bool;          (* scanner.Split is bufio.ScanLines or not called (the default) *)
  fp_max_token : Z;               (* scanner.Buffer(_, max); bufio.MaxScanTokenSize = 65536 when Buffer is not called *)
  fp_line_err_returns : bool;     (* in the loop every `err` a call yields is followed by `if err != nil { return .. }` *)
  fp_checks_scan_err : bool;      (* after the loop: if err := scanner.Err(); err != nil { return .. } *)
  fp_scan_err_typed : bool;       (* .. NewUnmarshalError(err) *)
  fp_returns_nil : bool           (* the function ends with `return nil` *)
}.
Inductive frame_res := FrOk (handled : Z) | FrErr (handled : Z).
Fixpoint frame_loop (returns : bool) (ts : list nd_line) (handled : Z) : Z * bool :=    (* lines handled, stopped by an error *)
  match ts with
  | [] => (handled, false)
  | t :: r => if nl_ok t then frame_loop returns r (handled + 1)
              else if returns then (handled, true) else frame_loop returns r handled     (* the error is overwritten by the next line *)
  end.
Definition frame_run (p : frame_prog) (b : nd_body) : frame_res :=
  let '(ts, se) := scan (fp_max_token p) b in
  let '(n, stopped) := frame_loop (fp_line_err_returns p) ts 0 in
  if stopped then FrErr n
  else match se with
       | SNone => FrOk n
       | _ => if fp_checks_scan_err p then FrErr n else FrOk n
       end.
Definition frame_ok (p : frame_prog) : bool :=
  fp_split_lines p && (0 <? fp_max_token p) && fp_line_err_returns p && fp_checks_scan_err p && fp_scan_err_typed p && fp_returns_nil p.

(* a description of the INPUT: the body has a line the handler refuses, a line of max bytes or more, or does not arrive whole *)
Definition body_lines (b : nd_body) : list nd_line := (nb_lines b ++ match nb_tail b with Some t => [t] | None => [] end)%list.
Definition nd_malformed (max : Z) (b : nd_body) : bool :=
  existsb (fun l => negb (nl_ok l) || (max <=? nl_len l)) (body_lines b) || match nb_end b with EndReadErr => true | EndClean => false end.

(* the three loops as they are in the source today; and as they were before 630762c / 41ad518 (no Buffer call, no Err check) *)
Definition frame_progs_model : list frame_prog := [
  {| fp_name := "datadogCFRequestDec"; fp_split_lines := true; fp_max_token := 16777216; fp_line_err_returns := true;
     fp_checks_scan_err := true; fp_scan_err_typed := true; fp_returns_nil := true |};
  {| fp_name := "elasticBulkDec"; fp_split_lines := true; fp_max_token := 16777216; fp_line_err_returns := true;
     fp_checks_scan_err := true; fp_scan_err_typed := true; fp_returns_nil := true |};
  {| fp_name := "zipkinNDDecoderV2"; fp_split_lines := true; fp_max_token := 16777216; fp_line_err_returns := true;
     fp_checks_scan_err := true; fp_scan_err_typed := true; fp_returns_nil := true |}].
Definition frame_prog_orig : frame_prog :=
  {| fp_name := "orig"; fp_split_lines := true; fp_max_token := 65536; fp_line_err_returns := true;
     fp_checks_scan_err := false; fp_scan_err_typed := false; fp_returns_nil := true |}.
Definition frame_prog_eqb (a b : frame_prog) : bool :=
  String.eqb (fp_name a) (fp_name b) && Bool.eqb (fp_split_lines a) (fp_split_lines b) && Z.eqb (fp_max_token a) (fp_max_token b)
  && Bool.eqb (fp_line_err_returns a) (fp_line_err_returns b) && Bool.eqb (fp_checks_scan_err a) (fp_checks_scan_err b)
  && Bool.eqb (fp_scan_err_typed a) (fp_scan_err_typed b) && Bool.eqb (fp_returns_nil a) (fp_returns_nil b).
Fixpoint frame_progs_eqb (a b : list frame_prog) : bool :=
  match a, b with [], [] => true | x :: r, y :: r' => frame_prog_eqb x y && frame_progs_eqb r r' | _, _ => false end.

(* cases of harness ingestfuzz, stream "frame": NDJSON bodies with lines of chosen lengths (around 64 KiB and 16 MiB too),
   refused lines, an unterminated rest, a reader that fails part-way, against the real router; observed: the status class
   and the rows that reached the fake back-end for the request *)
Record framecase := {
  fc_id : Z; fc_dec : string; fc_body : nd_body;
  fc_obs : obs; fc_rows : Z       (* rows that reached the back-end for this request *)
}.
Definition rows_of (ls : list nd_line) : Z := fold_right (fun l a => nl_rows l + a) 0 ls.
Definition find_prog (ps : list frame_prog) (n : string) : option frame_prog := find (fun p => String.eqb (fp_name p) n) ps.
Definition frame_predict (ps : list frame_prog) (c : framecase) : expect :=
  match find_prog ps (fc_dec c) with
  | None => AnyResponse
  | Some p => match frame_run p (fc_body c) with FrOk _ => Exact C2xx | FrErr _ => AnyError end
  end.
Definition frame_mismatch (ps : list frame_prog) (c : framecase) : bool :=
  negb (accepts (frame_predict ps c) (ob_outcome (fc_obs c)))
  || match find_prog ps (fc_dec c), ob_outcome (fc_obs c) with
     | Some p, O2xx => match frame_run p (fc_body c) with
                       | FrOk n => negb (Z.eqb n (Z.of_nat (List.length (body_lines (fc_body c))))) || negb (Z.eqb (fc_rows c) (rows_of (body_lines (fc_body c))))
                       | FrErr _ => false
                       end
     | _, _ => false
     end.
(* the property: answered, alive, allocation bounded; a malformed body is not answered 2xx; and a body answered 2xx has
   stored every one of its lines (no silent drop) *)
Definition frame_spec_ok (max : Z) (c : framecase) : bool :=
  let ob := fc_obs c in
  responded (ob_outcome ob) && ob_canary_ok ob && (ob_alloc_kb ob <=? alloc_bound_kb (served_kb ob))
  && match ob_outcome ob with
     | O2xx => negb (nd_malformed max (fc_body c)) && Z.eqb (fc_rows c) (rows_of (body_lines (fc_body c)))
     | _ => true
     end.
Definition frame_mismatches (ps : list frame_prog) (cs : list framecase) : list Z := map fc_id (filter (frame_mismatch ps) cs).
Definition frame_spec_violations (max : Z) (cs : list framecase) : list Z := map fc_id (filter (fun c => negb (frame_spec_ok max c)) cs).

(* ------------------------------------------------------------------------------------------ *)
(** * 4. The equal-length contract of the non-literal onEntries call sites, regenerated *)

(* translate/goroutines_writer_src/framing.go (writeLockstep) checks, for every onEntries call whose slice arguments are not
   one-element literals, that the identifiers / fields passed (the group) change length only in statement lists that apply
   the same change (append of one element, [:0], make) to every member exactly once with no control flow in between, and
   that the other arguments are make / fastFillArray of len(member) or of the expression the members are made with.
   Every site log_batches_are_rectangular relies on (entries_call_allow) must come out "lockstep". *)
Definition lockstep_site_ok (ls : list (string * string * string * string)) (c : string * string * string * string) : bool :=
  let '(f, fn, shape, _) := c in
  String.eqb shape "singletons"
  || existsb (fun l => let '(f', fn', v, _) := l in String.eqb f f' && String.eqb fn fn' && String.eqb v "lockstep") ls.
Definition lockstep_ok (calls ls : list (string * string * string * string)) : bool :=
  forallb (lockstep_site_ok ls) calls && forallb (fun l => let '(_, _, v, _) := l in String.eqb v "lockstep") ls.
