(* C14: executing ONE LogQL plan object again (live tail) and translating under a history.
   Definitions only. The stateful planner model is model/LogqlPlan.v (`process`): the state a
   Process call can reach is `pst` = the WITH caches of the plan object (planner.fpCache,
   planner.labelsCache) + the id counter of the shared.PlannerContext it was handed.

   Two ways the code executes a plan again:
   * QueryRangeService.Tail: every tick a NEW PlannerContext (id counter 0) and the SAME plan
     object (its caches are whatever the last Process left)          -> `run_tail`
   * one PlannerContext whose window is moved (harness logqlsql)      -> LogqlCases.run_plan
   The reference is a plan object that has never been executed. *)
From Coq Require Import List ZArith NArith String Ascii Bool.
From Qryn Require Import lib.Strs model.Sql model.SqlRender model.Logql model.LogqlPlan model.LogqlCases.
Import ListNotations.
Open Scope string_scope.

(* a new PlannerContext meets an already executed plan object *)
Definition new_ctx (st : pst) : pst :=
  {| fp_cache := fp_cache st; labels_cache := labels_cache st; pid := 0 |}.
(* a never executed plan object meets a context that has already handed out n ids *)
Definition at_pid (n : N) : pst := {| fp_cache := None; labels_cache := None; pid := n |}.

(* contexts that differ only in the window *)
Definition with_window (c : pctx) (w : Z * Z) : pctx :=
  {| c_from_ns := fst w; c_to_ns := snd w; c_limit := c_limit c; c_asc := c_asc c;
     c_cluster := c_cluster c; c_type := c_type c; c_finalize := c_finalize c; c_step_ns := c_step_ns c;
     t_gin := t_gin c; t_samples := t_samples c; t_ts := t_ts c; t_ts_dist := t_ts_dist c; t_m15 := t_m15 c |}.
Definition window_of (c : pctx) : Z * Z := (c_from_ns c, c_to_ns c).

(* plan() always returns a MainFinalizerPlanner *)
Definition is_root (p : planner) : bool :=
  match p with PMainFinalizer _ _ _ => true | _ => false end.

(* Tail: the statements of successive Process calls on one plan object, one window per call,
   a new context per call; the loop ends at the first error *)
Fixpoint run_tail (p : planner) (c : pctx) (ws : list (Z * Z)) (st : pst) : list (option string) :=
  match ws with
  | [] => []
  | w :: r =>
    match process p (with_window c w) (new_ctx st) with
    | None => [None]
    | Some (q, st', p') => render q (c_cluster c) :: run_tail p' c r st'
    end
  end.

(* the reference: for every window a plan object that was never executed, and a new context *)
Definition fresh_sql (p : planner) (c : pctx) (w : Z * Z) : option (option string) :=
  match process p (with_window c w) pst0 with
  | None => None
  | Some (q, _, _) => Some (render q (c_cluster c))
  end.
Fixpoint fresh_run (p : planner) (c : pctx) (ws : list (Z * Z)) : list (option string) :=
  match ws with
  | [] => []
  | w :: r => match fresh_sql p c w with
              | None => [None]
              | Some s => s :: fresh_run p c r
              end
  end.

(* reference for LogqlCases.run_plan (ONE context, the window advancing one second per call):
   k never executed plan objects processed under a context whose id counter continues *)
Fixpoint run_plan_ref (k : nat) (p : planner) (c : pctx) (n : N) : list (option string) :=
  match k with
  | O => []
  | S k' =>
    match process p c (at_pid n) with
    | None => [None]
    | Some (q, st', _) => render q (c_cluster c) :: run_plan_ref k' p (advance c) (pid st')
    end
  end.

(* ---------- why the reset in MainFinalizerPlanner is needed: the plan below the root,
   executed again under a new context, as the code did before 9757427 ---------- *)
Definition below_root (p : planner) : planner :=
  match p with PMainFinalizer m _ _ => m | _ => p end.
Definition second_run_text (p : planner) (c : pctx) (w1 w2 : Z * Z) : option string :=
  match process p (with_window c w1) pst0 with
  | None => None
  | Some (_, st1, p1) =>
    match process p1 (with_window c w2) (new_ctx st1) with
    | None => None
    | Some (q, _, _) => render q (c_cluster c)
    end
  end.
Definition fresh_text (p : planner) (c : pctx) (w : Z * Z) : option string :=
  match process p (with_window c w) pst0 with
  | None => None
  | Some (q, _, _) => render q (c_cluster c)
  end.

(* the live-tail witness: {a="b"} | level="error" | json x="x" | x="1" *)
Definition w_lf (l v : string) : label_filter :=
  LF (HSimple {| slf_label := l; slf_fn := LEq; slf_str := Some v; slf_num := None |}) None None.
Definition witness_sel : strsel :=
  {| sel_matchers := [{| m_name := "a"; m_op := MEq; m_val := "b" |}];
     sel_pipeline := [PLabelFilter (w_lf "level" "error");
                      PParser PJson [{| pp_label := "x"; pp_val := "x"; pp_path := Some ["x"] |}];
                      PLabelFilter (w_lf "x" "1")] |}.
Definition witness_ctx : pctx :=
  {| c_from_ns := 1700000000000000000; c_to_ns := 1700000300000000000; c_limit := 0; c_asc := false;
     c_cluster := false; c_type := 0; c_finalize := true; c_step_ns := 1000000000;
     t_gin := "time_series_gin"; t_samples := "samples_v3"; t_ts := "time_series"; t_ts_dist := "time_series";
     t_m15 := "metrics_15s" |}.
Definition witness_w1 : Z * Z := (1700000000000000000, 1700000300000000000)%Z.
Definition witness_w2 : Z * Z := (1700000001000000000, 1700000301000000000)%Z.
Definition ostring_eqb (a b : option string) : bool :=
  match a, b with Some x, Some y => String.eqb x y | None, None => true | _, _ => false end.

(* ---------- the date bound of the fp_sel / _time_series sub-selects ---------- *)
(* a cached sub-select keeps the bound of the window it was built for; an IN (...) list is a set *)
Section INLIST.
  Context {V : Type} (veq : V -> V -> bool).
  Definition in_sem (v : V) (l : list V) : bool := existsb (veq v) l.      (* v IN (l) *)
End INLIST.

(* ---------- Select.String prints SETTINGS by ranging over a Go map ---------- *)
(* the text of the clause for one iteration order kv of the map (SqlRender.rsel) *)
Definition settings_text (kv : list (string * string)) : string :=
  match kv with
  | [] => ""
  | _ => " SETTINGS " ++ String.concat "" (map (fun p => fst p ++ "=" ++ snd p ++ " ") kv)
  end.

(* ---------- case records evaluated inside Coq by checks/c14.py (small volume; the bulk goes
   through the extracted model) ---------- *)
Record tcase := {
  tc_id : Z; tc_script : script; tc_final : bool; tc_ctx : pctx;
  tc_windows : list (Z * Z);
  tc_tail : list (option string)          (* observed: one plan object, new context per call *)
}.
Definition tcase_model (c : tcase) : list (option string) :=
  match plan_script (tc_script c) (tc_final c) with
  | None => [None]
  | Some p => run_tail p (tc_ctx c) (tc_windows c) pst0
  end.
Definition tcase_mismatch (c : tcase) : bool := negb (olist_eqb (tcase_model c) (tc_tail c)).
Definition tail_mismatches (cs : list tcase) : list Z := map tc_id (filter tcase_mismatch cs).
(* the property's oracle on the OBSERVED statements alone: every statement of the tail run is the
   statement a fresh plan yields for that window (model of the fresh plan) *)
Definition tcase_spec_violation (c : tcase) : bool :=
  match plan_script (tc_script c) (tc_final c) with
  | None => false
  | Some p => negb (olist_eqb (fresh_run p (tc_ctx c) (tc_windows c)) (tc_tail c))
  end.
Definition tail_spec_violations (cs : list tcase) : list Z := map tc_id (filter tcase_spec_violation cs).

(* ---------- reviewed places where Go ranges over a map while building SQL (coq/gen/GenSqlSites.v
   lists what the sources contain today; anything not listed here fails the obligation) ----------
   * labelsGetter.getFetchRequest: the keys become the elements of an IN (...) list: the text varies with
     the iteration order, the meaning does not (in_list_perm);
   * Select.String: the SETTINGS clause; unreachable while nothing calls SetSetting
     (set_setting_calls = []), see render_order_independent / settings_order_matters. *)
Definition site4 := (string * string * string * string)%type.
Definition reviewed_ranges : list site4 :=
  [("reader/service/promQueryable.go", "labelsGetter.getFetchRequest", "l.fingerprintToFetch", "k");
   ("reader/utils/sql_select/select.go", "Select.String", "s.settings", "kv")].
Definition site4_eqb (a b : site4) : bool :=
  let '(a1, a2, a3, a4) := a in let '(b1, b2, b3, b4) := b in
  String.eqb a1 b1 && String.eqb a2 b2 && String.eqb a3 b3 && String.eqb a4 b4.
Definition unreviewed_ranges (l : list site4) : list site4 :=
  filter (fun r => negb (existsb (site4_eqb r) reviewed_ranges)) l.

(* ---------- reviewed package-level state reachable from translation functions (GenSqlSites.v
   translation_package_state lists what the sources contain today: variables under reader/ that a function
   reachable from Parse / Plan* / Transpile / a planner's Process / an SQL String method assigns, takes the
   address of, or calls a pointer-receiver method on; calls through interfaces are expanded by method name, so
   the list over-approximates). None of them holds a query, a parsed script, a plan or SQL text:
   * compiled regexp / participle parsers built once at start-up and only read (ReplaceAllString, ParseString);
   * generated protobuf descriptor tables;
   * utils/dbVersion: the per-database version cache (reached through the by-name expansion of Process);
   * the logger; the read lock of the table-name map. *)
Definition site3 := (string * string * string)%type.
Definition reviewed_state : list site3 :=
  [("logql/logql_transpiler_v2/internal_planner", "sanitizeRe", "*regexp.Regexp");
   ("prof", "file_querier_proto_enumTypes", "[]protoimpl.EnumInfo");
   ("prof/parser", "Parser", "*participle.Parser[parser.Script]");
   ("prof/types/v1", "file_types_v1_types_proto_enumTypes", "[]protoimpl.EnumInfo");
   ("tempo", "tagsParser", "*participle.Parser[tempo.Tags]");
   ("utils/dbVersion", "mtx", "sync.Mutex");
   ("utils/dbVersion", "throttled", "int32");
   ("utils/dbVersion", "versions", "map[string]dbVersion.VersionInfo");
   ("utils/logger", "Logger", "*logrus.Logger");
   ("utils/tables", "lock", "sync.RWMutex")].
Definition site3_eqb (a b : site3) : bool :=
  let '(a1, a2, a3) := a in let '(b1, b2, b3) := b in
  String.eqb a1 b1 && String.eqb a2 b2 && String.eqb a3 b3.
Definition unreviewed_state (l : list site3) : list site3 :=
  filter (fun r => negb (existsb (site3_eqb r) reviewed_state)) l.

(* ---------- one context whose id counter continues: when is the statement EXACTLY the fresh one? ----------
   PlannerContext.Id() is drawn by SimpleLabelFilterPlanner, MainRenewPlanner and ByWithoutPlanner only
   (CTE aliases subsel_n, pre_by_without_n, labels_n, pre_without_n); any planner this file does not know is
   counted as drawing ids. *)
Fixpoint draws_ids (p : planner) : bool :=
  match p with
  | PStreamSelect _ | PMainInit | PTimeSeriesInit | PMetrics15 _ _ => false
  | PFingerprintFilter fp main => draws_ids fp || draws_ids main
  | PLabelsJoin main fp ts _ => draws_ids main || draws_ids fp || draws_ids ts
  | PLineFilterP _ _ _ main | PLabelFilterP _ main | PParserP _ _ main | PDropP _ main | PMainOrderBy _ main
  | PMainLimit main | PMainFinalizer main _ _ | PLraP _ _ _ main | PUnwrapP _ main | PUnwrapFnP _ _ main
  | PAggOpP _ _ main | PComparisonP _ _ main | PTopKP _ _ main | PQuantileP _ _ main | PStepFixP _ main => draws_ids main
  | _ => true
  end.
Definition add_pid (n : N) (st : pst) : pst :=
  {| fp_cache := fp_cache st; labels_cache := labels_cache st; pid := (pid st + n)%N |}.
Definition lift_pid (n : N) (r : res (select * pst * planner)) : res (select * pst * planner) :=
  match r with Some (q, st', p') => Some (q, add_pid n st', p') | None => None end.
(* k never executed plans, a new context each, the window advancing one second per call *)
Fixpoint fresh_seq (k : nat) (p : planner) (c : pctx) : list (option string) :=
  match k with
  | O => []
  | S k' => match process p c pst0 with
            | None => [None]
            | Some (q, _, _) => render q (c_cluster c) :: fresh_seq k' p (advance c)
            end
  end.
