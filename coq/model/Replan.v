(* C14: executing ONE LogQL plan object again (live tail) and translating under a history.
   Definitions only. The stateful planner model is model/LogqlPlan.v (`process`): the state a
   Process call can reach is `pst` = the WITH caches of the plan object (planner.fpCache,
   planner.labelsCache) + the id counter of the shared.PlannerContext it was handed.

   Two ways the code executes a plan again:
   * QueryRangeService.Tail: every tick a NEW PlannerContext (id counter 0) and the SAME plan
     object (its caches are whatever the last Process left)          -> `run_tail`
   * one PlannerContext whose window is moved (harness logqlsql)      -> LogqlCases.run_plan
   The reference is a plan object that has never been executed. *)
From Coq Require Import List ZArith NArith String Ascii Bool.
From Qryn Require Import lib.Strs model.Sql model.SqlRender model.Logql model.LogqlPlan model.LogqlCases.
Import ListNotations.
Open Scope string_scope.

(* a new PlannerContext meets an already executed plan object *)
Definition new_ctx (st : pst) : pst :=
  {| fp_cache := fp_cache st; labels_cache := labels_cache st; pid := 0 |}.
(* a never executed plan object meets a context that has already handed out n ids *)
Definition at_pid (n : N) : pst := {| fp_cache := None; labels_cache := None; pid := n |}.

(* contexts that differ only in the window *)
Definition with_window (c : pctx) (w : Z * Z) : pctx :=
  {| c_from_ns := fst w; c_to_ns := snd w; c_limit := c_limit c; c_asc := c_asc c;
     c_cluster := c_cluster c; c_type := c_type c; c_finalize := c_finalize c; c_step_ns := c_step_ns c;
     t_gin := t_gin c; t_samples := t_samples c; t_ts := t_ts c; t_ts_dist := t_ts_dist c; t_m15 := t_m15 c |}.
Definition window_of (c : pctx) : Z * Z := (c_from_ns c, c_to_ns c).

(* plan() always returns a MainFinalizerPlanner *)
Definition is_root (p : planner) : bool :=
  match p with PMainFinalizer _ _ _ => true | _ => false end.

(* Tail: the statements of successive Process calls on one plan object, one window per call,
   a new context per call; the loop ends at the first error *)
Fixpoint run_tail (p : planner) (c : pctx) (ws : list (Z * Z)) (st : pst) : list (option string) :=
  match ws with
  | [] => []
  | w :: r =>
    match process p (with_window c w) (new_ctx st) with
    | None => [None]
    | Some (q, st', p') => render q (c_cluster c) :: run_tail p' c r st'
    end
  end.

(* the reference: for every window a plan object that was never executed, and a new context *)
Definition fresh_sql (p : planner) (c : pctx) (w : Z * Z) : option (option string) :=
  match process p (with_window c w) pst0 with
  | None => None
  | Some (q, _, _) => Some (render q (c_cluster c))
  end.
Fixpoint fresh_run (p : planner) (c : pctx) (ws : list (Z * Z)) : list (option string) :=
  match ws with
  | [] => []
  | w :: r => match fresh_sql p c w with
              | None => [None]
              | Some s => s :: fresh_run p c r
              end
  end.

(* reference for LogqlCases.run_plan (ONE context, the window advancing one second per call):
   k never executed plan objects processed under a context whose id counter continues *)
Fixpoint run_plan_ref (k : nat) (p : planner) (c : pctx) (n : N) : list (option string) :=
  match k with
  | O => []
  | S k' =>
    match process p c (at_pid n) with
    | None => [None]
    | Some (q, st', _) => render q (c_cluster c) :: run_plan_ref k' p (advance c) (pid st')
    end
  end.

(* ---------- why the reset in MainFinalizerPlanner is needed: the plan below the root,
   executed again under a new context, as the code did before 9757427 ---------- *)
Definition below_root (p : planner) : planner :=
  match p with PMainFinalizer m _ _ => m | _ => p end.
Definition second_run_text (p : planner) (c : pctx) (w1 w2 : Z * Z) : option string :=
  match process p (with_window c w1) pst0 with
  | None => None
  | Some (_, st1, p1) =>
    match process p1 (with_window c w2) (new_ctx st1) with
    | None => None
    | Some (q, _, _) => render q (c_cluster c)
    end
  end.
Definition fresh_text (p : planner) (c : pctx) (w : Z * Z) : option string :=
  match process p (with_window c w) pst0 with
  | None => None
  | Some (q, _, _) => render q (c_cluster c)
  end.

(* the live-tail witness: {a="b"} | level="error" | json x="x" | x="1" *)
Definition w_lf (l v : string) : label_filter :=
  LF (HSimple {| slf_label := l; slf_fn := LEq; slf_str := Some v; slf_num := None |}) None None.
Definition witness_sel : strsel :=
  {| sel_matchers := [{| m_name := "a"; m_op := MEq; m_val := "b" |}];
     sel_pipeline := [PLabelFilter (w_lf "level" "error");
                      PParser PJson [{| pp_label := "x"; pp_val := "x"; pp_path := Some ["x"] |}];
                      PLabelFilter (w_lf "x" "1")] |}.
Definition witness_ctx : pctx :=
  {| c_from_ns := 1700000000000000000; c_to_ns := 1700000300000000000; c_limit := 0; c_asc := false;
     c_cluster := false; c_type := 0; c_finalize := true; c_step_ns := 1000000000;
     t_gin := "time_series_gin"; t_samples := "samples_v3"; t_ts := "time_series"; t_ts_dist := "time_series";
     t_m15 := "metrics_15s" |}.
Definition witness_w1 : Z * Z := (1700000000000000000, 1700000300000000000)%Z.
Definition witness_w2 : Z * Z := (1700000001000000000, 1700000301000000000)%Z.
Definition ostring_eqb (a b : option string) : bool :=
  match a, b with Some x, Some y => String.eqb x y | None, None => true | _, _ => false end.

(* ---------- the date bound of the fp_sel / _time_series sub-selects ---------- *)
(* a cached sub-select keeps the bound of the window it was built for; an IN (...) list is a set *)
Section INLIST.
  Context {V : Type} (veq : V -> V -> bool).
  Definition in_sem (v : V) (l : list V) : bool := existsb (veq v) l.      (* v IN (l) *)
End INLIST.

(* ---------- Select.String prints SETTINGS by ranging over a Go map ---------- *)
(* the text of the clause for one iteration order kv of the map (SqlRender.rsel) *)
Definition settings_text (kv : list (string * string)) : string :=
  match kv with
  | [] => ""
  | _ => " SETTINGS " ++ String.concat "" (map (fun p => fst p ++ "=" ++ snd p ++ " ") kv)
  end.

(* ---------- case records evaluated inside Coq by checks/c14.py (small volume; the bulk goes
   through the extracted model) ---------- *)
Record tcase := {
  tc_id : Z; tc_script : script; tc_final : bool; tc_ctx : pctx;
  tc_windows : list (Z * Z);
  tc_tail : list (option string)          (* observed: one plan object, new context per call *)
}.
Definition tcase_model (c : tcase) : list (option string) :=
  match plan_script (tc_script c) (tc_final c) with
  | None => [None]
  | Some p => run_tail p (tc_ctx c) (tc_windows c) pst0
  end.
Definition tcase_mismatch (c : tcase) : bool := negb (olist_eqb (tcase_model c) (tc_tail c)).
Definition tail_mismatches (cs : list tcase) : list Z := map tc_id (filter tcase_mismatch cs).
(* the property's oracle on the OBSERVED statements alone: every statement of the tail run is the
   statement a fresh plan yields for that window (model of the fresh plan) *)
Definition tcase_spec_violation (c : tcase) : bool :=
  match plan_script (tc_script c) (tc_final c) with
  | None => false
  | Some p => negb (olist_eqb (fresh_run p (tc_ctx c) (tc_windows c)) (tc_tail c))
  end.
Definition tail_spec_violations (cs : list tcase) : list Z := map tc_id (filter tcase_spec_violation cs).

(* ---------- reviewed places where Go ranges over a map while building SQL (coq/gen/GenSqlSites.v
   lists what the sources contain today; anything not listed here fails the obligation) ----------
   * labelsGetter.getFetchRequest: the keys become the elements of an IN (...) list: the text varies with
     the iteration order, the meaning does not (in_list_perm);
   * Select.String: the SETTINGS clause; unreachable while nothing calls SetSetting
     (set_setting_calls = []), see render_order_independent / settings_order_matters. *)
Definition site4 := (string * string * string * string)%type.
Definition reviewed_ranges : list site4 :=
  [("reader/service/promQueryable.go", "labelsGetter.getFetchRequest", "l.fingerprintToFetch", "k");
   ("reader/utils/sql_select/select.go", "Select.String", "s.settings", "kv")].
Definition site4_eqb (a b : site4) : bool :=
  let '(a1, a2, a3, a4) := a in let '(b1, b2, b3, b4) := b in
  String.eqb a1 b1 && String.eqb a2 b2 && String.eqb a3 b3 && String.eqb a4 b4.
Definition unreviewed_ranges (l : list site4) : list site4 :=
  filter (fun r => negb (existsb (site4_eqb r) reviewed_ranges)) l.

(* ---------- reviewed package-level state reachable from translation functions (GenSqlSites.v
   translation_package_state lists what the sources contain today: variables under reader/ that a function
   reachable from Parse / Plan* / Transpile / a planner's Process / an SQL String method assigns, takes the
   address of, or calls a pointer-receiver method on; calls through interfaces are expanded by method name, so
   the list over-approximates). None of them holds a query, a parsed script, a plan or SQL text:
   * compiled regexp / participle parsers built once at start-up and only read (ReplaceAllString, ParseString);
   * generated protobuf descriptor tables;
   * utils/dbVersion: the per-database version cache (reached through the by-name expansion of Process);
   * the logger; the read lock of the table-name map. *)
Definition site3 := (string * string * string)%type.
Definition reviewed_state : list site3 :=
  [("logql/logql_transpiler_v2/internal_planner", "sanitizeRe", "*regexp.Regexp");
   ("prof", "file_querier_proto_enumTypes", "[]protoimpl.EnumInfo");
   ("prof/parser", "Parser", "*participle.Parser[parser.Script]");
   ("prof/types/v1", "file_types_v1_types_proto_enumTypes", "[]protoimpl.EnumInfo");
   ("tempo", "tagsParser", "*participle.Parser[tempo.Tags]");
   ("utils/dbVersion", "mtx", "sync.Mutex");
   ("utils/dbVersion", "throttled", "int32");
   ("utils/dbVersion", "versions", "map[string]dbVersion.VersionInfo");
   ("utils/logger", "Logger", "*logrus.Logger");
   ("utils/tables", "lock", "sync.RWMutex")].
Definition site3_eqb (a b : site3) : bool :=
  let '(a1, a2, a3) := a in let '(b1, b2, b3) := b in
  String.eqb a1 b1 && String.eqb a2 b2 && String.eqb a3 b3.
Definition unreviewed_state (l : list site3) : list site3 :=
  filter (fun r => negb (existsb (site3_eqb r) reviewed_state)) l.

(* ---------- every package-level variable the translation can see (GenSqlSites.v translation_package_vars: all package-level
   variables of the packages in the import closure of the translation packages and of the packages of reachable functions, with
   two facts computed from the sources: some function other than init writes it -- assignment, element store, delete/copy/sort,
   address taken, pointer-receiver method called on it -- and a function reachable from the translation entry points mentions it).
   A variable with both facts is an input of the translation that is not an argument: each is reviewed here.
   * the ten of reviewed_state (parsers/regexps used through pointer methods, protobuf tables, db-version cache, logger, table lock);
   * the plugin slots of package plugins: nil unless a Register*Plugin function is called while the process starts (cmd wiring);
     no translation function writes them (they are absent from translation_package_state). ---------- *)
Definition site2 := (string * string)%type.
Definition reviewed_vars : list site2 :=
  [("logql/logql_transpiler_v2/internal_planner", "sanitizeRe");
   ("plugins", "attrlessConditionPlannerPlugin"); ("plugins", "initClickhousePlannerPlugin");
   ("plugins", "initDownsamplePlannerPlugin"); ("plugins", "initIndexPlannerPlugin"); ("plugins", "labelsGetterPlugin");
   ("plugins", "logQLTranspilerPlugins"); ("plugins", "metrics15ShortcutPlannerPlugin"); ("plugins", "sqlMainInitPlannerPlugin");
   ("plugins", "streamSelectPlannerPlugin"); ("plugins", "tableNamesPlugin"); ("plugins", "timeSeriesInitPlannerPlugin");
   ("plugins", "traceDataPlugin");
   ("prof", "file_querier_proto_enumTypes"); ("prof/parser", "Parser"); ("prof/types/v1", "file_types_v1_types_proto_enumTypes");
   ("tempo", "tagsParser");
   ("utils/dbVersion", "mtx"); ("utils/dbVersion", "throttled"); ("utils/dbVersion", "versions");
   ("utils/logger", "Logger"); ("utils/tables", "lock")].
Definition site2_eqb (a b : site2) : bool := String.eqb (fst a) (fst b) && String.eqb (snd a) (snd b).
Definition var6 := (string * string * string * string * bool * bool)%type.
Definition var_site (v : var6) : site2 := let '(p, n, _, _, _, _) := v in (p, n).
Definition var_relevant (v : var6) : bool := let '(_, _, _, _, written, read) := v in written && read.
(* written after init AND visible to the translation *)
Definition relevant_vars (l : list var6) : list site2 := map var_site (filter var_relevant l).
Definition unreviewed_vars (l : list var6) : list site2 :=
  filter (fun s => negb (existsb (site2_eqb s) reviewed_vars)) (relevant_vars l).
Fixpoint site2_list_eqb (a b : list site2) : bool :=
  match a, b with
  | [], [] => true
  | x :: a', y :: b' => site2_eqb x y && site2_list_eqb a' b'
  | _, _ => false
  end.
(* the state list is part of it: everything a translation function writes is something it can see *)
Definition state_in_vars (st : list site3) : bool :=
  forallb (fun s => let '(p, n, _) := s in existsb (site2_eqb (p, n)) reviewed_vars) st.

(* ---------- every store into memory that outlives the call (GenSqlSites.v translation_field_writes): for each function reachable
   from the translation entry points, every assignment / ++ / delete / copy / sort / library pointer-method call / sql_select builder
   call on a stored object whose target is rooted at the receiver, a parameter or a local alias of one: (function, root, owner
   type, field). Classified by (owner type, field); `*` = every field of a type whose objects are built and dropped inside one
   Plan / Process call. Anything not classified fails the obligation; the Process-time planner types are classified field by
   field, so a new cache field in a planner is a new, unreviewed line. ---------- *)
Inductive wclass :=
 | WModelled      (* a component of the model state: pst (fp_cache, labels_cache, pid) or the render counter rst *)
 | WMemo          (* written once from immutable fields of the same object: every later call finds the same value *)
 | WResetPerCall  (* scratch of one Process call: re-initialised by Process before it is read *)
 | WPlanTime      (* fields of the builder object of ONE Plan call (planner{}, expression planners, request processors) *)
 | WBuilder       (* sql_select objects under construction: a builder method stores into its receiver *)
 | WContext       (* the PlannerContext argument, filled in / advanced by the caller side: an argument of `process` in the model *)
 | WStream        (* rows flowing through the in-process pipeline (C09's subject): per-request data, not translation state *)
 | WScriptCut     (* breakScript cuts the parsed script handed to Plan in place (latent: every caller parses per request) *)
 | WNotTranslation(* reached only through the by-name expansion of interface calls: row fetching, not translation *).
Definition wclass_eqb (a b : wclass) : bool :=
  match a, b with
  | WModelled, WModelled | WMemo, WMemo | WResetPerCall, WResetPerCall | WPlanTime, WPlanTime | WBuilder, WBuilder
  | WContext, WContext | WStream, WStream | WScriptCut, WScriptCut | WNotTranslation, WNotTranslation => true
  | _, _ => false
  end.
Definition chp := "logql/logql_transpiler_v2/clickhouse_planner".
Definition inp := "logql/logql_transpiler_v2/internal_planner".
Definition shp := "logql/logql_transpiler_v2/shared".
Definition tqp := "traceql/transpiler/clickhouse_transpiler".
Definition reviewed_writes : list (string * string * wclass) :=
  [ (* the model state *)
    (chp ++ ".WithConnectorPlanner", "WithCache", WModelled);      (* planner.fpCache: pst.fp_cache *)
    (chp ++ ".LabelsJoinPlanner", "LabelsCache", WModelled);       (* planner.labelsCache: pst.labels_cache *)
    (chp ++ ".ByWithoutPlanner", "LabelsCache", WModelled);
    (chp ++ ".PlannerDropSimple", "LabelsCache", WModelled);
    ("utils/sql_select.With", "[*]", WModelled);                   (* MainFinalizerPlanner.Process: *cache = nil, clear_caches *)
    (shp ++ ".PlannerContext", "id", WModelled);                   (* pst.pid *)
    ("utils/sql_select.Ctx", "id", WModelled);                     (* SqlRender.rst r_id *)
    (* written once, a function of immutable fields *)
    (chp ++ ".MainFinalizerPlanner", "Alias", WMemo);              (* "" -> "prefinal" *)
    (chp ++ ".sqlMatch", "patternObj", WMemo);                     (* NewStringVal(pattern) when nil *)
    (chp ++ ".LabelFormatPlanner", "formatters", WMemo);           (* built when nil *)
    (inp ++ ".LineFilterPlanner", "re", WMemo);                    (* regexp.Compile(Val) *)
    (tqp ++ ".AttrConditionPlanner", "alias", WMemo);              (* "bsCond" *)
    (tqp ++ ".AttrConditionPlanner", "sqlConds", WMemo);           (* maybeCreateWhere: only when empty (TraceqlPlan call index) *)
    (tqp ++ ".AttrConditionPlanner", "where", WMemo);
    (tqp ++ ".AggregatorPlanner", "fCmpVal", WMemo);               (* parsed from CompareVal *)
    (* scratch of one call *)
    (chp ++ ".LineFormatPlanner", "args", WResetPerCall);          (* ProcessTpl starts from "", nil (fix 3563df1) *)
    (chp ++ ".LineFormatPlanner", "formatStr", WResetPerCall);
    (chp ++ ".LineFormatPlanner", "text", WResetPerCall);          (* the raw template text, reset with the two above (fix d930ef5, b4-lf) *)
    (tqp ++ ".AttrConditionPlanner", "isAliased", WResetPerCall);  (* false again when Process returns *)
    (inp ++ ".ByWithoutPlanner", "labels", WResetPerCall);
    (inp ++ ".ParserPlanner", "logfmtFields", WResetPerCall);
    (inp ++ ".ParserPlanner", "parameterTypedValues", WResetPerCall);
    (inp ++ ".jsonPathProcessor", "labels", WResetPerCall);
    (* builders of one Plan call *)
    (chp ++ ".planner", "*", WPlanTime);
    (tqp ++ ".planner", "*", WPlanTime);
    (tqp ++ ".simpleExpressionPlanner", "*", WPlanTime);
    (tqp ++ ".complexExpressionPlanner", "*", WPlanTime);
    (tqp ++ ".rootExpressionPlanner", "*", WPlanTime);
    ("traceql/transpiler.ComplexRequestProcessor", "main", WPlanTime);
    ("traceql/transpiler.SimpleRequestProcessor", "main", WPlanTime);
    ("traceql/transpiler.SimpleTagsV2RequestProcessor", "main", WPlanTime);
    ("prof/parser.Script", "Selectors", WPlanTime);                (* populateTypeId appends to a copy of the script struct *)
    (* sql_select *)
    ("utils/sql_select.Select", "*", WBuilder);
    ("utils/sql_select.LogicalOp", "clauses", WBuilder);
    (chp ++ ".UnionSelect", "MainSelect", WBuilder);
    (* the context argument *)
    (shp ++ ".PlannerContext", "From", WContext); (shp ++ ".PlannerContext", "To", WContext);
    (shp ++ ".PlannerContext", "CachedTraceIds", WContext); (shp ++ ".PlannerContext", "RandomFilter", WContext);
    (shp ++ ".PlannerContext", "Metrics15sTableName", WContext); (shp ++ ".PlannerContext", "ProfilesDistTable", WContext);
    (shp ++ ".PlannerContext", "ProfilesSeriesDistTable", WContext); (shp ++ ".PlannerContext", "ProfilesSeriesGinDistTable", WContext);
    (shp ++ ".PlannerContext", "ProfilesSeriesGinTable", WContext); (shp ++ ".PlannerContext", "ProfilesSeriesTable", WContext);
    (shp ++ ".PlannerContext", "ProfilesTable", WContext); (shp ++ ".PlannerContext", "SamplesTableName", WContext);
    (shp ++ ".PlannerContext", "TimeSeriesDistTableName", WContext); (shp ++ ".PlannerContext", "TimeSeriesGinTableName", WContext);
    (shp ++ ".PlannerContext", "TimeSeriesTableName", WContext); (shp ++ ".PlannerContext", "TracesAttrsDistTable", WContext);
    (shp ++ ".PlannerContext", "TracesAttrsTable", WContext); (shp ++ ".PlannerContext", "TracesDistTable", WContext);
    (shp ++ ".PlannerContext", "TracesKVDistTable", WContext); (shp ++ ".PlannerContext", "TracesKVTable", WContext);
    (shp ++ ".PlannerContext", "TracesTable", WContext);
    (* rows of the in-process pipeline *)
    (inp ++ ".aggOpStream", "values", WStream); (shp ++ ".LogEntry", "*", WStream);
    ("map[string]string", "[*]", WStream); ("[]float64", "[*]", WStream); ("uint64", "[*]", WStream);
    (* the parsed script *)
    ("logql/logql_parser.LRAOrUnwrap", "StrSel", WScriptCut); ("logql/logql_parser.StrSelector", "Pipelines", WScriptCut);
    (* groupByNothing (logql_transpiler_v2.Plan): a vector aggregation without clause is given `by ()` in the parsed script, in
       place, before either engine plans it; idempotent (a second Plan of the same script finds the clause) - added by b4-c08 *)
    ("logql/logql_parser.AggOperator", "ByOrWithoutSuffix", WScriptCut);
    (* not translation *)
    ("model.SeriesSet", "idx", WNotTranslation); ("service.RewriteTableV2", "*", WNotTranslation);
    ("service.labelsGetter", "*", WNotTranslation); ("utils/dsn.StableSqlxDBWrapper", "*", WNotTranslation) ].
Fixpoint write_class_in (rv : list (string * string * wclass)) (ty fld : string) : option wclass :=
  match rv with
  | [] => None
  | (t, f, c) :: r => if String.eqb t ty && (String.eqb f "*" || String.eqb f fld) then Some c else write_class_in r ty fld
  end.
Definition write_class := write_class_in reviewed_writes.
Definition unreviewed_writes (l : list site4) : list site4 :=
  filter (fun w => let '(_, _, ty, fld) := w in match write_class ty fld with None => true | Some _ => false end) l.
(* the distinct (type, field) pairs of one class among the generated writes, in order of first appearance *)
Fixpoint dedup2 (l : list site2) : list site2 :=
  match l with [] => [] | x :: r => x :: filter (fun y => negb (site2_eqb x y)) (dedup2 r) end.
Definition writes_of_class (c : wclass) (l : list site4) : list site2 :=
  dedup2 (flat_map (fun w => let '(_, _, ty, fld) := w in
                             match write_class ty fld with
                             | Some c' => if wclass_eqb c c' then [(ty, fld)] else []
                             | None => [] end) l).
(* state that survives a Process call and can differ between two calls: exactly what the model threads *)
Definition modelled_state : list site2 :=
  [(chp ++ ".ByWithoutPlanner", "LabelsCache"); (chp ++ ".LabelsJoinPlanner", "LabelsCache"); ("utils/sql_select.With", "[*]");
   (chp ++ ".PlannerDropSimple", "LabelsCache"); (chp ++ ".WithConnectorPlanner", "WithCache");
   (shp ++ ".PlannerContext", "id"); ("utils/sql_select.Ctx", "id")].
(* reviewed lines that no longer match any generated write (a stale review is reported, it is not a violation) *)
Definition stale_reviews (l : list site4) : list site2 :=
  map (fun r => let '(t, f, _) := r in (t, f))
      (filter (fun r => let '(t, f, _) := r in
                        negb (existsb (fun w => let '(_, _, ty, fld) := w in String.eqb t ty && (String.eqb f "*" || String.eqb f fld)) l))
              reviewed_writes).

(* the stores of one package among the generated writes: (function, type.field) *)
Definition writes_in_pkg (pkg : string) (l : list site4) : list site2 :=
  map (fun w => let '(f, _, ty, fld) := w in (f, ty ++ "." ++ fld))
      (filter (fun w => let '(f, _, _, _) := w in String.prefix (pkg ++ ":") f) l).
(* reader/prof/transpiler: no Process method stores into a planner field; the one store is populateTypeId (plan time, on a copy) *)
Definition prof_transpiler_writes : list site2 := [("prof/transpiler:populateTypeId", "prof/parser.Script.Selectors")].

(* ---------- one context whose id counter continues: when is the statement EXACTLY the fresh one? ----------
   PlannerContext.Id() is drawn by SimpleLabelFilterPlanner, MainRenewPlanner and ByWithoutPlanner
   (CTE aliases subsel_n, pre_by_without_n, labels_n, pre_without_n) and by LineFormatPlanner (the name of the Go template
   object: not printed, but it shifts the numbers drawn above it; PLineFormatP falls under the last clause); any planner
   this file does not know is counted as drawing ids. *)
Fixpoint draws_ids (p : planner) : bool :=
  match p with
  | PStreamSelect _ | PMainInit | PTimeSeriesInit | PMetrics15 _ _ => false
  | PFingerprintFilter fp main => draws_ids fp || draws_ids main
  | PLabelsJoin main fp ts _ => draws_ids main || draws_ids fp || draws_ids ts
  | PLineFilterP _ _ _ main | PLabelFilterP _ main | PParserP _ _ main | PDropP _ main | PMainOrderBy _ main
  | PMainLimit main | PMainFinalizer main _ _ | PLraP _ _ _ main | PUnwrapP _ main | PUnwrapFnP _ _ main
  | PAggOpP _ _ main | PComparisonP _ _ main | PTopKP _ _ main | PQuantileP _ _ main | PStepFixP _ main => draws_ids main
  | _ => true
  end.
Definition add_pid (n : N) (st : pst) : pst :=
  {| fp_cache := fp_cache st; labels_cache := labels_cache st; pid := (pid st + n)%N |}.
Definition lift_pid (n : N) (r : res (select * pst * planner)) : res (select * pst * planner) :=
  match r with Some (q, st', p') => Some (q, add_pid n st', p') | None => None end.
(* k never executed plans, a new context each, the window advancing one second per call *)
Fixpoint fresh_seq (k : nat) (p : planner) (c : pctx) : list (option string) :=
  match k with
  | O => []
  | S k' => match process p c pst0 with
            | None => [None]
            | Some (q, _, _) => render q (c_cluster c) :: fresh_seq k' p (advance c)
            end
  end.
