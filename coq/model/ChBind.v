(* C10 (round 6) -- clickhouse-go v2's CLIENT-SIDE bind (bind.go: bind / bindNumeric / bindPositional, format for a string;
   query_parameters.go: the entry point that chooses between native query parameters and bind) for calls whose arguments are all plain (unnamed) STRINGS: what the driver makes
   of (statement text, arguments) before the statement leaves the process.  Executable definitions only.

   Why it is here: the statement that reaches ClickHouse is not the text handed to ISqlxDB.QueryCtx.  Once the call has an argument the
   driver replaces every `$<digits>` (or every `?` not behind a backslash) of the TEXT by the driver-quoted argument - it does not
   parse SQL, so it does so inside the string literals the planners rendered for request values too.  Seeded change C10-f bound the
   label name of /label/{name}/values (`key == $1`): a matcher value holding `$1` then has the label name written into its literal.
   With no argument the driver returns the text as it stands (bind_go q [] = Some q): that is what every reader call does. *)
From Coq Require Import List String Ascii Bool NArith.
Import ListNotations.
Open Scope string_scope.

Definition b2s (c : ascii) : string := String c EmptyString.
Definition is_dollar (c : ascii) : bool := Ascii.eqb c "$".
Definition is_qm (c : ascii) : bool := Ascii.eqb c "?".
Definition is_bsl (c : ascii) : bool := Ascii.eqb c "\".
Definition is_nl (c : ascii) : bool := (N_of_ascii c =? 10)%N.
Definition is_dig (c : ascii) : bool := let n := N_of_ascii c in (48 <=? n)%N && (n <=? 57)%N.

(* format(tz, scale, v) for v : string = "'" + stringQuoteReplacer.Replace(v) + "'",
   stringQuoteReplacer = strings.NewReplacer(`\`, `\\`, `'`, `\'`): one pass, byte by byte *)
Definition drv_esc_char (c : ascii) : string :=
  if is_bsl c then "\\" else if Ascii.eqb c "'" then "\'" else b2s c.
Fixpoint drv_esc (s : string) : string :=
  match s with EmptyString => "" | String c r => drv_esc_char c ++ drv_esc r end.
Definition drv_quote (s : string) : string := "'" ++ drv_esc s ++ "'".

(* params[fmt.Sprintf("$%d", i+1)]: the key is the decimal numeral of i+1, so `$0`, `$01` name nothing *)
Fixpoint dec_val (ds : string) (acc : N) : N :=
  match ds with EmptyString => acc | String c r => dec_val r (acc * 10 + (N_of_ascii c - 48))%N end.
Definition lookup_numeric (ds : string) (args : list string) : option string :=
  match ds with
  | EmptyString => None
  | String c _ =>
    if Ascii.eqb c "0" then None
    else let n := dec_val ds 0 in
         if (n <=? N.of_nat (List.length args))%N then nth_error args (N.to_nat (n - 1)) else None
  end.

(* bindNumeric: bindNumericRe = `\$[0-9]+`, ReplaceAllStringFunc (leftmost, longest digit run); a placeholder without argument
   makes the driver refuse the statement.  pend = Some ds: a dollar sign and the digits ds read behind it are held back *)
Definition bn_emit (ds : string) (args : list string) (k : option string) : option string :=
  match k with
  | None => None
  | Some o =>
    match ds with
    | EmptyString => Some ("$" ++ o)
    | _ => match lookup_numeric ds args with Some v => Some (drv_quote v ++ o) | None => None end
    end
  end.
Fixpoint bn_run (s : string) (pend : option string) (args : list string) : option string :=
  match s with
  | EmptyString => match pend with None => Some "" | Some ds => bn_emit ds args (Some "") end
  | String c r =>
    let plain := if is_dollar c then bn_run r (Some "") args else option_map (String c) (bn_run r None args) in
    match pend with
    | None => plain
    | Some ds => if is_dig c then bn_run r (Some (ds ++ b2s c)) args else bn_emit ds args plain
    end
  end.

(* bindPositional: every `?` takes the next argument, `\?` is an escaped question mark (the backslash is dropped); more
   question marks than arguments: refused; arguments left over are ignored.  pb = a backslash is held back *)
Fixpoint bp_run (s : string) (pb : bool) (args : list string) : option string :=
  match s with
  | EmptyString => Some (if pb then "\" else "")
  | String c r =>
    if is_qm c then
      if pb then option_map (String "?") (bp_run r false args)
      else match args with
           | a :: rest => option_map (append (drv_quote a)) (bp_run r false rest)
           | [] => None
           end
    else
      let k := bp_run r (is_bsl c) args in
      let k' := if is_bsl c then k else option_map (String c) k in
      if pb then option_map (String "\") k' else k'
  end.

(* haveNumeric = bindNumericRe.MatchString(query); havePositional = regexp `[^\\][?]` *)
Fixpoint has_numeric (s : string) : bool :=
  match s with
  | EmptyString => false
  | String c r => (is_dollar c && match r with String d _ => is_dig d | _ => false end) || has_numeric r
  end.
Fixpoint has_positional (s : string) : bool :=
  match s with
  | EmptyString => false
  | String c r => (negb (is_bsl c) && match r with String d _ => is_qm d | _ => false end) || has_positional r
  end.

(* hasQueryParamsRe = `{.+:.+}` (the dot does not match a newline): with arguments such a statement takes the native query-parameter
   path, which wants NAMED string values: an unnamed argument is refused.
   st: 0 no brace on this line yet; 1 brace; 2 brace + a byte; 3 colon; 4 colon + a byte *)
Fixpoint qp_run (s : string) (st : N) : bool :=
  match s with
  | EmptyString => false
  | String c r =>
    if is_nl c then qp_run r 0
    else match st with
         | 0%N => qp_run r (if Ascii.eqb c "{" then 1 else 0)%N
         | 1%N => qp_run r 2%N
         | 2%N => qp_run r (if Ascii.eqb c ":" then 3 else 2)%N
         | 3%N => qp_run r 4%N
         | _ => if Ascii.eqb c "}" then true else qp_run r 4%N
         end
  end.
Definition has_query_params (s : string) : bool := qp_run s 0%N.

(* what leaves the driver: None = the driver refuses the statement (nothing is sent) *)
Definition bind_go (q : string) (args : list string) : option string :=
  match args with
  | [] => Some q
  | _ =>
    if has_query_params q then None
    else
      let hn := has_numeric q in
      let hp := has_positional q in
      if hn && hp then None
      else if hn then bn_run q None args
      else bp_run q false args
  end.

(* a text no placeholder syntax can start in *)
Fixpoint ph_free (s : string) : bool :=
  match s with
  | EmptyString => true
  | String c r => negb (is_dollar c) && negb (is_qm c) && negb (Ascii.eqb c "{") && ph_free r
  end.

Fixpoint no_byte (k : ascii) (s : string) : bool :=
  match s with EmptyString => true | String c r => negb (Ascii.eqb c k) && no_byte k r end.
Definition starts_with_digit (s : string) : bool :=
  match s with String c _ => is_dig c | EmptyString => false end.

(* correspondence cases (checks/c10.py): statement text, arguments, what reached the wire behind the real driver (None = refused) *)
Definition bind_case := (string * list string * option string)%type.
Definition bind_verdict (c : bind_case) : nat :=
  let '(q, args, out) := c in
  match bind_go q args, out with
  | None, None => 0
  | Some o, Some w => if String.eqb o w then 0 else 1
  | Some _, None => 2
  | None, Some _ => 3
  end.
