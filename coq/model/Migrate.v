(* C18 -- schema initialisation (ctrl/qryn/maintenance/update.go Update / updateScripts / getSQLFile,
   ctrl/qryn/sql/*.sql).  Executable definitions only.

   Part 1 (Section Proto): the update protocol, generic in the catalogue type, the statement type and the
   statement semantics `exec`: one database call = one `do_call` consuming one injected outcome
   (ok / failure before the effect / failure after the effect); `prelude` + `loop` = updateScripts;
   `run_streams`/`update` = Update; `multi_run` = any number of process starts.  `mon_ok` is the property's
   monitor over the call log.
   Part 2: the ClickHouse catalogue and the semantics of each statement class produced by
   translate/gen_scripts (trusted: what ClickHouse does when a statement is executed / re-executed).
   Part 3: observation alphabet, case record and the two functions evaluated by checks/c18.py over the
   observations of the real maintenance.Update. *)
From Coq Require Import List String NArith ZArith Bool Arith.
Import ListNotations.
Open Scope list_scope.
Open Scope nat_scope.

(* ------------------------------------------------------------------ streams and configuration *)
(* the six migration streams; stream_k is the `k` argument of updateScripts / the k column of table ver *)
Inductive stream := SLog | SLogDist | STraces | STracesDist | SProfiles | SProfilesDist.
Definition stream_k (k : stream) : N :=
  match k with SLog => 1 | STraces => 2 | SLogDist => 3 | STracesDist => 4 | SProfiles => 5 | SProfilesDist => 6 end%N.
Definition stream_eqb (a b : stream) : bool := N.eqb (stream_k a) (stream_k b).
Definition all_streams := [SLog; SLogDist; STraces; STracesDist; SProfiles; SProfilesDist].

(* Update's parameters that matter: mode&CLUST_MODE_CLOUD (replicated engines), mode&CLUST_MODE_DISTRIBUTED
   (the *_dist streams run), clusterName <> "" (ver_dist is created and read) *)
Record cfg := { cloud : bool; dist : bool; clustered : bool }.

(* order of the updateScripts calls in Update *)
Definition streams_of (c : cfg) : list stream :=
  [SLog] ++ (if dist c then [SLogDist] else []) ++ [STraces] ++ (if dist c then [STracesDist] else [])
  ++ [SProfiles] ++ (if dist c then [SProfilesDist] else []).

(* ------------------------------------------------------------------ injected outcomes, results, events *)
(* OPartial skip: an ON CLUSTER statement runs on the hosts whose bit in `skip` is false (missing bits are
   false) and the caller sees an error (a host was down, distributed_ddl_task_timeout, ...) *)
Inductive outcome := OOk | OBefore | OAfter | OPartial (skip : list bool).
(* ROk: the call succeeded; RErr: the database rejected it (on one server: no effect; on a cluster: the hosts
   that accepted it keep its effect); RFBefore: injected failure, nothing happened; RFAfter: the effect
   happened, then the caller saw a failure (or the process was killed); RFPartial: the effect happened on
   some of the hosts only and the caller saw a failure *)
Inductive res := ROk | RErr | RFBefore | RFAfter | RFPartial.
Definition res_ok (r : res) : bool := match r with ROk => true | _ => false end.
Definition res_applied (r : res) : bool := match r with ROk | RFAfter => true | _ => false end.
(* the statement reached the database *)
Definition res_reached (r : res) : bool := match r with RFBefore => false | _ => true end.

Inductive event :=
 | ECreateVer (r : res)                       (* CREATE TABLE IF NOT EXISTS ver *)
 | ECreateVerDist (r : res)                   (* CREATE TABLE IF NOT EXISTS ver_dist *)
 | EReadVer (k : stream) (v : nat) (r : res)  (* SELECT max(ver) ... WHERE k = $1; v = value read *)
 | EScript (k : stream) (i : nat) (r : res)   (* exec(scripts[i]) of stream k *)
 | EInsVer (k : stream) (v : nat) (r : res).  (* INSERT INTO ver (k, ver) VALUES (k, v) *)

Definition o_hd (os : list outcome) : outcome := match os with [] => OOk | o :: _ => o end.
(* the outcome list that fails the n-th call (0-based) of a run *)
Definition fault_at (n : nat) (o : outcome) : list outcome := repeat OOk n ++ [o].

Section Proto.
  Variables (cat stmt : Type).
  Variable exec : stmt -> cat -> option cat.      (* None = the database rejects the statement *)
  (* the state a statement leaves when it does not complete: it ran on the hosts not in `skip` that accept
     it.  One server: the identity.  pexec [] is what a rejected statement leaves behind. *)
  Variable pexec : list bool -> stmt -> cat -> cat.
  Variable scripts : stream -> list stmt.          (* getSQLFile of the six embedded files *)

  (* database state: the objects the scripts manage, whether ver / ver_dist exist (on every host), max(ver)
     per stream *)
  Record db := { d_cat : cat; d_ver_tbl : bool; d_vd_tbl : bool; d_vers : stream -> nat }.

  Definition set_cat (d : db) (c : cat) : db :=
    {| d_cat := c; d_ver_tbl := d_ver_tbl d; d_vd_tbl := d_vd_tbl d; d_vers := d_vers d |}.
  (* ver is ReplacingMergeTree(ver) ORDER BY k and is read with max(ver): a new row can only raise it *)
  Definition set_ver (d : db) (k : stream) (v : nat) : db :=
    {| d_cat := d_cat d; d_ver_tbl := d_ver_tbl d; d_vd_tbl := d_vd_tbl d;
       d_vers := fun k' => if stream_eqb k' k then Nat.max (d_vers d k') v else d_vers d k' |}.

  Definition eff_create_ver (d : db) : option db :=
    Some {| d_cat := d_cat d; d_ver_tbl := true; d_vd_tbl := d_vd_tbl d; d_vers := d_vers d |}.
  Definition eff_create_vd (d : db) : option db :=
    Some {| d_cat := d_cat d; d_ver_tbl := d_ver_tbl d; d_vd_tbl := true; d_vers := d_vers d |}.
  Definition eff_read (c : cfg) (d : db) : option db :=
    if (if clustered c then d_vd_tbl d && d_ver_tbl d else d_ver_tbl d) then Some d else None.
  Definition eff_script (x : stmt) (d : db) : option db :=
    match exec x (d_cat d) with Some c' => Some (set_cat d c') | None => None end.
  Definition peff_script (x : stmt) (skip : list bool) (d : db) : db := set_cat d (pexec skip x (d_cat d)).
  Definition eff_setver (k : stream) (v : nat) (d : db) : option db :=
    if d_ver_tbl d then Some (set_ver d k v) else None.
  (* the calls on ver / ver_dist: "exists on every host" stays as it was unless the call succeeds *)
  Definition peff_none (skip : list bool) (d : db) : db := d.

  Definition do_call (o : outcome) (eff : db -> option db) (peff : list bool -> db -> db) (d : db) : db * res :=
    match o with
    | OBefore => (d, RFBefore)
    | OAfter => match eff d with Some d' => (d', RFAfter) | None => (peff [] d, RErr) end
    | OOk => match eff d with Some d' => (d', ROk) | None => (peff [] d, RErr) end
    | OPartial skip => (peff skip d, RFPartial)
    end.

  (* result of a piece of a run: state, "no error so far", calls made, outcomes not yet consumed *)
  Record rr := { r_db : db; r_ok : bool; r_log : list event; r_os : list outcome }.

  (* for i := ver; i < len(scripts); i++ { exec(scripts[i]); INSERT INTO ver (k, i+1) } *)
  Fixpoint loop (k : stream) (todo : list stmt) (i : nat) (os : list outcome) (d : db) : rr :=
    match todo with
    | [] => {| r_db := d; r_ok := true; r_log := []; r_os := os |}
    | x :: todo' =>
      let '(d1, r1) := do_call (o_hd os) (eff_script x) (peff_script x) d in
      if res_ok r1 then
        let '(d2, r2) := do_call (o_hd (tl os)) (eff_setver k (S i)) peff_none d1 in
        if res_ok r2 then
          let r := loop k todo' (S i) (tl (tl os)) d2 in
          {| r_db := r_db r; r_ok := r_ok r; r_log := EScript k i r1 :: EInsVer k (S i) r2 :: r_log r; r_os := r_os r |}
        else {| r_db := d2; r_ok := false; r_log := [EScript k i r1; EInsVer k (S i) r2]; r_os := tl (tl os) |}
      else {| r_db := d1; r_ok := false; r_log := [EScript k i r1]; r_os := tl os |}
    end.

  (* the head of updateScripts: CREATE TABLE IF NOT EXISTS ver [, ver_dist], SELECT max(ver) *)
  Definition prelude (c : cfg) (k : stream) (os : list outcome) (d : db) : rr :=
    let '(d1, r1) := do_call (o_hd os) eff_create_ver peff_none d in
    if negb (res_ok r1) then {| r_db := d1; r_ok := false; r_log := [ECreateVer r1]; r_os := tl os |} else
    let '(d2, ok2, l2, os2) :=
      if clustered c then
        let '(d2, r2) := do_call (o_hd (tl os)) eff_create_vd peff_none d1 in (d2, res_ok r2, [ECreateVerDist r2], tl (tl os))
      else (d1, true, [], tl os) in
    if negb ok2 then {| r_db := d2; r_ok := false; r_log := ECreateVer r1 :: l2; r_os := os2 |} else
    let '(d3, r3) := do_call (o_hd os2) (eff_read c) peff_none d2 in
    {| r_db := d3; r_ok := res_ok r3;
       r_log := ECreateVer r1 :: l2 ++ [EReadVer k (if res_ok r3 then d_vers d3 k else 0) r3]; r_os := tl os2 |}.

  Definition us (c : cfg) (k : stream) (os : list outcome) (d : db) : rr :=
    let p := prelude c k os d in
    if r_ok p then
      let v := d_vers (r_db p) k in
      let r := loop k (skipn v (scripts k)) v (r_os p) (r_db p) in
      {| r_db := r_db r; r_ok := r_ok r; r_log := r_log p ++ r_log r; r_os := r_os r |}
    else p.

  (* Update: the streams in order, stop at the first error.  Cleanup() issues no database call (its
     dependency table holds one entry with three empty lists). *)
  Fixpoint run_streams (c : cfg) (ks : list stream) (os : list outcome) (d : db) : rr :=
    match ks with
    | [] => {| r_db := d; r_ok := true; r_log := []; r_os := os |}
    | k :: ks' =>
      let r := us c k os d in
      if r_ok r then
        let r' := run_streams c ks' (r_os r) (r_db r) in
        {| r_db := r_db r'; r_ok := r_ok r'; r_log := r_log r ++ r_log r'; r_os := r_os r' |}
      else r
    end.
  Definition update (c : cfg) (os : list outcome) (d : db) : rr := run_streams c (streams_of c) os d.

  (* any number of process starts, each with its own injected outcomes; the database persists *)
  Fixpoint multi_run (c : cfg) (runs : list (list outcome)) (d : db) : db * list event :=
    match runs with
    | [] => (d, [])
    | os :: rest =>
      let r := update c os d in
      let '(d', l) := multi_run c rest (r_db r) in (d', r_log r ++ l)
    end.

  (* ---- the same process start in small steps (one database call per step), for interleavings of two
     starters on one database.  A process keeps its own position: the version is read once per stream, the
     loop index i is local (update.go: `for i := ver; ...`). *)
  Inductive pc := PCreateVer | PCreateVD | PRead | PScript (i : nat) | PIns (i : nat).
  (* p_ks: the streams still to do, the head in progress ([] = returned); p_ok: no error so far *)
  Record proc := { p_ks : list stream; p_pc : pc; p_ok : bool }.
  Definition proc0 (c : cfg) : proc := {| p_ks := streams_of c; p_pc := PCreateVer; p_ok := true |}.
  Definition p_fail : proc := {| p_ks := []; p_pc := PCreateVer; p_ok := false |}.
  Definition p_at (ks : list stream) (x : pc) : proc := {| p_ks := ks; p_pc := x; p_ok := true |}.
  Definition p_next (k : stream) (ks : list stream) (v : nat) : proc :=
    if v <? List.length (scripts k) then p_at (k :: ks) (PScript v) else p_at ks PCreateVer.
  Definition pstep (c : cfg) (p : proc) (o : outcome) (d : db) : proc * db * list event :=
    match p_ks p with
    | [] => (p, d, [])
    | k :: ks =>
      match p_pc p with
      | PCreateVer =>
        let '(d1, r) := do_call o eff_create_ver peff_none d in
        (if res_ok r then p_at (k :: ks) (if clustered c then PCreateVD else PRead) else p_fail, d1, [ECreateVer r])
      | PCreateVD =>
        let '(d1, r) := do_call o eff_create_vd peff_none d in
        (if res_ok r then p_at (k :: ks) PRead else p_fail, d1, [ECreateVerDist r])
      | PRead =>
        let '(d1, r) := do_call o (eff_read c) peff_none d in
        (if res_ok r then p_next k ks (d_vers d1 k) else p_fail, d1, [EReadVer k (if res_ok r then d_vers d1 k else 0) r])
      | PScript i =>
        match nth_error (scripts k) i with
        | None => (p_next k ks i, d, [])
        | Some x =>
          let '(d1, r) := do_call o (eff_script x) (peff_script x) d in
          (if res_ok r then p_at (k :: ks) (PIns i) else p_fail, d1, [EScript k i r])
        end
      | PIns i =>
        let '(d1, r) := do_call o (eff_setver k (S i)) peff_none d in
        (if res_ok r then p_next k ks (S i) else p_fail, d1, [EInsVer k (S i) r])
      end
    end.
  (* one process alone: as many steps as it takes (fuel), consuming the outcome list like `update` *)
  Fixpoint solo_run (c : cfg) (fuel : nat) (p : proc) (os : list outcome) (d : db) : proc * db * list event :=
    match fuel with
    | O => (p, d, [])
    | S f =>
      match p_ks p with
      | [] => (p, d, [])
      | _ => let '(p1, d1, l1) := pstep c p (o_hd os) d in
             let '(p2, d2, l2) := solo_run c f p1 (match l1 with [] => os | _ => tl os end) d1 in (p2, d2, l1 ++ l2)
      end
    end.
  (* two starters p (false) and q (true) on one database; the schedule says who makes the next call and how it
     ends *)
  Fixpoint conc_run (c : cfg) (sched : list (bool * outcome)) (p q : proc) (d : db) : proc * proc * db * list (bool * event) :=
    match sched with
    | [] => (p, q, d, [])
    | (who, o) :: rest =>
      if who then
        let '(q1, d1, l1) := pstep c q o d in
        let '(pf, qf, df, lf) := conc_run c rest p q1 d1 in (pf, qf, df, map (pair true) l1 ++ lf)
      else
        let '(p1, d1, l1) := pstep c p o d in
        let '(pf, qf, df, lf) := conc_run c rest p1 q d1 in (pf, qf, df, map (pair false) l1 ++ lf)
    end.
  Definition plog (who : bool) (l : list (bool * event)) : list event := map snd (filter (fun e => Bool.eqb (fst e) who) l).
  (* what survives concurrency, per process: a version is only written right after this very process saw the
     script of that version complete *)
  Fixpoint pmon (last : option event) (l : list event) : bool :=
    match l with
    | [] => true
    | e :: r =>
      match e with
      | EInsVer k v _ => match last with
                         | Some (EScript k' i ROk) => stream_eqb k k' && (v =? S i)
                         | _ => false
                         end
      | _ => true
      end && pmon (Some e) r
    end.

  Definition db0 (c0 : cat) : db := {| d_cat := c0; d_ver_tbl := false; d_vd_tbl := false; d_vers := fun _ => 0 |}.

  (* ---- what an uninterrupted migration computes *)
  Fixpoint apply_all (l : list stmt) (c : cat) : option cat :=
    match l with [] => Some c | x :: r => match exec x c with Some c1 => apply_all r c1 | None => None end end.
  Definition prefix (l : list stmt) (n : nat) (c : cat) : option cat := apply_all (firstn n l) c.
  Fixpoint apply_streams (ks : list stream) (c : cat) : option cat :=
    match ks with [] => Some c | k :: ks' => match apply_all (scripts k) c with Some c1 => apply_streams ks' c1 | None => None end end.

  (* ---- the premise of convergence, as a computation: along the uninterrupted run every statement succeeds
     and, executed once more right after itself, succeeds again and changes nothing *)
  Variable cat_eqb : cat -> cat -> bool.
  Fixpoint reexec_ok (l : list stmt) (c : cat) : bool :=
    match l with
    | [] => true
    | x :: r => match exec x c with
                | Some c1 => match exec x c1 with Some c2 => cat_eqb c1 c2 && reexec_ok r c1 | None => false end
                | None => false
                end
    end.
  Fixpoint reexec_streams (ks : list stream) (c : cat) : bool :=
    match ks with
    | [] => true
    | k :: ks' => reexec_ok (scripts k) c &&
                  match apply_all (scripts k) c with Some c1 => reexec_streams ks' c1 | None => false end
    end.
  (* index of the first statement of l that is rejected (inl) or not re-executable (inr) *)
  Fixpoint first_bad (l : list stmt) (c : cat) (i : nat) : option (nat * bool) :=
    match l with
    | [] => None
    | x :: r => match exec x c with
                | Some c1 => match exec x c1 with
                             | Some c2 => if cat_eqb c1 c2 then first_bad r c1 (S i) else Some (i, true)
                             | None => Some (i, true)
                             end
                | None => Some (i, false)
                end
    end.
  Fixpoint first_bad_streams (ks : list stream) (c : cat) : option (stream * nat * bool) :=
    match ks with
    | [] => None
    | k :: ks' => match first_bad (scripts k) c 0 with
                  | Some (i, b) => Some (k, i, b)
                  | None => match apply_all (scripts k) c with Some c1 => first_bad_streams ks' c1 | None => None end
                  end
    end.

  (* ---- the monitor of the property over the call log.  State: app k = number of scripts of stream k applied
     so far, in file order without gaps; rec k = highest version recorded for stream k.
     A script (k,i) may only take effect when all its predecessors did (i <= app k) and when its version
     is not recorded yet (rec k <= i: what is recorded is never run again); a version v may only be recorded
     when scripts 0..v-1 were applied (v <= app k). *)
  Record mst := { m_app : stream -> nat; m_rec : stream -> nat }.
  Definition mon_step (m : mst) (e : event) : option mst :=
    match e with
    | EScript k i r =>
      if res_reached r then
        if (m_rec m k <=? i) && (i <=? m_app m k)
        then Some (if res_applied r
                   then {| m_app := fun k' => if stream_eqb k' k then Nat.max (m_app m k') (S i) else m_app m k'; m_rec := m_rec m |}
                   else m)
        else None
      else Some m
    | EInsVer k v r =>
      if res_applied r then
        if v <=? m_app m k
        then Some {| m_app := m_app m; m_rec := fun k' => if stream_eqb k' k then Nat.max (m_rec m k') v else m_rec m k' |}
        else None
      else Some m
    | _ => Some m
    end.
  Fixpoint mon_run (m : mst) (l : list event) : option mst :=
    match l with [] => Some m | e :: l' => match mon_step m e with Some a => mon_run a l' | None => None end end.
  Definition mst0 : mst := {| m_app := fun _ => 0; m_rec := fun _ => 0 |}.
  Definition mon_ok (l : list event) : bool := match mon_run mst0 l with Some _ => true | None => false end.

  Definition is_script_event (e : event) : bool := match e with EScript _ _ _ | EInsVer _ _ _ => true | _ => false end.
End Proto.

Arguments d_cat {cat}. Arguments d_ver_tbl {cat}. Arguments d_vd_tbl {cat}. Arguments d_vers {cat}.
Arguments r_db {cat}. Arguments r_ok {cat}. Arguments r_log {cat}. Arguments r_os {cat}.

(* ------------------------------------------------------------------ the bootstrap around Update *)
(* ctrl.Init(config, "qryn") for one configured database = maintenance.InitDB, then UpgradeAll -> upgradeDB -> Update.
   InitDB: nothing for the database "" / "default"; otherwise CREATE DATABASE IF NOT EXISTS .. [ON CLUSTER] -- whose
   error is dropped (`err = InitDBTry(..)` is overwritten by the next assignment) -- then SHOW CREATE DATABASE,
   whose error makes ctrl.Init panic.  upgradeDB refuses ttl_days = 0 before any call.  The database exists on all
   hosts or on none (a partially completed CREATE DATABASE .. ON CLUSTER is not generated; the fake treats it as
   not done, like the calls on ver / ver_dist). *)
Record bcfg := { b_cfg : cfg; b_default : bool; b_ttl0 : bool }.
Inductive bevent := BCreateDb (r : res) | BShowDb (r : res).
Definition boot_create (o : outcome) (e : bool) : bool * res :=
  match o with OOk => (true, ROk) | OAfter => (true, RFAfter) | OBefore => (e, RFBefore) | OPartial _ => (e, RFPartial) end.
Definition boot_show (o : outcome) (e : bool) : res :=
  match o with
  | OOk => if e then ROk else RErr
  | OAfter => if e then RFAfter else RErr
  | OBefore => RFBefore
  | OPartial _ => RFPartial
  end.

Section Boot.
  Variables (cat stmt : Type).
  Variable exec : stmt -> cat -> option cat.
  Variable pexec : list bool -> stmt -> cat -> cat.
  Variable scripts : stream -> list stmt.

  Record bdb := { bd_exists : bool; bd_db : db cat }.
  (* br_ok: ctrl.Init returned nil (no error, no panic); br_boot: the bootstrap calls; br_log: the calls of Update *)
  Record br := { br_db : bdb; br_ok : bool; br_boot : list bevent; br_log : list event }.

  Definition boot_update (bc : bcfg) (os : list outcome) (d : bdb) (boot : list bevent) : br :=
    if b_ttl0 bc then {| br_db := d; br_ok := false; br_boot := boot; br_log := [] |}
    else let r := update cat stmt exec pexec scripts (b_cfg bc) os (bd_db d) in
         {| br_db := {| bd_exists := bd_exists d; bd_db := r_db r |}; br_ok := r_ok r; br_boot := boot; br_log := r_log r |}.

  Definition init (bc : bcfg) (os : list outcome) (d : bdb) : br :=
    if b_default bc then boot_update bc os d []
    else
      let '(e1, rA) := boot_create (o_hd os) (bd_exists d) in
      let rB := boot_show (o_hd (tl os)) e1 in
      let d1 := {| bd_exists := e1; bd_db := bd_db d |} in
      if res_ok rB then boot_update bc (tl (tl os)) d1 [BCreateDb rA; BShowDb rB]
      else {| br_db := d1; br_ok := false; br_boot := [BCreateDb rA; BShowDb rB]; br_log := [] |}.

  (* any number of process starts *)
  Fixpoint init_multi (bc : bcfg) (runs : list (list outcome)) (d : bdb) : bdb * list event :=
    match runs with
    | [] => (d, [])
    | os :: rest =>
      let r := init bc os d in
      let '(d', l) := init_multi bc rest (br_db r) in (d', br_log r ++ l)
    end.
  (* the outcome lists the Update parts of these starts ran under (a start stopped by the bootstrap has none) *)
  Fixpoint init_update_runs (bc : bcfg) (runs : list (list outcome)) (e : bool) : list (list outcome) :=
    match runs with
    | [] => []
    | os :: rest =>
      if b_default bc then (if b_ttl0 bc then [] else [os]) ++ init_update_runs bc rest e
      else
        let e1 := fst (boot_create (o_hd os) e) in
        (if res_ok (boot_show (o_hd (tl os)) e1) && negb (b_ttl0 bc) then [tl (tl os)] else []) ++ init_update_runs bc rest e1
    end.
End Boot.
Arguments bd_exists {cat}. Arguments bd_db {cat}.
Arguments br_db {cat}. Arguments br_ok {cat}. Arguments br_boot {cat}. Arguments br_log {cat}.

(* ------------------------------------------------------------------ the ClickHouse catalogue (trusted semantics) *)
Inductive engine := EMergeTree | EReplacing | EAggregating | ENull | EMerge | EDistributed.
(* RTemplated: the script says {{.MergeTree}} etc., replicated iff CLUST_MODE_CLOUD *)
Inductive repl := RNo | RYes | RTemplated.
Inductive kind := KTable | KView | KMV.

Inductive altercmd :=
 | AddColumn (ine : bool) (col alias : string)    (* ADD COLUMN [IF NOT EXISTS] col T [ALIAS alias] *)
 | ModifyOrderBy (key : list string).

Inductive stmt :=
 | CreateTable (ine : bool) (name : string) (cols okey : list string) (e : engine) (r : repl)
 | CreateView (ine : bool) (name : string) (srcs : list string) (def : N)
 | CreateMV (ine : bool) (name to : string) (srcs : list string) (def : N)
 | DropTable (ie : bool) (name : string)
 | RenameTable (ie : bool) (from to : string)
 | AlterTable (name : string) (cmds : list altercmd)
 | InsertInto (name key : string)
 | Unclassified.

Record obj := { o_kind : kind; o_engine : engine; o_repl : bool; o_cols : list string; o_okey : list string;
                o_to : string; o_def : N }.
(* objects sorted by name (canonical: equal catalogues are equal terms); rows = (table, key) of the rows
   the scripts insert (table settings), a sorted set *)
Record cat := { c_objs : list (string * obj); c_rows : list (string * string) }.
Definition cat0 : cat := {| c_objs := []; c_rows := [] |}.

Fixpoint lookup (n : string) (l : list (string * obj)) : option obj :=
  match l with [] => None | (m, o) :: r => if String.eqb m n then Some o else lookup n r end.
Fixpoint remove (n : string) (l : list (string * obj)) : list (string * obj) :=
  match l with [] => [] | (m, o) :: r => if String.eqb m n then r else (m, o) :: remove n r end.
(* insert for a name that is absent *)
Fixpoint insert (n : string) (o : obj) (l : list (string * obj)) : list (string * obj) :=
  match l with
  | [] => [(n, o)]
  | (m, p) :: r => if String.ltb n m then (n, o) :: l else (m, p) :: insert n o r
  end.
Definition replace (n : string) (o : obj) (l : list (string * obj)) := insert n o (remove n l).
Definition has (n : string) (l : list (string * obj)) : bool := match lookup n l with Some _ => true | None => false end.
Definition mem (s : string) (l : list string) : bool := existsb (String.eqb s) l.

Definition row_ltb (a b : string * string) : bool :=
  String.ltb (fst a) (fst b) || (String.eqb (fst a) (fst b) && String.ltb (snd a) (snd b)).
Definition row_eqb (a b : string * string) : bool := String.eqb (fst a) (fst b) && String.eqb (snd a) (snd b).
Fixpoint row_add (x : string * string) (l : list (string * string)) : list (string * string) :=
  match l with
  | [] => [x]
  | y :: r => if row_eqb x y then l else if row_ltb x y then x :: l else y :: row_add x r
  end.

Definition is_repl (cloud : bool) (e : engine) (r : repl) : bool :=
  match e with
  | EMergeTree | EReplacing | EAggregating => match r with RNo => false | RYes => true | RTemplated => cloud end
  | _ => false
  end.

Fixpoint is_prefix (a b : list string) : bool :=
  match a, b with
  | [], _ => true
  | x :: a', y :: b' => String.eqb x y && is_prefix a' b'
  | _ :: _, [] => false
  end.

(* one ALTER command on a working copy of the table; fresh = columns added earlier in the same ALTER *)
Definition alter_step (st : option (obj * list string)) (c : altercmd) : option (obj * list string) :=
  match st with
  | None => None
  | Some (o, fresh) =>
    match c with
    | AddColumn ine col alias =>
      if mem col (o_cols o) then (if ine then Some (o, fresh) else None)
      else if String.eqb alias ""%string || mem alias (o_cols o) then
        Some ({| o_kind := o_kind o; o_engine := o_engine o; o_repl := o_repl o; o_cols := o_cols o ++ [col];
                 o_okey := o_okey o; o_to := o_to o; o_def := o_def o |}, col :: fresh)
      else None
    | ModifyOrderBy key =>
      (* the old sorting key stays the primary key, so it must be a prefix of the new one; every column
         appended to the key must have been added by this very ALTER *)
      if is_prefix (o_okey o) key && forallb (fun x => mem x fresh) (skipn (List.length (o_okey o)) key) then
        Some ({| o_kind := o_kind o; o_engine := o_engine o; o_repl := o_repl o; o_cols := o_cols o;
                 o_okey := key; o_to := o_to o; o_def := o_def o |}, fresh)
      else None
    end
  end.

Definition exec_ch (cloud : bool) (s : stmt) (c : cat) : option cat :=
  let objs := c_objs c in
  match s with
  | CreateTable ine n cols okey e r =>
    if has n objs then (if ine then Some c else None)
    else Some {| c_objs := insert n {| o_kind := KTable; o_engine := e; o_repl := is_repl cloud e r; o_cols := cols;
                                         o_okey := okey; o_to := ""%string; o_def := 0%N |} objs; c_rows := c_rows c |}
  | CreateView ine n srcs def =>
    if has n objs then (if ine then Some c else None)
    else if forallb (fun s => has s objs) srcs then
      Some {| c_objs := insert n {| o_kind := KView; o_engine := ENull; o_repl := false; o_cols := []; o_okey := [];
                                     o_to := ""%string; o_def := def |} objs; c_rows := c_rows c |}
    else None
  | CreateMV ine n to srcs def =>
    if has n objs then (if ine then Some c else None)
    else if has to objs && forallb (fun s => has s objs) srcs then
      Some {| c_objs := insert n {| o_kind := KMV; o_engine := ENull; o_repl := false; o_cols := []; o_okey := [];
                                     o_to := to; o_def := def |} objs; c_rows := c_rows c |}
    else None
  | DropTable ie n =>
    if has n objs then Some {| c_objs := remove n objs; c_rows := filter (fun r => negb (String.eqb (fst r) n)) (c_rows c) |}
    else if ie then Some c else None
  | RenameTable ie a b =>
    match lookup a objs with
    | None => if ie then Some c else None
    | Some o =>
      if has b objs then None
      else Some {| c_objs := insert b o (remove a objs);
                   c_rows := fold_right row_add [] (map (fun r => if String.eqb (fst r) a then (b, snd r) else r) (c_rows c)) |}
    end
  | AlterTable n cmds =>
    match lookup n objs with
    | None => None
    | Some o =>
      match fold_left alter_step cmds (Some (o, [])) with
      | Some (o', _) => Some {| c_objs := replace n o' objs; c_rows := c_rows c |}
      | None => None
      end
    end
  | InsertInto n key =>
    if has n objs then Some {| c_objs := objs; c_rows := row_add (n, key) (c_rows c) |} else None
  | Unclassified => None
  end.

(* ------------------------------------------------------------------ a cluster of hosts *)
(* Generic in the per-host catalogue and statement semantics.  The state is the list of the hosts' catalogues,
   head = the host the process is connected to (it receives every statement; the others only what is sent
   ON CLUSTER).  A statement is (on_cluster, s).  Hosts run a statement independently of each other: a host
   that accepts it keeps the effect whether or not another host rejects it or is not reached -- multi-host DDL
   is not atomic.  The caller sees success only when every targeted host ran and accepted the statement. *)
Section Cluster.
  Variables (hcat hstmt : Type).
  Variable hexec : hstmt -> hcat -> option hcat.

  Definition cstmt := (bool * hstmt)%type.
  Definition ccat := list hcat.

  Definition is_some {A} (o : option A) : bool := match o with Some _ => true | None => false end.
  Definition run_on (x : hstmt) (h : hcat) : hcat := match hexec x h with Some h' => h' | None => h end.

  (* the hosts whose bit is false run x (and keep the effect if they accept it) *)
  Fixpoint papply (skip : list bool) (x : hstmt) (hs : list hcat) : list hcat :=
    match hs with
    | [] => []
    | h :: r => (if hd false skip then h else run_on x h) :: papply (tl skip) x r
    end.
  Fixpoint paccept (skip : list bool) (x : hstmt) (hs : list hcat) : bool :=
    match hs with
    | [] => true
    | h :: r => (hd false skip || is_some (hexec x h)) && paccept (tl skip) x r
    end.
  Fixpoint skip_or (a b : list bool) : list bool :=
    match a, b with
    | [], _ => b
    | _, [] => a
    | x :: a', y :: b' => (x || y) :: skip_or a' b'
    end.
  (* a statement without ON CLUSTER reaches the connected host only *)
  Definition base_skip (oc : bool) (n : nat) : list bool := if oc then [] else false :: repeat true (n - 1).

  Definition cl_pexec (skip : list bool) (s : cstmt) (hs : ccat) : ccat :=
    papply (skip_or skip (base_skip (fst s) (List.length hs))) (snd s) hs.
  Definition cl_exec (s : cstmt) (hs : ccat) : option ccat :=
    let sk := base_skip (fst s) (List.length hs) in
    if paccept sk (snd s) hs then Some (papply sk (snd s) hs) else None.

  (* the re-execution obligation per host: along the uninterrupted run the connected host (h0) runs every
     statement, any other host (ho) the ON CLUSTER ones; each must accept its statement and, executed once
     more right after itself, accept it again and change nothing *)
  Variable hcat_eqb : hcat -> hcat -> bool.
  Definition host_reexec (x : hstmt) (h : hcat) : option hcat :=
    match hexec x h with
    | Some h1 => match hexec x h1 with Some h2 => if hcat_eqb h1 h2 then Some h1 else None | None => None end
    | None => None
    end.
  Fixpoint cl_reexec_ok (l : list cstmt) (h0 ho : hcat) : bool :=
    match l with
    | [] => true
    | (oc, x) :: r =>
      match host_reexec x h0 with
      | Some h0' => if oc then match host_reexec x ho with Some ho' => cl_reexec_ok r h0' ho' | None => false end
                    else cl_reexec_ok r h0' ho
      | None => false
      end
    end.
  (* the two tracks of the uninterrupted run *)
  Fixpoint cl_track (l : list cstmt) (h0 ho : hcat) : option (hcat * hcat) :=
    match l with
    | [] => Some (h0, ho)
    | (oc, x) :: r =>
      match hexec x h0 with
      | Some h0' => if oc then match hexec x ho with Some ho' => cl_track r h0' ho' | None => None end
                    else cl_track r h0' ho
      | None => None
      end
    end.
  (* first statement that breaks the obligation: (index, on the connected host?, not re-executable?) *)
  Fixpoint cl_first_bad (l : list cstmt) (h0 ho : hcat) (i : nat) : option (nat * bool * bool) :=
    match l with
    | [] => None
    | (oc, x) :: r =>
      match host_reexec x h0 with
      | Some h0' =>
        if oc then match host_reexec x ho with
                   | Some ho' => cl_first_bad r h0' ho' (S i)
                   | None => Some (i, false, is_some (hexec x ho))
                   end
        else cl_first_bad r h0' ho (S i)
      | None => Some (i, true, is_some (hexec x h0))
      end
    end.

  (* ... across the streams of a configuration (each stream continues where the previous one ended) *)
  Variable cscripts : stream -> list cstmt.
  Fixpoint cl_reexec_streams (ks : list stream) (h0 ho : hcat) : bool :=
    match ks with
    | [] => true
    | k :: ks' => cl_reexec_ok (cscripts k) h0 ho &&
                  match cl_track (cscripts k) h0 ho with Some (a, b) => cl_reexec_streams ks' a b | None => false end
    end.
  Fixpoint cl_first_bad_streams (ks : list stream) (h0 ho : hcat) : option (stream * (nat * bool * bool)) :=
    match ks with
    | [] => None
    | k :: ks' => match cl_first_bad (cscripts k) h0 ho 0 with
                  | Some w => Some (k, w)
                  | None => match cl_track (cscripts k) h0 ho with Some (a, b) => cl_first_bad_streams ks' a b | None => None end
                  end
    end.
  Fixpoint cl_track_streams (ks : list stream) (h0 ho : hcat) : option (hcat * hcat) :=
    match ks with
    | [] => Some (h0, ho)
    | k :: ks' => match cl_track (cscripts k) h0 ho with Some (a, b) => cl_track_streams ks' a b | None => None end
    end.
End Cluster.
Arguments is_some {A}.

(* object names a statement mentions as the object it creates / changes (for the frame obligation: no
   script touches ver / ver_dist, which the protocol model keeps outside the catalogue) *)
Definition targets (s : stmt) : list string :=
  match s with
  | CreateTable _ n _ _ _ _ | CreateView _ n _ _ | CreateMV _ n _ _ _ | DropTable _ n | AlterTable n _ | InsertInto n _ => [n]
  | RenameTable _ a b => [a; b]
  | Unclassified => []
  end.
Definition touches_ver (s : stmt) : bool := existsb (fun n => String.eqb n "ver"%string || String.eqb n "ver_dist"%string) (targets s).

(* ---- structural equality (sound: proofs/MigrateProofs.v) *)
Fixpoint list_eqb {A} (f : A -> A -> bool) (a b : list A) : bool :=
  match a, b with [], [] => true | x :: a', y :: b' => f x y && list_eqb f a' b' | _, _ => false end.
Definition kind_eqb (a b : kind) : bool :=
  match a, b with KTable, KTable | KView, KView | KMV, KMV => true | _, _ => false end.
Definition engine_eqb (a b : engine) : bool :=
  match a, b with
  | EMergeTree, EMergeTree | EReplacing, EReplacing | EAggregating, EAggregating
  | ENull, ENull | EMerge, EMerge | EDistributed, EDistributed => true
  | _, _ => false
  end.
Definition obj_eqb (a b : obj) : bool :=
  kind_eqb (o_kind a) (o_kind b) && engine_eqb (o_engine a) (o_engine b) && Bool.eqb (o_repl a) (o_repl b)
  && list_eqb String.eqb (o_cols a) (o_cols b) && list_eqb String.eqb (o_okey a) (o_okey b)
  && String.eqb (o_to a) (o_to b) && N.eqb (o_def a) (o_def b).
Definition cat_eqb (a b : cat) : bool :=
  list_eqb (fun x y => String.eqb (fst x) (fst y) && obj_eqb (snd x) (snd y)) (c_objs a) (c_objs b)
  && list_eqb row_eqb (c_rows a) (c_rows b).

(* ---- the guarded statement classes: statements that, wherever exec_ch accepts them on a catalogue without
   duplicate names, are accepted again right after themselves and change nothing (proofs/MigrateClassProofs.v:
   guarded_idem).  CREATE .. IF NOT EXISTS, DROP .. IF EXISTS, RENAME .. IF EXISTS, ALTER whose ADD COLUMNs all say
   IF NOT EXISTS and whose MODIFY ORDER BY commands (if any) all carry the same key, INSERT of a settings row. *)
Definition cmd_guarded (c : altercmd) : bool := match c with AddColumn ine _ _ => ine | ModifyOrderBy _ => true end.
Fixpoint alter_keys (cmds : list altercmd) : list (list string) :=
  match cmds with
  | [] => []
  | ModifyOrderBy k :: r => k :: alter_keys r
  | _ :: r => alter_keys r
  end.
Definition same_keys (ks : list (list string)) : bool :=
  match ks with [] => true | k :: r => forallb (list_eqb String.eqb k) r end.
Definition guarded (s : stmt) : bool :=
  match s with
  | CreateTable ine _ _ _ _ _ | CreateView ine _ _ _ | CreateMV ine _ _ _ _ => ine
  | DropTable ie _ | RenameTable ie _ _ => ie
  | AlterTable _ cmds => forallb cmd_guarded cmds && same_keys (alter_keys cmds)
  | InsertInto _ _ => true
  | Unclassified => false
  end.

(* ------------------------------------------------------------------ observations of the real Update *)
(* what the fake clickhouse.Conn of harness/cmd/migrate records per call: script statements by the id the
   translator gave their classified structure (0 = a statement that is in no stream) *)
Inductive oevent :=
 | OCreateVer (r : res) | OCreateVerDist (r : res)
 | OReadVer (k : N) (v : N) (r : res)
 | OScript (sid : N) (r : res)
 | OInsVer (k : N) (v : N) (r : res)
 | OOther (r : res).                           (* a call of none of these shapes *)

Definition res_eqb (a b : res) : bool :=
  match a, b with ROk, ROk | RErr, RErr | RFBefore, RFBefore | RFAfter, RFAfter | RFPartial, RFPartial => true | _, _ => false end.
Definition oevent_eqb (a b : oevent) : bool :=
  match a, b with
  | OCreateVer r, OCreateVer r' | OCreateVerDist r, OCreateVerDist r' | OOther r, OOther r' => res_eqb r r'
  | OReadVer k v r, OReadVer k' v' r' | OInsVer k v r, OInsVer k' v' r' => N.eqb k k' && N.eqb v v' && res_eqb r r'
  | OScript s r, OScript s' r' => N.eqb s s' && res_eqb r r'
  | _, _ => false
  end.

Section Obs.
  Variable scripts : stream -> list stmt.
  Variable oncl : stream -> list bool.            (* carries {{.OnCluster}}?, parallel to scripts *)
  Variable sids : stream -> list N.               (* statement ids, parallel to scripts *)

  Definition sid_at (k : stream) (i : nat) : N := nth i (sids k) 0%N.
  Definition abs_event (e : event) : oevent :=
    match e with
    | ECreateVer r => OCreateVer r
    | ECreateVerDist r => OCreateVerDist r
    | EReadVer k v r => OReadVer (stream_k k) (N.of_nat v) r
    | EScript k i r => OScript (sid_at k i) r
    | EInsVer k v r => OInsVer (stream_k k) (N.of_nat v) r
    end.

  Definition stream_of_k (n : N) : option stream := find (fun k => N.eqb (stream_k k) n) all_streams.

  (* the monitor on observations: the stream in progress is the one of the last version read; a script
     statement is identified by content (sid): whenever one reaches the database (also when it is then rejected
     or completes on some hosts only) it must be the next unapplied script of that stream or one applied
     whose version is not recorded yet; only a statement that completed counts as applied *)
  Record omst := { om_cur : option stream; om_app : stream -> nat; om_rec : stream -> nat }.
  Definition omon_step (m : omst) (e : oevent) : option omst :=
    match e with
    | OReadVer k _ _ => match stream_of_k k with
                        | Some s => Some {| om_cur := Some s; om_app := om_app m; om_rec := om_rec m |}
                        | None => None
                        end
    | OScript sid r =>
      if res_reached r then
        match om_cur m with
        | None => None
        | Some k =>
          let a := om_app m k in
          if (a <? List.length (sids k)) && N.eqb (sid_at k a) sid && negb (N.eqb sid 0) then
            Some (if res_applied r
                  then {| om_cur := om_cur m; om_app := fun k' => if stream_eqb k' k then S a else om_app m k'; om_rec := om_rec m |}
                  else m)
          else if existsb (N.eqb sid) (skipn (om_rec m k) (firstn a (sids k))) && negb (N.eqb sid 0) then Some m
          else None                         (* not the next script, nor one applied and not yet recorded *)
        end
      else Some m
    | OInsVer kn v r =>
      if res_applied r then
        match stream_of_k kn with
        | Some k => if (N.to_nat v <=? om_app m k)
                    then Some {| om_cur := om_cur m; om_app := om_app m;
                                 om_rec := fun k' => if stream_eqb k' k then Nat.max (om_rec m k') (N.to_nat v) else om_rec m k' |}
                    else None
        | None => None
        end
      else Some m
    | OOther r => if res_applied r then None else Some m    (* an effectful call outside the protocol *)
    | _ => Some m
    end.
  Fixpoint omon_run (m : omst) (l : list oevent) : option omst :=
    match l with [] => Some m | e :: l' => match omon_step m e with Some m' => omon_run m' l' | None => None end end.
  Definition omon_ok (l : list oevent) : bool :=
    match omon_run {| om_cur := None; om_app := fun _ => 0; om_rec := fun _ => 0 |} l with Some _ => true | None => false end.

  Definition o_is_script (e : oevent) : bool := match e with OScript _ _ | OInsVer _ _ _ | OOther _ => true | _ => false end.

  (* transport encoding of a call log (lossless, done by checks/c18.py only where the events are literally
     these): OSeg k from n = n scripts of stream k starting at index `from`, each executed and its version
     recorded without error *)
  Inductive oitem := OE (e : oevent) | OSeg (k : stream) (from n : nat).
  Fixpoint seg_events (k : stream) (from n : nat) : list oevent :=
    match n with
    | O => []
    | S n' => OScript (sid_at k from) ROk :: OInsVer (stream_k k) (N.of_nat (S from)) ROk :: seg_events k (S from) n'
    end.
  Definition expand (l : list oitem) : list oevent :=
    flat_map (fun it => match it with OE e => [e] | OSeg k f n => seg_events k f n end) l.

  (* one process start as observed: injected outcomes, Update returned nil?, call log *)
  Record orun := { or_os : list outcome; or_ok : bool; or_items : list oitem }.
  Definition or_log (r : orun) : list oevent := expand (or_items r).
  (* a case: configuration, number of hosts, the runs in order, the database the fake ended with (one
     catalogue per host, the connected host first).  By construction of the generator the last two runs have
     no injected fault (c_clean = true): the first must converge, the second must be a no-op. *)
  Record case := { c_id : Z; c_cfg : cfg; c_nhosts : nat; c_runs : list orun; c_clean : bool;
                   c_hosts : list cat; c_ver_tbl : bool; c_vd_tbl : bool; c_vers : list (N * N);
                   c_conn : list nat   (* round 7: the host each start connects to (missing entries: host 0) *) }.

  (* the scripts of a configuration as cluster statements: ON CLUSTER only when a cluster name is set
     ({{.OnCluster}} expands to a blank otherwise) *)
  Definition cl_scripts (c : cfg) (k : stream) : list (cstmt stmt) :=
    map (fun p => (fst p && clustered c, snd p)) (combine (oncl k) (scripts k)).
  Definition ch_update (c : cfg) :=
    update (ccat cat) (cstmt stmt) (cl_exec cat stmt (exec_ch (cloud c))) (cl_pexec cat stmt (exec_ch (cloud c))) (cl_scripts c) c.
  Definition hosts0 (n : nat) : ccat cat := repeat cat0 n.

  (* round 7: a start may reach the cluster through any host.  The cluster model keeps the connected host at
     the head of the host list, so a start through host j is the same start on the list with hosts 0 and j
     exchanged (swap_hosts is its own inverse; the skip mask of a partial application counts hosts in that
     order, as the fake does).  The recorded versions stay ONE function of the stream: with a cluster name the
     code reads them through ver_dist, i.e. over the rows of every shard (proofs/MigrateShardProofs.v:
     dist_read_is_global); a start that read the local table instead would not see them (local_read_misses). *)
  Definition swap_hosts {A} (j : nat) (hs : list A) : list A :=
    match hs, j with
    | h0 :: tl, S j' =>
      match nth_error tl j' with
      | Some hj => hj :: (firstn j' tl ++ h0 :: skipn (S j') tl)
      | None => hs
      end
    | _, _ => hs
    end.
  Definition start_at (c : cfg) (j : nat) (os : list outcome) (d : db (ccat cat)) :=
    let m := ch_update c os (set_cat (ccat cat) d (swap_hosts j (d_cat d))) in
    (m, set_cat (ccat cat) (r_db m) (swap_hosts j (d_cat (r_db m)))).

  Fixpoint model_runs_at (c : cfg) (rs : list orun) (conn : list nat) (d : db (ccat cat)) : db (ccat cat) * bool :=
    match rs with
    | [] => (d, true)
    | r :: rest =>
      let '(m, d1) := start_at c (hd 0 conn) (or_os r) d in
      let same := Bool.eqb (r_ok m) (or_ok r) && list_eqb oevent_eqb (map abs_event (r_log m)) (or_log r) in
      let '(d', ok) := model_runs_at c rest (tl conn) d1 in (d', same && ok)
    end.
  Definition model_runs (c : cfg) (rs : list orun) (d : db (ccat cat)) : db (ccat cat) * bool := model_runs_at c rs [] d.

  (* round 8: any number of process starts, EACH through its own host (a load-balanced address, several
     configured nodes): the database persists, the log is the concatenation of the starts' call logs *)
  Fixpoint multi_run_at (c : cfg) (runs : list (nat * list outcome)) (d : db (ccat cat)) : db (ccat cat) * list event :=
    match runs with
    | [] => (d, [])
    | jo :: rest =>
      let '(m, d1) := start_at c (fst jo) (snd jo) d in
      let '(d', l) := multi_run_at c rest d1 in (d', r_log m ++ l)
    end.

  Definition vers_list {A} (d : db A) : list (N * N) :=
    map (fun k => (stream_k k, N.of_nat (d_vers d k))) (filter (fun k => negb (d_vers d k =? 0)) all_streams).
  Definition vers_eqb (a b : list (N * N)) : bool :=
    list_eqb (fun x y => N.eqb (fst x) (fst y) && N.eqb (snd x) (snd y)) a b.

  Definition model_mismatch (c : case) : bool :=
    let '(d, same) := model_runs_at (c_cfg c) (c_runs c) (c_conn c) (db0 (ccat cat) (hosts0 (c_nhosts c))) in
    negb (same && list_eqb cat_eqb (d_cat d) (c_hosts c) && Bool.eqb (d_ver_tbl d) (c_ver_tbl c)
          && Bool.eqb (d_vd_tbl d) (c_vd_tbl c) && vers_eqb (vers_list d) (c_vers c)).

  (* what an uninterrupted Update on an empty database ends with *)
  Definition expected_final (c : cfg) (n : nat) : db (ccat cat) := r_db (ch_update c [] (db0 (ccat cat) (hosts0 n))).

  (* the property's oracle on the OBSERVED behaviour:
     1 never ahead / file order: omon_ok on the concatenated logs of all runs;
     2 convergence: the first clean run returns nil;
     3 ... and the database (every host) ends as an uninterrupted run's, made through one of the hosts the starts used;
     4 no-op: the second clean run executes no script statement and records no version. *)
  (* round 8: "an uninterrupted run" may be made through any host some start of the history was connected to (the
     uninterrupted run through host j ends in expected_final with hosts 0 and j exchanged: theorem
     rerun_converges_scripts_through_one_host); histories whose starts all go through host 0 are judged as before *)
  Definition conn_hosts (c : case) : list nat :=
    c_conn c ++ (if List.length (c_conn c) <? List.length (c_runs c) then [0] else []).
  Definition spec_code (c : case) : N :=
    let logs := flat_map or_log (c_runs c) in
    if negb (omon_ok logs) then 1%N else
    if negb (c_clean c) then 0%N else
    match rev (c_runs c) with
    | last :: conv :: _ =>
      let e := expected_final (c_cfg c) (c_nhosts c) in
      if negb (or_ok conv && or_ok last) then 2%N
      else if negb (existsb (fun j => list_eqb cat_eqb (swap_hosts j (d_cat e)) (c_hosts c)) (conn_hosts c)
                    && vers_eqb (vers_list e) (c_vers c)) then 3%N
      else if existsb o_is_script (or_log last) then 4%N
      else 0%N
    | _ => 0%N
    end.
  Definition spec_violation (c : case) : bool := negb (N.eqb (spec_code c) 0).

  (* ---- two concurrent starters as observed: the schedule (who makes the next call, how it ends), the merged
     call log tagged with the process, whether each Update returned nil before the schedule ended (a process
     still running then is killed), the undisturbed solo starts afterwards, the final database *)
  Record ccase := { cc_id : Z; cc_cfg : cfg; cc_nhosts : nat; cc_sched : list (bool * outcome);
                    cc_log : list (bool * oevent); cc_pnil : bool; cc_qnil : bool; cc_after : list orun;
                    cc_hosts : list cat; cc_ver_tbl : bool; cc_vd_tbl : bool; cc_vers : list (N * N) }.

  Definition ch_conc (c : cfg) :=
    conc_run (ccat cat) (cstmt stmt) (cl_exec cat stmt (exec_ch (cloud c))) (cl_pexec cat stmt (exec_ch (cloud c))) (cl_scripts c) c.
  Definition returned_nil (p : proc) : bool := p_ok p && match p_ks p with [] => true | _ => false end.
  Definition tagged_eqb (a b : bool * oevent) : bool := Bool.eqb (fst a) (fst b) && oevent_eqb (snd a) (snd b).

  Definition conc_mismatch (c : ccase) : bool :=
    let '(p, q, d0, l) := ch_conc (cc_cfg c) (cc_sched c) (proc0 (cc_cfg c)) (proc0 (cc_cfg c)) (db0 (ccat cat) (hosts0 (cc_nhosts c))) in
    let '(d, same) := model_runs (cc_cfg c) (cc_after c) d0 in
    negb (list_eqb tagged_eqb (map (fun e => (fst e, abs_event (snd e))) l) (cc_log c)
          && Bool.eqb (returned_nil p) (cc_pnil c) && Bool.eqb (returned_nil q) (cc_qnil c)
          && same && list_eqb cat_eqb (d_cat d) (cc_hosts c) && Bool.eqb (d_ver_tbl d) (cc_ver_tbl c)
          && Bool.eqb (d_vd_tbl d) (cc_vd_tbl c) && vers_eqb (vers_list d) (cc_vers c)).

  (* the monitor on a merged log: the stream in progress is kept per process *)
  Record omst2 := { o2_m : omst; o2_p : option stream; o2_q : option stream }.
  Definition omon2_step (m2 : omst2) (we : bool * oevent) : option omst2 :=
    let m := {| om_cur := if fst we then o2_q m2 else o2_p m2; om_app := om_app (o2_m m2); om_rec := om_rec (o2_m m2) |} in
    match omon_step m (snd we) with
    | None => None
    | Some m' => Some {| o2_m := m'; o2_p := if fst we then o2_p m2 else om_cur m'; o2_q := if fst we then om_cur m' else o2_q m2 |}
    end.
  Fixpoint omon2_run (m : omst2) (l : list (bool * oevent)) : option omst2 :=
    match l with [] => Some m | e :: l' => match omon2_step m e with Some m' => omon2_run m' l' | None => None end end.
  Definition omon2_ok (l : list (bool * oevent)) : bool :=
    match omon2_run {| o2_m := {| om_cur := None; om_app := fun _ => 0; om_rec := fun _ => 0 |}; o2_p := None; o2_q := None |} l with
    | Some _ => true | None => false end.

  (* per process, on observations: a version (k, v) is written only right after this process saw the
     statement that is script v-1 of stream k complete *)
  Fixpoint opmon (last : option oevent) (l : list oevent) : bool :=
    match l with
    | [] => true
    | e :: r =>
      match e with
      | OInsVer kn v _ =>
        match last, stream_of_k kn with
        | Some (OScript sid ROk), Some k => negb (N.eqb v 0) && N.eqb sid (sid_at k (Nat.pred (N.to_nat v))) && negb (N.eqb sid 0)
        | _, _ => false
        end
      | _ => true
      end && opmon (Some e) r
    end.
  Definition oplog (who : bool) (l : list (bool * oevent)) : list oevent := map snd (filter (fun e => Bool.eqb (fst e) who) l).

  (* oracle on a concurrent case, as a set of codes (bit i-1 = code i): 5 a process wrote a version it had not
     just seen complete; 1 the merged log breaks file order / never-ahead / runs a recorded script again;
     2,3,4 as for a single starter, judged on the undisturbed starts that follow *)
  Definition conc_spec_codes (c : ccase) : N :=
    let logs := cc_log c ++ map (pair false) (flat_map or_log (cc_after c)) in
    let b5 := negb (opmon None (oplog false (cc_log c)) && opmon None (oplog true (cc_log c))) in
    let b1 := negb (omon2_ok logs) in
    let e := expected_final (cc_cfg c) (cc_nhosts c) in
    let '(b2, b3, b4) :=
      match rev (cc_after c) with
      | last :: conv :: _ =>
        (negb (or_ok conv && or_ok last),
         negb (list_eqb cat_eqb (d_cat e) (cc_hosts c) && vers_eqb (vers_list e) (cc_vers c)),
         or_ok conv && existsb o_is_script (or_log last))
      | _ => (false, false, false)
      end in
    ((if b1 then 1 else 0) + (if b2 then 2 else 0) + (if b3 then 4 else 0) + (if b4 then 8 else 0) + (if b5 then 16 else 0))%N.
  Definition conc_mismatches (cs : list ccase) : list Z := map cc_id (filter conc_mismatch cs).
  Definition conc_violations (cs : list ccase) : list (Z * N) :=
    map (fun c => (cc_id c, conc_spec_codes c)) (filter (fun c => negb (N.eqb (conc_spec_codes c) 0)) cs).

  (* ---- the bootstrap path as observed (ctrl.Init over the fake TCP server): per start the bootstrap calls, then
     the calls of Update *)
  Record brun := { bo_os : list outcome; bo_ok : bool; bo_boot : list bevent; bo_items : list oitem }.
  Record bcase := { bc_id : Z; bc_cfg : bcfg; bc_nhosts : nat; bc_runs : list brun;
                    bc_hosts : list cat; bc_ver_tbl : bool; bc_vd_tbl : bool; bc_vers : list (N * N); bc_exists : bool }.
  Definition bevent_eqb (a b : bevent) : bool :=
    match a, b with BCreateDb r, BCreateDb r' | BShowDb r, BShowDb r' => res_eqb r r' | _, _ => false end.
  Definition ch_init (bc : bcfg) :=
    let c := b_cfg bc in
    init (ccat cat) (cstmt stmt) (cl_exec cat stmt (exec_ch (cloud c))) (cl_pexec cat stmt (exec_ch (cloud c))) (cl_scripts c) bc.
  Fixpoint boot_model_runs (bc : bcfg) (rs : list brun) (d : bdb (ccat cat)) : bdb (ccat cat) * bool :=
    match rs with
    | [] => (d, true)
    | r :: rest =>
      let m := ch_init bc (bo_os r) d in
      let same := Bool.eqb (br_ok m) (bo_ok r) && list_eqb bevent_eqb (br_boot m) (bo_boot r)
                  && list_eqb oevent_eqb (map abs_event (br_log m)) (expand (bo_items r)) in
      let '(d', ok) := boot_model_runs bc rest (br_db m) in (d', same && ok)
    end.
  Definition boot_mismatch (c : bcase) : bool :=
    let '(bd, same) := boot_model_runs (bc_cfg c) (bc_runs c) {| bd_exists := false; bd_db := db0 (ccat cat) (hosts0 (bc_nhosts c)) |} in
    let d := bd_db bd in
    negb (same && list_eqb cat_eqb (d_cat d) (bc_hosts c) && Bool.eqb (d_ver_tbl d) (bc_ver_tbl c)
          && Bool.eqb (d_vd_tbl d) (bc_vd_tbl c) && vers_eqb (vers_list d) (bc_vers c)
          && (b_default (bc_cfg c) || Bool.eqb (bd_exists bd) (bc_exists c))).
  (* the property's oracle on a bootstrap case: the Update parts judged as a case of their own (ttl_days = 0 is a
     configuration error: no start can complete, only the monitor applies) *)
  Definition boot_as_case (c : bcase) : case :=
    {| c_id := bc_id c; c_cfg := b_cfg (bc_cfg c); c_nhosts := bc_nhosts c;
       c_runs := map (fun r => {| or_os := []; or_ok := bo_ok r; or_items := bo_items r |}) (bc_runs c);
       c_clean := negb (b_ttl0 (bc_cfg c)); c_hosts := bc_hosts c; c_ver_tbl := bc_ver_tbl c; c_vd_tbl := bc_vd_tbl c; c_vers := bc_vers c; c_conn := [] |}.
  Definition boot_mismatches (cs : list bcase) : list Z := map bc_id (filter boot_mismatch cs).
  Definition boot_violations (cs : list bcase) : list (Z * N) :=
    map (fun c => (bc_id c, spec_code (boot_as_case c))) (filter (fun c => spec_violation (boot_as_case c)) cs).

  Definition mismatches (cs : list case) : list Z := map c_id (filter model_mismatch cs).
  Definition spec_violations (cs : list case) : list (Z * N) :=
    map (fun c => (c_id c, spec_code c)) (filter spec_violation cs).
End Obs.
