(* C02 round 8: the OVERLOAD GUARD behind the appends, a refuted variant of model/Ingest.v (seeded change C02-h).

   InsertServiceV2.Request (writer/service/genericInsertService.go) appends the request's rows to the shared columns (processRequest)
   BEFORE it looks at anything else; the only size threshold it knows, maxQueueSize, merely plans a flush.  The variant below adds, next
   to that check, "once more than lim (the unused constant BANDWITH_LIMIT, 50 MiB) is accounted, answer the request at once with an error
   and do not register it as waiting" -- after the appends have happened.  Every other step is the step of the unchanged model.

   A request refused that way leaves its cells in the open batch: they are sent with the next block, whose waiters do not include it
   (and its retry submits the same rows again).  overload_guard_refuted: C02's monitors reject a run of the variant whose requests are
   tables; guard_below_the_limit_is_the_model: as long as no more than lim is accounted the variant IS the model, step by step -- which is
   why only scripts that pile up more than 50 MiB of accounted size between two flushes can tell them apart (harness scenario `overload`);
   guard_before_the_appends_is_sound: the same guard placed in front of processRequest leaves no cell behind (the monitors accept).
   Executable definitions only. *)
From Coq Require Import List NArith ZArith Bool.
From Qryn Require Import model.Ingest model.PushHandler model.IngestSpec.
Import ListNotations.

Definition bandwidth_limit : Z := 50 * 1024 * 1024.

Definition set_results (s : svc) (l : list (pid * req)) (pl : bool) : svc :=
  {| kd := kd s; grp := grp s; maxq := maxq s; cols := cols s; size := size s; results := l; inflight := inflight s;
     client := client s; planned := pl; running := running s |}.

(* the guard AFTER the appends (the seeded change): the step of the model, then -- when the request was registered and the accounted
   size is over the limit -- insertCancel(), p.Done(0, err) and the promise taken back out of svc.results *)
Definition guard_step (lim : Z) (s : svc) (a : sact) : option (svc * list sev) :=
  match a with
  | SRequest p r sz =>
      match sstep s a with
      | Some (s', []) =>
          if Z.ltb lim (size s') then Some (set_results s' (results s) true, [VDone p r false]) else Some (s', [])
      | x => x
      end
  | _ => sstep s a
  end.

(* the guard BEFORE the appends: a request that would push the accounted size over the limit is refused untouched *)
Definition early_guard_step (lim : Z) (s : svc) (a : sact) : option (svc * list sev) :=
  match a with
  | SRequest p r sz =>
      if running s && Z.ltb lim (size s + sz) then Some (set_planned s true, [VDone p r false]) else sstep s a
  | _ => sstep s a
  end.

(* a run of ONE worker (number 0) under a step function, reported in the events of the system model (PushHandler.svc_act) *)
Fixpoint run_with (step : svc -> sact -> option (svc * list sev)) (s : svc) (st : list (pid * (kind * req * bool))) (tr : list sact)
  : option (svc * list event) :=
  match tr with
  | [] => Some (s, [])
  | a :: tr' =>
      match step s a with
      | None => None
      | Some (s', vs) =>
          let '(st', es) := apply_sevs 0 (kd s) st vs in
          let pre := match a with
                     | SRequest p r sz => [EReq 0 p (kd s) r sz (imm_of vs)]
                     | SDial ok => [EDial 0 ok]
                     | _ => []
                     end in
          match run_with step s' st' tr' with
          | Some (s'', es') => Some (s'', pre ++ es ++ es')
          | None => None
          end
      end
  end.

Definition sact_wf (k : kind) (a : sact) : bool := match a with SRequest _ r _ => wf_reqb k r | _ => true end.

(* ClickHouse stalls on the block of request 1 while three requests accounted with 20 MiB each arrive; then recovery *)
Definition row1 (rid : N) : req := table_of (ncols KSamples) [rid].
Definition mib (n : Z) : Z := n * 1024 * 1024.
Definition overload_demo : list sact := [
  SRequest (PEnv 1) (row1 1) 10; SPlan; SDial true; SSwap; SSend;        (* Do is called with row 1 and does not return *)
  SRequest (PEnv 2) (row1 2) (mib 20);
  SRequest (PEnv 3) (row1 3) (mib 20);
  SRequest (PEnv 4) (row1 4) (mib 20);                                   (* 60 MiB accounted *)
  SDoReturn true; SPlan; SSwap; SSend; SDoReturn true ].
