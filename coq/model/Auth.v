(* C20 — model of reader/utils/middleware/basic_auth.go and of the part of encoding/base64 it relies on.

   BasicAuthMiddleware(login, pass):
     auth := r.Header.Get("Authorization")            -- "" when absent
     auth == ""                         -> 401 + WWW-Authenticate
     parts := SplitN(auth, " ", 2); len != 2 || parts[0] != "Basic" -> 400
     payload, err := base64.StdEncoding.DecodeString(parts[1]); err != nil -> 401
     pair := SplitN(payload, ":", 2); len != 2 || pair[0] != login || pair[1] != pass -> 401
     otherwise next.ServeHTTP
   Until the fix recorded in findings.d/C20.txt the decode error was ignored (payload, _ := ...), so the decoded
   PREFIX of a malformed text was compared; that behaviour is kept as basic_auth_unchecked.

   Bytes are Coq strings.  Executable definitions only; proofs are in proofs/AuthProofs.v. *)
From Coq Require Import List String Ascii Bool NArith.
Import ListNotations.
Open Scope string_scope.

(* ------------------------------------------------------------------------------------------ *)
(* base64, StdEncoding (alphabet A-Z a-z 0-9 + /, pad '=', non-strict), at the level of bits    *)

(* a 6-bit group, most significant bit first *)
Inductive sext := Sx (b5 b4 b3 b2 b1 b0 : bool).

Definition sext_of_N (n : N) : sext :=
  Sx (N.testbit n 5) (N.testbit n 4) (N.testbit n 3) (N.testbit n 2) (N.testbit n 1) (N.testbit n 0).
Definition bN (b : bool) (w : N) : N := if b then w else 0%N.
Definition N_of_sext (s : sext) : N :=
  let '(Sx b5 b4 b3 b2 b1 b0) := s in
  (bN b5 32 + bN b4 16 + bN b3 8 + bN b2 4 + bN b1 2 + bN b0 1)%N.

(* decodeMap of StdEncoding: 0xff (None here) for every byte outside the alphabet *)
Definition dec_char (c : ascii) : option sext :=
  let n := N_of_ascii c in
  if (65 <=? n)%N && (n <=? 90)%N then Some (sext_of_N (n - 65))
  else if (97 <=? n)%N && (n <=? 122)%N then Some (sext_of_N (n - 71))
  else if (48 <=? n)%N && (n <=? 57)%N then Some (sext_of_N (n + 4))
  else if (n =? 43)%N then Some (sext_of_N 62)
  else if (n =? 47)%N then Some (sext_of_N 63)
  else None.

Definition enc_char (s : sext) : ascii :=
  let n := N_of_sext s in
  ascii_of_N (if (n <? 26)%N then n + 65 else if (n <? 52)%N then n + 71 else if (n <? 62)%N then n - 4
              else if (n =? 62)%N then 43 else 47)%N.

(* val = s0<<18 | s1<<12 | s2<<6 | s3 ; bytes = val>>16, val>>8, val   (Ascii lists the LEAST significant bit first) *)
Definition byte0 (a b : sext) : ascii :=
  let '(Sx a5 a4 a3 a2 a1 a0) := a in let '(Sx b5 b4 _ _ _ _) := b in Ascii b4 b5 a0 a1 a2 a3 a4 a5.
Definition byte1 (b c : sext) : ascii :=
  let '(Sx _ _ b3 b2 b1 b0) := b in let '(Sx c5 c4 c3 c2 _ _) := c in Ascii c2 c3 c4 c5 b0 b1 b2 b3.
Definition byte2 (c d : sext) : ascii :=
  let '(Sx _ _ _ _ c1 c0) := c in let '(Sx d5 d4 d3 d2 d1 d0) := d in Ascii d0 d1 d2 d3 d4 d5 c0 c1.

(* the four groups of three bytes (encoder side) *)
Definition sx0 (x : ascii) : sext := let '(Ascii _ _ x2 x3 x4 x5 x6 x7) := x in Sx x7 x6 x5 x4 x3 x2.
Definition sx1 (x y : ascii) : sext :=
  let '(Ascii x0 x1 _ _ _ _ _ _) := x in let '(Ascii _ _ _ _ y4 y5 y6 y7) := y in Sx x1 x0 y7 y6 y5 y4.
Definition sx2 (y z : ascii) : sext :=
  let '(Ascii y0 y1 y2 y3 _ _ _ _) := y in let '(Ascii _ _ _ _ _ _ z6 z7) := z in Sx y3 y2 y1 y0 z7 z6.
Definition sx3 (z : ascii) : sext := let '(Ascii z0 z1 z2 z3 z4 z5 _ _) := z in Sx z5 z4 z3 z2 z1 z0.
Definition zero_byte : ascii := Ascii false false false false false false false false.

Definition is_nl (c : ascii) : bool := Ascii.eqb c "010"%char || Ascii.eqb c "013"%char.   (* '\n' '\r' *)
Definition is_pad (c : ascii) : bool := Ascii.eqb c "="%char.
Fixpoint skip_nl (s : string) : string :=
  match s with
  | String c r => if is_nl c then skip_nl r else s
  | EmptyString => s
  end.
Definition is_empty (s : string) : bool := match s with EmptyString => true | _ => false end.

(* Encoding.Decode as a single left-to-right pass (the assemble64/assemble32 fast paths are the same function on
   eight / four alphabet bytes).  q = the groups of the current quantum read so far, oldest first (length <= 3).
   Result: the bytes written to dst[:n] and whether err == nil.  Every error return of decodeQuantum writes
   nothing for the current quantum, except "trailing garbage" after a correctly padded final quantum, which still
   delivers that quantum's bytes. *)
Fixpoint b64_go (s : string) (q : list sext) : string * bool :=
  match s with
  | EmptyString => (EmptyString, match q with [] => true | _ => false end)
  | String c r =>
    match dec_char c with
    | Some v =>
        match q with
        | [a; b; c'] =>
            let '(out, ok) := b64_go r [] in
            (String (byte0 a b) (String (byte1 b c') (String (byte2 c' v) out)), ok)
        | _ => b64_go r (q ++ [v])
        end
    | None =>
        if is_nl c then b64_go r q
        else if is_pad c then
          match q with
          | [a; b] =>
              match skip_nl r with
              | String c2 r2 =>
                  if is_pad c2 then (String (byte0 a b) EmptyString, is_empty (skip_nl r2))
                  else (EmptyString, false)
              | EmptyString => (EmptyString, false)
              end
          | [a; b; c'] => (String (byte0 a b) (String (byte1 b c') EmptyString), is_empty (skip_nl r))
          | _ => (EmptyString, false)
          end
        else (EmptyString, false)
    end
  end.

(* the text without the CR/LF bytes that the decoder skips *)
Fixpoint strip_nl (s : string) : string :=
  match s with
  | EmptyString => EmptyString
  | String c r => if is_nl c then strip_nl r else String c (strip_nl r)
  end.

Fixpoint groups3 (y : string) : bool :=       (* made of complete 3-byte groups (length divisible by 3) *)
  match y with
  | EmptyString => true
  | String _ (String _ (String _ r)) => groups3 r
  | _ => false
  end.

(* payload, _ := base64.StdEncoding.DecodeString(s) *)
Definition b64_decode_prefix (s : string) : string := fst (b64_go s []).
Definition b64_decode_ok (s : string) : bool := snd (b64_go s []).

(* base64.StdEncoding.EncodeToString (used to state right_credentials_pass and by clients) *)
Fixpoint b64_encode (s : string) : string :=
  match s with
  | EmptyString => EmptyString
  | String x EmptyString =>
      String (enc_char (sx0 x)) (String (enc_char (sx1 x zero_byte)) "==")
  | String x (String y EmptyString) =>
      String (enc_char (sx0 x)) (String (enc_char (sx1 x y)) (String (enc_char (sx2 y zero_byte)) "="))
  | String x (String y (String z r)) =>
      String (enc_char (sx0 x)) (String (enc_char (sx1 x y)) (String (enc_char (sx2 y z)) (String (enc_char (sx3 z))
        (b64_encode r))))
  end.

(* ------------------------------------------------------------------------------------------ *)
(* strings.SplitN(s, sep, 2) for a one-byte separator *)
Fixpoint split_first (sep : ascii) (s : string) : option (string * string) :=
  match s with
  | EmptyString => None
  | String c r =>
      if Ascii.eqb c sep then Some (EmptyString, r)
      else match split_first sep r with
           | Some (a, b) => Some (String c a, b)
           | None => None
           end
  end.
Definition splitn2 (sep : ascii) (s : string) : list string :=
  match split_first sep s with
  | Some (a, b) => [a; b]
  | None => [s]
  end.
Fixpoint has_char (c : ascii) (s : string) : bool :=
  match s with
  | EmptyString => false
  | String d r => Ascii.eqb d c || has_char c r
  end.

(* ------------------------------------------------------------------------------------------ *)
(* BasicAuthMiddleware's decision on the value of Header.Get("Authorization") *)
Inductive verdict :=
| VChallenge401   (* no header: 401 with WWW-Authenticate *)
| VBad400         (* not "<Basic> <rest>" *)
| VDenied401      (* payload is not login:pass *)
| VPass.          (* next.ServeHTTP *)

Definition verdict_eqb (a b : verdict) : bool :=
  match a, b with
  | VChallenge401, VChallenge401 | VBad400, VBad400 | VDenied401, VDenied401 | VPass, VPass => true
  | _, _ => false
  end.

(* check_err = true: the code as it is now; false: the code before the fix (decode error ignored) *)
Definition basic_auth_gen (check_err : bool) (login pass auth : string) : verdict :=
  if String.eqb auth EmptyString then VChallenge401 else
  match splitn2 " "%char auth with
  | [scheme; rest] =>
      if String.eqb scheme "Basic" then
        let '(payload, ok) := b64_go rest [] in
        if check_err && negb ok then VDenied401 else
        match splitn2 ":"%char payload with
        | [u; p] => if String.eqb u login && String.eqb p pass then VPass else VDenied401
        | _ => VDenied401
        end
      else VBad400
  | _ => VBad400
  end.
Definition basic_auth := basic_auth_gen true.
Definition basic_auth_unchecked := basic_auth_gen false.

(* the part of the header that carries the credentials, when the header has the shape "Basic <rest>" *)
Definition credentials_part (auth : string) : option string :=
  match splitn2 " "%char auth with
  | [scheme; rest] => if String.eqb scheme "Basic" then Some rest else None
  | _ => None
  end.

Definition verdict_status (v : verdict) : N :=
  match v with
  | VChallenge401 | VDenied401 => 401
  | VBad400 => 400
  | VPass => 0
  end%N.

(* "the request carries exactly those credentials": the header is  Basic <text>  where <text> is a complete, valid
   base64 text (err == nil) that decodes to login:pass.  This is the specification side (used by the oracle). *)
Definition exact_credentials (login pass auth : string) : bool :=
  match credentials_part auth with
  | Some rest => b64_decode_ok rest && String.eqb (b64_decode_prefix rest) (login ++ ":" ++ pass)
  | None => false
  end.

(* the specification used by the observation oracle is lenient about the letter case of the scheme token
   (RFC 7617: the scheme is case-insensitive; the code compares it exactly, which is the stricter choice) *)
Definition lower (c : ascii) : ascii :=
  let n := N_of_ascii c in if (65 <=? n)%N && (n <=? 90)%N then ascii_of_N (n + 32) else c.
Fixpoint eqb_ci (a b : string) : bool :=
  match a, b with
  | EmptyString, EmptyString => true
  | String x a', String y b' => Ascii.eqb (lower x) (lower y) && eqb_ci a' b'
  | _, _ => false
  end.
Definition carries_credentials (login pass auth : string) : bool :=
  match split_first " "%char auth with
  | Some (scheme, rest) =>
      eqb_ci scheme "Basic" && b64_decode_ok rest && String.eqb (b64_decode_prefix rest) (login ++ ":" ++ pass)
  | None => false
  end.

(* what a client sends *)
Definition basic_header (login pass : string) : string :=
  "Basic " ++ b64_encode (login ++ ":" ++ pass).
