(* C10 — correspondence cases: SQL text produced by the real planners for a hostile string in one
   position, against the SQL for a harmless marker string in the same position.
   Evaluated by vm_compute in generated files (checks/c10.py).  Executable definitions only. *)
From Coq Require Import List String Ascii Bool ZArith NArith Uint63.
From Qryn Require Import model.Quote model.ChLex model.Like.
Import ListNotations.
Open Scope string_scope.

(* ---- transport of byte strings: first the length, then 7 bytes per 63-bit integer, little endian
   (a Coq string literal costs ~10 term nodes per byte; this costs 2 per 7 bytes) *)
Definition bit_at (w : int) (k : int) : bool := Uint63.eqb (Uint63.land (Uint63.lsr w k) 1) 1.
Definition byte_at (w : int) (k : int) : ascii :=
  let b := Uint63.lsr w (Uint63.mul 8 k) in
  Ascii (bit_at b 0) (bit_at b 1) (bit_at b 2) (bit_at b 3) (bit_at b 4) (bit_at b 5) (bit_at b 6) (bit_at b 7).
Fixpoint unpack_ws (ws : list int) : string :=
  match ws with
  | [] => EmptyString
  | w :: r =>
      String (byte_at w 0) (String (byte_at w 1) (String (byte_at w 2) (String (byte_at w 3)
      (String (byte_at w 4) (String (byte_at w 5) (String (byte_at w 6) (unpack_ws r)))))))
  end.
Fixpoint stake (n : nat) (s : string) : string :=
  match n, s with S k, String c r => String c (stake k r) | _, _ => EmptyString end.
Definition unpack (l : list int) : string :=
  match l with [] => EmptyString | n :: ws => stake (Z.to_nat (Uint63.to_Z n)) (unpack_ws ws) end.

(* The harmless string placed in the position under test when the baseline SQL is produced (the
   "marker") travels with each baseline: "zqxmark", or a harmless non-literal regex for regex positions. *)

(* The statement of a case is transported as pieces: bytes copied from the baseline statement
   (offset, length) and literal bytes.  [build] reassembles the exact text before it is lexed. *)
Inductive seg : Type := Copy (off len : int) | Lit (bytes : list int).
Definition nat_of_int (i : int) : nat := Z.to_nat (Uint63.to_Z i).
Definition build (base : string) (segs : list seg) : string :=
  fold_right (fun sg acc =>
     match sg with
     | Copy o l => substring (nat_of_int o) (nat_of_int l) base ++ acc
     | Lit b => unpack b ++ acc
     end) EmptyString segs.

Inductive mode : Type :=
| MRaw      (* c_sql is the output of sql.NewStringVal(want).String() alone *)
| MPlain    (* the value must arrive as literal(s) decoding to the baseline literal with marker := want *)
| MLike.    (* the value arrives through doLike: the literal is a LIKE pattern meaning "contains want" *)

Record case : Type := {
  c_id : Z;
  c_mode : mode;
  c_want : list int;      (* packed: the bytes the request means *)
  c_base : Z;             (* index of the baseline (marker, statement): same site, marker in the same position *)
  c_sql : list seg        (* the statement the real code produced, as pieces *)
}.

Fixpoint contains (needle hay : string) : bool :=
  match hay with
  | EmptyString => match needle with EmptyString => true | _ => false end
  | String _ r => prefix needle hay || contains needle r
  end.

(* split at the first occurrence of the marker *)
Fixpoint split_marker (marker s : string) : option (string * string) :=
  match s with
  | EmptyString => None
  | String c r =>
      if prefix marker s then Some (EmptyString, substring (String.length marker) (String.length s) s)
      else match split_marker marker r with Some (a, b) => Some (String c a, b) | None => None end
  end.

Definition lit_plain_ok (marker want lb lh : string) : bool := String.eqb (replace_all marker want lb) lh.

Definition lit_like_ok (marker want lb lh : string) : bool :=
  match split_marker marker lb with
  | None => String.eqb lb lh
  | Some (a, b) => list_eqb litem_eqb (like_parse lh) (like_parse a ++ chars want ++ like_parse b)
  end.

Fixpoint all2 {A} (f : A -> A -> bool) (a b : list A) : bool :=
  match a, b with
  | [], [] => true
  | x :: a', y :: b' => f x y && all2 f a' b'
  | _, _ => false
  end.

(* verdict codes *)
Definition V_OK : Z := 0.
Definition V_LEXERR : Z := 1.        (* the statement does not lex (unterminated literal/comment, stray byte) *)
Definition V_SKELETON : Z := 2.      (* token skeleton differs from the baseline's *)
Definition V_LITERAL : Z := 4.       (* a literal does not decode to the intended bytes *)
Definition V_LIKE : Z := 5.          (* the LIKE pattern at the hole does not mean "contains want" *)
Definition V_MODEL : Z := 7.         (* the text the model predicts (quote want / do_like_lit want) is not in the statement *)
Definition V_BASE : Z := 8.          (* the baseline statement itself does not lex: harness problem *)

Definition verdict (bases : list (string * string * list tok)) (c : case) : Z :=
  let want := unpack (c_want c) in
  let '(marker, bsql, tb) := nth (Z.to_nat (c_base c)) bases (EmptyString, EmptyString, [TErr]) in
  let sql := build bsql (c_sql c) in
  match c_mode c with
  | MRaw =>
      if negb (String.eqb (quote want) sql && String.eqb (quote_seq want) sql) then V_MODEL
      else if list_eqb tok_eqb (lex sql) [TStr want] then V_OK else V_LITERAL
  | m =>
      let th := lex sql in
      if has_err tb then V_BASE
      else if has_err th then V_LEXERR
      else if negb (list_eqb tok_eqb (skeleton th) (skeleton tb)) then V_SKELETON
      else match m with
           | MLike =>
               if negb (all2 (lit_like_ok marker want) (lits tb) (lits th)) then V_LIKE
               else if negb (contains (do_like_lit marker) bsql) || contains (do_like_lit want) sql then V_OK else V_MODEL
           | _ =>
               if negb (all2 (lit_plain_ok marker want) (lits tb) (lits th)) then V_LITERAL
               else if negb (contains (quote marker) bsql) || contains (quote want) sql then V_OK else V_MODEL
           end
  end.

Definition verdicts (bases : list (list int * list int)) (cases : list case) : list (Z * Z) :=
  let tbs := map (fun b => let q := unpack (snd b) in (unpack (fst b), q, lex q)) bases in
  flat_map (fun c => let v := verdict tbs c in if Z.eqb v V_OK then [] else [(c_id c, v)]) cases.

Definition ids_with (p : Z -> bool) (r : list (Z * Z)) : list Z :=
  flat_map (fun iv => if p (snd iv) then [fst iv] else []) r.

(* model output differs from the implementation's *)
Definition mismatches (bases : list (list int * list int)) (cases : list case) : list Z :=
  ids_with (fun v => Z.eqb v V_MODEL || Z.eqb v V_BASE) (verdicts bases cases).
(* the property's oracle rejects the implementation's observed statement *)
Definition spec_violations (bases : list (list int * list int)) (cases : list case) : list Z :=
  ids_with (fun v => Z.eqb v V_LEXERR || Z.eqb v V_SKELETON || Z.eqb v V_LITERAL || Z.eqb v V_LIKE)
           (verdicts bases cases).
