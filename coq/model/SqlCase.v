(* C10 — correspondence cases: SQL text produced by the real planners for a hostile string in one
   position, against the SQL for a harmless marker string in the same position.
   Evaluated by vm_compute in generated files (checks/c10.py).  Executable definitions only. *)
From Coq Require Import List String Ascii Bool ZArith NArith Uint63.
From Qryn Require Import model.Quote model.ChLex model.Like model.SqlTemplate.
Import ListNotations.
Open Scope string_scope.

(* ---- transport of byte strings: first the length, then 7 bytes per 63-bit integer, little endian
   (a Coq string literal costs ~10 term nodes per byte; this costs 2 per 7 bytes) *)
Definition bit_at (w : int) (k : int) : bool := Uint63.eqb (Uint63.land (Uint63.lsr w k) 1) 1.
Definition byte_at (w : int) (k : int) : ascii :=
  let b := Uint63.lsr w (Uint63.mul 8 k) in
  Ascii (bit_at b 0) (bit_at b 1) (bit_at b 2) (bit_at b 3) (bit_at b 4) (bit_at b 5) (bit_at b 6) (bit_at b 7).
Fixpoint unpack_ws (ws : list int) : string :=
  match ws with
  | [] => EmptyString
  | w :: r =>
      String (byte_at w 0) (String (byte_at w 1) (String (byte_at w 2) (String (byte_at w 3)
      (String (byte_at w 4) (String (byte_at w 5) (String (byte_at w 6) (unpack_ws r)))))))
  end.
Fixpoint stake (n : nat) (s : string) : string :=
  match n, s with S k, String c r => String c (stake k r) | _, _ => EmptyString end.
Definition unpack (l : list int) : string :=
  match l with [] => EmptyString | n :: ws => stake (Z.to_nat (Uint63.to_Z n)) (unpack_ws ws) end.

(* The harmless string placed in the position under test when the baseline SQL is produced (the
   "marker") travels with each baseline: "zqxmark", or a harmless non-literal regex for regex positions. *)

(* A statement is transported relative to its baseline: both share the first [p] and the last [s] bytes of
   the baseline (chosen per baseline by the driver), the case carries only the bytes in between.  The
   statement that is lexed is exactly  prefix ++ middle ++ suffix ; the tokens of the prefix and, when the lexer
   is in the same state at the start of the suffix as it was for the baseline, those of the suffix are shared
   (ChLexProofs.lex_three, st_eqb_eq: the result is lex of the whole statement). *)
Record pbase : Type := {
  pb_marker : string;     (* the harmless value of the baseline, as it shows inside literals *)
  pb_pre : string; pb_mid : string; pb_suf : string;
  pb_q0 : st; pb_o0 : list tok;       (* after QN pre, outs QN pre *)
  pb_qb : st; pb_sufT : list tok;     (* state at the start of the suffix for the baseline, run of the suffix from it *)
  pb_midT : list tok;                 (* outs q0 mid of the baseline *)
  pb_toks : list tok;                 (* lex of the whole baseline *)
  pb_err : bool;                      (* has_err pb_toks *)
  pb_like : bool;                     (* the position goes through doLike *)
  pb_shape_ok : bool;                 (* the baseline, split at the marker, passes SqlTemplate.tplq_ok *)
  pb_mid_shape : string * list string (* pb_mid split at the marker *)
}.
Definition nat_of_int (i : int) : nat := Z.to_nat (Uint63.to_Z i).
(* the bytes written for value v inside the literal at its place: the escape loop over v, for line
   filters over the LIKE-escaped v *)
Definition hole_text (like : bool) (v : string) : string :=
  esc_seq escape_table (if like then like_escape v else v).
Definition mk_pbase (marker sql : string) (p s : nat) (like : bool) : pbase :=
  let n := String.length sql in
  let pre := substring 0 p sql in
  let mid := substring p (n - p - s) sql in
  let suf := substring (n - s) s sql in
  let '(q0, o0) := trace QN pre in
  let '(qb, midT) := trace q0 mid in
  let sufT := run qb suf in
  let toks := (o0 ++ midT ++ sufT)%list in
  {| pb_marker := marker; pb_pre := pre; pb_mid := mid; pb_suf := suf; pb_q0 := q0; pb_o0 := o0;
     pb_qb := qb; pb_sufT := sufT; pb_midT := midT; pb_toks := toks; pb_err := has_err toks;
     pb_like := like;
     pb_shape_ok := (let '(t0, rest) := split_all marker sql in tplq_ok QN t0 rest);
     pb_mid_shape := split_all marker mid |}.
Definition case_toks (b : pbase) (mid : string) : list tok :=
  let q := after (pb_q0 b) mid in
  (pb_o0 b ++ outs (pb_q0 b) mid ++ (if st_eqb q (pb_qb b) then pb_sufT b else run q (pb_suf b)))%list.

Inductive mode : Type :=
| MRaw      (* c_sql is the output of sql.NewStringVal(want).String() alone *)
| MPlain    (* the value must arrive as literal(s) decoding to the baseline literal with marker := want *)
| MLike.    (* the value arrives through doLike: the literal is a LIKE pattern meaning "contains want" *)

Record case : Type := {
  c_id : Z;
  c_mode : mode;
  c_want : list int;      (* packed: the bytes the request means *)
  c_base : Z;             (* index of the baseline (marker, statement): same site, marker in the same position *)
  c_mid : list int        (* packed: the statement the real code produced is pb_pre ++ this ++ pb_suf *)
}.

Fixpoint contains (needle hay : string) : bool :=
  match hay with
  | EmptyString => match needle with EmptyString => true | _ => false end
  | String _ r => prefix needle hay || contains needle r
  end.

(* split at the first occurrence of the marker *)
Fixpoint split_marker (marker s : string) : option (string * string) :=
  match s with
  | EmptyString => None
  | String c r =>
      if prefix marker s then Some (EmptyString, substring (String.length marker) (String.length s) s)
      else match split_marker marker r with Some (a, b) => Some (String c a, b) | None => None end
  end.

Definition lit_plain_ok (marker want lb lh : string) : bool := String.eqb (replace_all marker want lb) lh.

Definition lit_like_ok (marker want lb lh : string) : bool :=
  match split_marker marker lb with
  | None => String.eqb lb lh
  | Some (a, b) => list_eqb litem_eqb (like_parse lh) (like_parse a ++ chars want ++ like_parse b)
  end.

Fixpoint all2 {A} (f : A -> A -> bool) (a b : list A) : bool :=
  match a, b with
  | [], [] => true
  | x :: a', y :: b' => f x y && all2 f a' b'
  | _, _ => false
  end.

(* verdict codes *)
Definition V_OK : Z := 0.
Definition V_LEXERR : Z := 1.        (* the statement does not lex (unterminated literal/comment, stray byte) *)
Definition V_SKELETON : Z := 2.      (* token skeleton differs from the baseline's *)
Definition V_LITERAL : Z := 4.       (* a literal does not decode to the intended bytes *)
Definition V_LIKE : Z := 5.          (* the LIKE pattern at the hole does not mean "contains want" *)
Definition V_MODEL : Z := 7.         (* the text the model predicts (quote want / do_like_lit want) is not in the statement *)
Definition V_BASE : Z := 8.          (* the baseline statement itself does not lex: harness problem *)
Definition V_SHAPE : Z := 10.        (* the baseline statement, split at the marker literal, is not a shape covered by
                                        template_skeleton_invariant (a value next to a quote / inside a comment...) *)

Definition dummy_base : pbase := mk_pbase EmptyString EmptyString 0 0 false.

Definition verdict (bases : list pbase) (c : case) : Z :=
  let want := unpack (c_want c) in
  let b := nth (Z.to_nat (c_base c)) bases dummy_base in
  let mid := unpack (c_mid c) in
  let marker := pb_marker b in
  (* the statement is exactly the baseline shape instantiated with the model's text for the value *)
  let as_model := let '(t0, rest) := pb_mid_shape b in String.eqb mid (fill t0 rest (hole_text (pb_like b) want)) in
  match c_mode c with
  | MRaw =>
      if negb (String.eqb (quote want) mid && String.eqb (quote_seq want) mid) then V_MODEL
      else if list_eqb tok_eqb (lex mid) [TStr want] then V_OK else V_LITERAL
  | m =>
      (* When the lexer reaches the shared suffix in the state it had for the baseline, the two token lists
         are  o0 ++ middle ++ sufT  with the same o0 and sufT: comparing the middles compares the lists
         (app_inv_head / app_inv_tail), and errors in o0/sufT are the baseline's. *)
      let '(q, om) := trace (pb_q0 b) mid in
      let fast := st_eqb q (pb_qb b) in
      let tb := if fast then pb_midT b else pb_toks b in
      let th := if fast then om else (pb_o0 b ++ om ++ run q (pb_suf b))%list in
      if pb_err b then V_BASE
      else if negb (pb_shape_ok b) then V_SHAPE
      else if has_err th then V_LEXERR
      else if negb (list_eqb tok_eqb (skeleton th) (skeleton tb)) then V_SKELETON
      else match m with
           | MLike =>
               if negb (all2 (lit_like_ok marker want) (lits tb) (lits th)) then V_LIKE
               else if as_model then V_OK else V_MODEL
           | _ =>
               if negb (all2 (lit_plain_ok marker want) (lits tb) (lits th)) then V_LITERAL
               else if as_model then V_OK else V_MODEL
           end
  end.

(* a baseline as sent by the driver: marker, statement, shared prefix and suffix lengths *)
Definition rbase : Type := (list int * list int * int * int * bool)%type.
Definition verdicts (bases : list rbase) (cases : list case) : list (Z * Z) :=
  let tbs := map (fun b : rbase => let '(m, q, p, s, lk) := b in mk_pbase (unpack m) (unpack q) (nat_of_int p) (nat_of_int s) lk) bases in
  flat_map (fun c => let v := verdict tbs c in if Z.eqb v V_OK then [] else [(c_id c, v)]) cases.

Definition ids_with (p : Z -> bool) (r : list (Z * Z)) : list Z :=
  flat_map (fun iv => if p (snd iv) then [fst iv] else []) r.

(* model output differs from the implementation's *)
Definition mismatches (bases : list rbase) (cases : list case) : list Z :=
  ids_with (fun v => Z.eqb v V_MODEL || Z.eqb v V_BASE || Z.eqb v V_SHAPE) (verdicts bases cases).
(* the property's oracle rejects the implementation's observed statement *)
Definition spec_violations (bases : list rbase) (cases : list case) : list Z :=
  ids_with (fun v => Z.eqb v V_LEXERR || Z.eqb v V_SKELETON || Z.eqb v V_LITERAL || Z.eqb v V_LIKE)
           (verdicts bases cases).
