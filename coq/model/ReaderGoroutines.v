(* C12 -- inventory of the goroutines started under reader/ (types of the generated file
   gen/GenGoroutinesReader.v) and the allow-list of the bodies that run WITHOUT an effective recover.

   recover() stops a panic only when it is called directly by the deferred function:
     defer shared.TamePanic(out)                 RecDirect   (effective)
     defer func() { if r := recover() ... }()    RecDirect   (effective)
     defer func() { shared.TamePanic(out) }()    RecIndirect (recover() returns nil: NOT effective)
   A panic in a goroutine without an effective recover terminates the reader process, whatever the
   HTTP handler defers. *)
From Coq Require Import List String Bool Arith.
Import ListNotations.
Open Scope string_scope.

Inductive rec_status := RecDirect | RecIndirect | RecNone | RecUnknown.

Record goroutine := {
  g_file : string;      (* path below reader/ *)
  g_func : string;      (* enclosing function declaration *)
  g_ord : nat;          (* n-th go statement of that function, source order *)
  g_target : string;    (* "" = function literal, else the named function started *)
  g_rec : rec_status;
  g_leading : bool;     (* the recovering defer precedes every statement that can fault *)
  (* census of the fault-capable operations of the body and of the same-package functions / local
     closures it calls by name: integer-or-float division, index, slice, make with a computed
     length, single-value type assertion *)
  g_div : nat; g_idx : nat; g_slice : nat; g_make : nat; g_assert : nat }.

Definition effective_recover (g : goroutine) : bool :=
  match g_rec g with RecDirect => g_leading g | _ => false end.

(* what an unrecovered body is, i.e. which model (model/Pipeline.v) and lemma speaks for it *)
Inductive body_class :=
| BScan          (* ClickhouseGetterPlanner.Scan / ScanMatrix: Pipeline.scan_node *)
| BFixPeriod     (* FixPeriodPlanner goroutine: Pipeline.fixperiod_node, fault-free under fix_guard *)
| BDrainer       (* for range c {}: the drained state of the LTS *)
| BEncoder       (* exportStreamsValue, matrix and vector writers: Pipeline.enc_node *)
| BRowsForward   (* for rows.Next() { Scan(&scalar); res <- scalar } with rows.Close / return *)
| BChanForward   (* for x := range in { res <- x } *)
| BCloseOnly     (* sends constants and closes *)
| BTail          (* live tail ticker loop (not modelled; websocket) *)
| BWsReader      (* websocket read loop *)
| BTraceQLRows   (* TraceQL result rows -> TraceInfo (not modelled) *)
| BBackground.   (* process-lifetime helpers: version cache reset, log shipping, watchdog *)

Record allowed := {
  a_file : string; a_func : string; a_ord : nat; a_class : body_class;
  a_div : nat; a_idx : nat; a_slice : nat; a_make : nat; a_assert : nat }.

Definition A f fn o c d i s m a : allowed :=
  {| a_file := f; a_func := fn; a_ord := o; a_class := c; a_div := d; a_idx := i; a_slice := s; a_make := m; a_assert := a |}.

(* The operations counted here are the ones the covering lemma / review accounts for; a body that
   gains a division, an index, a slice, a computed make or an assertion no longer matches. *)
Definition allow_list : list allowed := [
  A "controller/queryRangeController.go" "(*QueryRangeController).Tail" 0 BDrainer 0 0 0 0 0;
  A "controller/queryRangeController.go" "(*QueryRangeController).Tail" 1 BWsReader 0 0 0 0 0;
  A "logql/logql_transpiler_v2/internal_planner/planner_generic.go" "(*GenericPlanner).WrapProcess" 1 BDrainer 0 0 0 0 0;
  A "logql/logql_transpiler_v2/planner_from_fix.go" "(*FixPeriodPlanner).Process" 0 BFixPeriod 5 1 3 1 0;
  A "logql/logql_transpiler_v2/shared/planner_clickhouse_getter.go" "(*ClickhouseGetterPlanner).Process" 0 BScan 0 8 3 0 0;
  A "logql/logql_transpiler_v2/shared/planner_clickhouse_getter.go" "(*ClickhouseGetterPlanner).Process" 1 BScan 0 8 3 0 0;
  A "service/queryLabelsService.go" "(*QueryLabelsService).GenericLabelReq" 0 BRowsForward 0 0 0 0 0;
  A "service/queryLabelsService.go" "(*QueryLabelsService).Series" 0 BCloseOnly 0 0 0 0 0;
  (* since d82d164 the body calls storedLabels: rest[0] behind len(rest) > 0, kv[j] / kv[0] / kv[1] on a [2]string, a map write,
     rest[len(q):] with q a prefix of rest; a row whose label document does not decode is skipped (no send: an identity step) *)
  A "service/queryLabelsService.go" "(*QueryLabelsService).Series" 1 BRowsForward 0 5 1 0 0;
  A "service/queryRangeService.go" "drain" 0 BDrainer 0 0 0 0 0;
  A "service/queryRangeService.go" "(*QueryRangeService).QueryRange" 0 BEncoder 0 0 0 0 0;
  (* float division e.TimestampNS/1e9 *)
  A "service/queryRangeService.go" "(*QueryRangeService).QueryRange" 1 BEncoder 1 0 0 0 0;
  A "service/queryRangeService.go" "(*QueryRangeService).QueryInstant" 0 BEncoder 0 0 0 0 0;
  (* integer division by the constant 1000000000; three map reads *)
  A "service/queryRangeService.go" "(*QueryRangeService).QueryInstant" 1 BEncoder 1 3 0 0 0;
  (* sqlQuery[0]: Transpile returns a one-element chain *)
  A "service/queryRangeService.go" "(*QueryRangeService).Tail" 0 BTail 0 1 0 0 0;
  A "service/tempoService.go" "(*TempoService).Tags" 0 BRowsForward 0 0 0 0 0;
  A "service/tempoService.go" "(*TempoService).TagsV2" 0 BChanForward 0 0 0 0 0;
  A "service/tempoService.go" "(*TempoService).ValuesV2" 0 BChanForward 0 0 0 0 0;
  A "service/tempoService.go" "(*TempoService).Values" 0 BRowsForward 0 0 0 0 0;
  A "service/tempoService.go" "(*TempoService).Search" 0 BRowsForward 0 0 0 0 0;
  A "service/tempoServiceTraceQL.go" "(*TempoService).SearchTraceQL" 0 BChanForward 0 0 0 0 0;
  A "traceql/transpiler/complex_request_processor.go" "(*ComplexRequestProcessor).Process" 0 BCloseOnly 0 0 0 0 0;
  A "traceql/transpiler/complex_tags_v2_processor.go" "(*allTagsV2RequestProcessor).Process" 0 BCloseOnly 0 0 0 0 0;
  A "traceql/transpiler/complex_values_v2_processor.go" "(*allValuesV2RequestProcessor).Process" 0 BCloseOnly 0 0 0 0 0;
  A "traceql/transpiler/reqest_processor.go" "(TraceQLRequestProcessor).Process" 0 BTraceQLRows 0 13 0 1 0;
  A "traceql/transpiler/simple_tags_v2_processor.go" "(*SimpleTagsV2RequestProcessor).Process" 0 BCloseOnly 0 0 0 0 0;
  A "utils/dbVersion/version.go" "throttle" 0 BBackground 0 0 0 0 0;
  A "utils/logger/logger.go" "(*qrynFormatter).Run" 0 BBackground 0 6 0 0 0;
  A "utils/logger/logger.go" "(*qrynFormatter).Run" 1 BBackground 0 0 0 0 0;
  A "watchdog/watchdog.go" "Init" 0 BBackground 0 0 0 0 0
].

Definition same_site (g : goroutine) (a : allowed) : bool :=
  String.eqb (g_file g) (a_file a) && String.eqb (g_func g) (a_func a) && Nat.eqb (g_ord g) (a_ord a).

Definition same_census (g : goroutine) (a : allowed) : bool :=
  Nat.eqb (g_div g) (a_div a) && Nat.eqb (g_idx g) (a_idx a) && Nat.eqb (g_slice g) (a_slice a) &&
  Nat.eqb (g_make g) (a_make a) && Nat.eqb (g_assert g) (a_assert a).

(* a goroutine is accounted for when its body starts with an effective recover, or when it is on the
   allow-list with exactly the fault-capable operations the list records *)
Definition accounted (g : goroutine) : bool :=
  effective_recover g || existsb (fun a => same_site g a && same_census g a) allow_list.

(* no stale entry: every allow-listed site still exists (a removed drainer goroutine shows up here) *)
Definition present (gs : list goroutine) (a : allowed) : bool := existsb (fun g => same_site g a) gs.

Definition unaccounted (gs : list goroutine) : list (string * string * nat) :=
  map (fun g => (g_file g, g_func g, g_ord g)) (filter (fun g => negb (accounted g)) gs).

Definition stale (gs : list goroutine) : list (string * string * nat) :=
  map (fun a => (a_file a, a_func a, a_ord a)) (filter (fun a => negb (present gs a)) allow_list).

(* the stages of the LogQL pipeline must keep their recover: these sites must be effective *)
Definition must_recover : list (string * string * nat) := [
  ("logql/logql_transpiler_v2/internal_planner/planner_generic.go", "(*GenericPlanner).WrapProcess", 0);
  ("service/tempoService.go", "(*TempoService).OutputQuery", 0) ].

Definition recovers_at (gs : list goroutine) (site : string * string * nat) : bool :=
  let '(f, fn, o) := site in
  existsb (fun g => String.eqb (g_file g) f && String.eqb (g_func g) fn && Nat.eqb (g_ord g) o && effective_recover g) gs.

Definition inventory_ok (gs : list goroutine) : bool :=
  forallb accounted gs && forallb (present gs) allow_list && forallb (recovers_at gs) must_recover.

(* ------------------------------------------------------------------ receive loops of the HTTP handlers (contract K)
   A handler loop `for x := range ch` (or a for/select with a receive) must receive until the channel is
   closed: the goroutine that feeds it sends on an unbuffered channel and would stay blocked otherwise -- also
   when w.Write fails because the client went away. A loop that can leave earlier must be allow-listed with
   what covers it. *)
Record rloop := { l_file : string; l_func : string; l_ord : nat; l_kind : string; l_x : string; l_early : bool }.

Inductive loop_class :=
| LNotChannel        (* ranges over a slice / map literal, not over a channel *)
| LDrainedByDefer    (* the handler defers `go func(){ for range ch {} }()` before the loop *)
| LEncodeErrorOnly.  (* leaves only if encoding/json fails on a plain struct of strings (cannot) -- not drained *)

Definition loop_allow : list (string * string * nat * loop_class) := [
  ("controller/profController.go", "(*ProfController).RenderDiff", 0, LNotChannel);
  ("controller/profController.go", "(*ProfController).RenderDiff", 1, LNotChannel);
  ("controller/queryRangeController.go", "(*QueryRangeController).Tail", 1, LDrainedByDefer);
  ("controller/tempoController.go", "(*TempoController).Trace", 2, LEncodeErrorOnly);
  ("controller/tempoController.go", "(*TempoController).TagsV2", 0, LNotChannel);
  ("controller/tempoController.go", "(*TempoController).ValuesV2", 0, LNotChannel);
  ("controller/utils.go", "RunPreRequestPlugins", 0, LNotChannel);
  ("controller/utils.go", "runPreWSRequestPlugins", 0, LNotChannel)
].

Definition loop_accounted (l : rloop) : bool :=
  negb (l_early l) ||
  existsb (fun a => let '(f, fn, o, _) := a in String.eqb (l_file l) f && String.eqb (l_func l) fn && Nat.eqb (l_ord l) o) loop_allow.

Definition loops_ok (ls : list rloop) : bool := forallb loop_accounted ls.
Definition unaccounted_loops (ls : list rloop) : list (string * string * nat * string) :=
  map (fun l => (l_file l, l_func l, l_ord l, l_x l)) (filter (fun l => negb (loop_accounted l)) ls).

(* ------------------------------------------------------------------ mutexes: a lock taken while serving a request is given back
   on every way out. A Lock()/RLock() statement is
     MDeferred  followed by `defer X.Unlock()` (nothing can leave in between),
     MPaired    followed, in the same statement list, by X.Unlock(), and every `return` in between is directly
                preceded by its own X.Unlock() (no break/continue/goto out of the region),
     MLeaky     some way out of the region keeps the lock (every later request needing it blocks forever),
     MUnmatched no Unlock in the same statement list. *)
Inductive mstatus := MDeferred | MPaired | MLeaky | MUnmatched.
Record mlock := { m_file : string; m_func : string; m_ord : nat; m_recv : string; m_kind : string; m_status : mstatus }.

(* reviewed exceptions (none needed today) *)
Definition lock_allow : list (string * string * nat) := [].

Definition lock_accounted (l : mlock) : bool :=
  match m_status l with
  | MDeferred | MPaired => true
  | _ => existsb (fun a => let '(f, fn, o) := a in String.eqb (m_file l) f && String.eqb (m_func l) fn && Nat.eqb (m_ord l) o) lock_allow
  end.
Definition locks_ok (ls : list mlock) : bool := forallb lock_accounted ls.
Definition unaccounted_locks (ls : list mlock) : list (string * string * nat * string) :=
  map (fun l => (m_file l, m_func l, m_ord l, m_recv l)) (filter (fun l => negb (lock_accounted l)) ls).

(* ------------------------------------------------------------------ channel operations per goroutine body (generated: reader_chanops)
   c_send / c_recv: blocking sends and receives OUTSIDE a select (nested function literals included unless started by go),
   c_sel: select statements, of which c_sel_done have a `<-X.Done()` case and c_sel_default a default clause, c_close: close calls. *)
Record chanop := { c_file : string; c_func : string; c_ord : nat; c_send : nat; c_recv : nat; c_sel : nat;
                   c_sel_done : nat; c_sel_default : nat; c_sel_plain : nat (* neither a Done case nor a default *);
                   c_range : nat (* range loops: over a channel they receive until it is closed *); c_close : nat }.

(* The reviewed channel operations of every goroutine body: blocking sends, blocking receives, selects, selects with
   neither a Done case nor a default, range loops, close calls (functions and methods of the package that the body calls
   are followed). Each vector was compared with the cell of the LTS that stands for the body (model/Pipeline.v,
   ReadPath.v, ReadFwd.v: one send per message of n_on_msg / n_on_close, one range loop over the input, close = return);
   a body that gains a blocking operation no longer matches and has to be reviewed against its cell. *)
Record chan_allowed := CA { ca_file : string; ca_func : string; ca_ord : nat; ca_send : nat; ca_recv : nat; ca_sel : nat;
                            ca_sel_plain : nat; ca_range : nat; ca_close : nat }.
Definition chan_allow : list chan_allowed := [
  CA "controller/queryRangeController.go" "(*QueryRangeController).Tail" 0 0 0 0 0 1 0;
  CA "controller/queryRangeController.go" "(*QueryRangeController).Tail" 1 0 0 0 0 0 0;
  CA "logql/logql_transpiler_v2/internal_planner/planner_generic.go" "(*GenericPlanner).WrapProcess" 0 2 0 0 0 2 1;
  CA "logql/logql_transpiler_v2/internal_planner/planner_generic.go" "(*GenericPlanner).WrapProcess" 1 0 0 0 0 1 0;
  CA "logql/logql_transpiler_v2/planner_from_fix.go" "(*FixPeriodPlanner).Process" 0 1 0 0 0 3 1;
  CA "logql/logql_transpiler_v2/planner_matrix_step.go" "(*MatrixStepPlanner).Process" 0 1 0 0 0 2 1;
  CA "logql/logql_transpiler_v2/shared/planner_clickhouse_getter.go" "(*ClickhouseGetterPlanner).Process" 0 4 0 1 0 1 1;
  CA "logql/logql_transpiler_v2/shared/planner_clickhouse_getter.go" "(*ClickhouseGetterPlanner).Process" 1 8 0 2 0 2 2;
  CA "service/queryLabelsService.go" "(*QueryLabelsService).GenericLabelReq" 0 4 0 0 0 0 1;
  CA "service/queryLabelsService.go" "(*QueryLabelsService).Series" 0 1 0 0 0 0 1;
  CA "service/queryLabelsService.go" "(*QueryLabelsService).Series" 1 4 0 0 0 1 1;
  CA "service/queryRangeService.go" "drain" 0 0 0 0 0 1 0;
  CA "service/queryRangeService.go" "(*QueryRangeService).QueryRange" 0 5 0 0 0 3 1;
  CA "service/queryRangeService.go" "(*QueryRangeService).QueryRange" 1 5 0 0 0 3 1;
  CA "service/queryRangeService.go" "(*QueryRangeService).QueryInstant" 0 5 0 0 0 3 1;
  CA "service/queryRangeService.go" "(*QueryRangeService).QueryInstant" 1 4 0 0 0 4 1;
  CA "service/queryRangeService.go" "(*QueryRangeService).Tail" 0 2 0 1 0 4 1;
  CA "service/tempoService.go" "(*TempoService).OutputQuery" 0 1 0 0 0 13 1;
  CA "service/tempoService.go" "(*TempoService).Tags" 0 1 0 0 0 0 1;
  CA "service/tempoService.go" "(*TempoService).TagsV2" 0 1 0 0 0 2 1;
  CA "service/tempoService.go" "(*TempoService).ValuesV2" 0 1 0 0 0 2 1;
  CA "service/tempoService.go" "(*TempoService).Values" 0 1 0 0 0 0 1;
  CA "service/tempoService.go" "(*TempoService).Search" 0 1 0 0 0 0 1;
  CA "service/tempoServiceTraceQL.go" "(*TempoService).SearchTraceQL" 0 1 0 0 0 1 1;
  CA "traceql/transpiler/complex_request_processor.go" "(*ComplexRequestProcessor).Process" 0 1 0 0 0 0 1;
  CA "traceql/transpiler/complex_tags_v2_processor.go" "(*allTagsV2RequestProcessor).Process" 0 0 0 0 0 0 1;
  CA "traceql/transpiler/complex_values_v2_processor.go" "(*allValuesV2RequestProcessor).Process" 0 0 0 0 0 0 1;
  CA "traceql/transpiler/reqest_processor.go" "(TraceQLRequestProcessor).Process" 0 1 0 0 0 2 1;
  CA "traceql/transpiler/simple_tags_v2_processor.go" "(*SimpleTagsV2RequestProcessor).Process" 0 0 0 0 0 0 1;
  CA "utils/dbVersion/version.go" "throttle" 0 0 0 0 0 0 0;
  CA "utils/logger/logger.go" "(*qrynFormatter).Run" 0 0 0 0 0 3 0;
  CA "utils/logger/logger.go" "(*qrynFormatter).Run" 1 0 0 0 0 1 0;
  CA "watchdog/watchdog.go" "Init" 0 0 0 0 0 1 0
].

Definition chan_same (c : chanop) (a : chan_allowed) : bool :=
  String.eqb (c_file c) (ca_file a) && String.eqb (c_func c) (ca_func a) && Nat.eqb (c_ord c) (ca_ord a) &&
  Nat.eqb (c_send c) (ca_send a) && Nat.eqb (c_recv c) (ca_recv a) && Nat.eqb (c_sel c) (ca_sel a) &&
  Nat.eqb (c_sel_plain c) (ca_sel_plain a) && Nat.eqb (c_range c) (ca_range a) && Nat.eqb (c_close c) (ca_close a).

(* accounted: the recorded vector; no select that can block without looking at a Done channel; a body that sends closes *)
Definition chanop_accounted (c : chanop) : bool :=
  existsb (chan_same c) chan_allow && Nat.eqb (c_sel_plain c) 0 && (Nat.eqb (c_send c) 0 || negb (Nat.eqb (c_close c) 0)).
Definition chanops_ok (cs : list chanop) : bool := forallb chanop_accounted cs.
Definition unaccounted_chanops (cs : list chanop) : list (string * string * nat) :=
  map (fun c => (c_file c, c_func c, c_ord c)) (filter (fun c => negb (chanop_accounted c)) cs).
