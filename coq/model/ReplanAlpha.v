(* C14: one plan object executed again under ONE PlannerContext. The id counter of the context goes on, so the
   second statement differs from the first in the numbers of the generated CTE aliases (subsel_3 instead of
   subsel_1). `erase` forgets exactly the places where SimpleLabelFilterPlanner / MainRenewPlanner put such an
   alias, and nothing else:
     * the WITH list of a Select (s_withs): the references carry their query (Sql.WRef alias q);
     * the alias of a reference inside IN (...):          fingerprint IN (subsel_1);
     * the alias of a reference that is re-aliased:       FROM subsel_1 as samples.
   A reference used directly as a table (FROM prefinal, JOIN _time_series) keeps its alias: the columns of the
   surrounding select are qualified with it. C07's SqlEval reads none of the forgotten places
   (proofs/ReplanAlphaProofs.v eval_erase: eval (erase_sel q) = eval q for every tree, database and oracle), so
   two statements with the same erasure have the same meaning.
   `erase` walks only through the constructors that can lead to a sub-select in a statement (AND/OR lists, IN,
   references, sub-queries, FROM, JOIN, WHERE, PREWHERE); everything else is kept as it is: the equivalence
   "same erasure" is as fine as possible. Executable definitions only. *)
From Coq Require Import List ZArith NArith String Ascii Bool.
From Qryn Require Import lib.Strs model.Sql model.SqlRender model.Logql model.LogqlPlan model.LogqlCases.
Import ListNotations.
Open Scope string_scope.

Section ESEL.
  Variable ee : expr -> expr.          (* an object in condition position *)
  Variable ef : expr -> expr.          (* an object in table position (FROM, JOIN) *)
  Definition erase_join (j : string * expr * option expr) : string * expr * option expr :=
    (fst (fst j), ef (snd (fst j)), snd j).
  Definition erase_sel_gen (q : select_ expr) : select_ expr :=
    mkSel (s_distinct q) (s_cols q) (option_map ef (s_from q)) (option_map ee (s_where q)) (option_map ee (s_prewhere q))
          (s_having q) (s_groupby q) (s_orderby q) (s_limit q) (s_offset q) [] (map erase_join (s_joins q))
          (s_settings q) (s_unions q).
End ESEL.

(* table = true: the object is the operand of FROM / JOIN *)
Fixpoint erase_at (table : bool) (e : expr) {struct e} : expr :=
  match e with
  | LOp op cl => LOp op (map (erase_at false) cl)
  | In l rs =>
    In l (map (fun r => match r with
                        | WRef _ q => WRef "" (erase_sel_gen (erase_at false) (erase_at true) q)
                        | _ => erase_at false r end) rs)
  | WRef a q => WRef a (erase_sel_gen (erase_at false) (erase_at true) q)
  | SubQ q => SubQ (erase_sel_gen (erase_at false) (erase_at true) q)
  | Col x a =>
    if table then
      match x with
      | WRef _ q => Col (WRef "" (erase_sel_gen (erase_at false) (erase_at true) q)) a
      | _ => e
      end
    else e
  | _ => e
  end.
Definition erase : expr -> expr := erase_at false.
Definition erase_tab : expr -> expr := erase_at true.
Definition erase_sel : select -> select := erase_sel_gen erase erase_tab.
(* a member of an IN list *)
Definition erase_in (r : expr) : expr := match r with WRef _ q => WRef "" (erase_sel q) | _ => erase r end.

(* ---------- the executions as object trees (LogqlCases.run_plan / Replan.fresh_seq print them) ---------- *)
(* one plan object, ONE context whose window advances one second per call *)
Fixpoint run_plan_sel (k : nat) (p : planner) (c : pctx) (st : pst) : list (option select) :=
  match k with
  | O => []
  | S k' =>
    match process p c st with
    | None => [None]
    | Some (q, st', p') => Some q :: run_plan_sel k' p' (advance c) st'
    end
  end.
(* k never executed plan objects, a new context each *)
Fixpoint fresh_seq_sel (k : nat) (p : planner) (c : pctx) : list (option select) :=
  match k with
  | O => []
  | S k' => match process p c pst0 with
            | None => [None]
            | Some (q, _, _) => Some q :: fresh_seq_sel k' p (advance c)
            end
  end.
Definition render_at (cluster : bool) (o : option select) : option string :=
  match o with Some q => render q cluster | None => None end.

(* plans in which no ByWithoutPlanner occurs: its aliases (pre_by_without_n, labels_n, pre_without_n) qualify column
   names (pre_by_without_3.labels) and name a table directly; unknown planners count as such *)
Fixpoint no_by_without (p : planner) : bool :=
  match p with
  | PStreamSelect _ | PMainInit | PTimeSeriesInit | PMetrics15 _ _ => true
  | PSimpleLabelFilter _ fpsel => no_by_without fpsel
  | PFingerprintFilter fp main => no_by_without fp && no_by_without main
  | PLabelsJoin main fp ts _ => no_by_without main && no_by_without fp && no_by_without ts
  | PLineFilterP _ _ _ main | PLabelFilterP _ main | PParserP _ _ main | PDropP _ main | PMainRenew main _ | PMainOrderBy _ main
  | PMainLimit main | PMainFinalizer main _ _ | PLraP _ _ _ main | PUnwrapP _ main | PUnwrapFnP _ _ main
  | PAggOpP _ _ main | PComparisonP _ _ main | PTopKP _ _ main | PQuantileP _ _ main | PStepFixP _ main
  | PLineFormatP _ main => no_by_without main
  | PByWithoutP _ _ _ _ => false
  end.

(* erasures of a list of statements *)
Definition erase_all (l : list (option select)) : list (option select) := map (option_map erase_sel) l.
