(* C09, second half of the property: "... and as the SQL engine does for the stages both implement".
   The stages both engines implement are the line filter, the label filter, json with parameters and drop (the ClickHouse
   planner runs them when they stand in front of the first json / logfmt / line_format stage, the in-process engine when
   they stand behind it).  The reference meaning of the SQL side is C07's run_stages / logql_sem2 (model/LogqlSem.v, tied
   to the generated SQL by C07's theorems); the reference of the in-process side is sem_chain (model/InternalEngine.v, tied
   to the Go stages by engines_agree).  This file translates a pipeline of C07's syntax (model/Logql.v) into a chain of
   in-process stages and links the oracles of the two references; proofs/InternalEngineSqlProofs.v proves that the two
   references then define the same lines with the same label maps.  Definitions only.                                    *)
From Coq Require Import List ZArith NArith QArith Bool String Ascii.
From Qryn Require Import lib.Strs model.Sql model.Logql model.LogqlPlan model.SqlEval model.LogqlSem.
From Qryn Require model.InternalEngine.
Import ListNotations.
Module IE := InternalEngine.
Open Scope string_scope.

(* float64 of the in-process reference := the rationals C07's reference compares with *)
Definition qltb (a b : Q) : bool := match Qcompare a b with Datatypes.Lt => true | _ => false end.
Definition qleb (a b : Q) : bool := match Qcompare a b with Datatypes.Gt => false | _ => true end.
Definition qeqb (a b : Q) : bool := match Qcompare a b with Datatypes.Eq => true | _ => false end.

Section BRIDGE.
  Variable re7 : string -> string -> bool.                 (* C07's oracle: subject, pattern *)
  Variable pf : string -> option Q.                         (* C07's oracle: toFloat64OrNull / ParseFloat *)
  Variable json_get : string -> list string -> string.      (* C07's oracle: what a json parameter extracts from a line *)

  (* the in-process oracles, expressed through C07's: regexp with (pattern, subject), the same number parser *)
  Definition re9 (p s : string) : bool := re7 s p.

  Definition tr_lfop (o : lfop) : IE.lf_op :=
    match o with LFContains => IE.LfContains | LFNotContains => IE.LfNotContains | LFRe => IE.LfRe | LFNre => IE.LfNotRe end.
  Definition tr_cmp (o : lop) : option IE.cmp :=
    match o with
    | OEq => Some IE.CEq | ONeq => Some IE.CNe | OGt => Some IE.CGt | OGe => Some IE.CGe | OLt => Some IE.CLt | OLe => Some IE.CLe
    | _ => None
    end.
  Definition tr_simple (s : simple_lf) : IE.simple_filter Q :=
    if lblop_numeric s then
      match slf_num s, num_cmp (slf_fn s) with
      | Some (txt, _), Some op =>
        match pf txt, tr_cmp op with
        | Some n, Some c => IE.SfNum Q c (slf_label s) n
        | _, _ => IE.SfIll Q
        end
      | _, _ => IE.SfIll Q
      end
    else
      match slf_str s with
      | Some w =>
        match slf_fn s with
        | LEq => IE.SfStr Q IE.SoEq (slf_label s) w
        | LNeq => IE.SfStr Q IE.SoNe (slf_label s) w
        | LRe => IE.SfStr Q IE.SoRe (slf_label s) w
        | LNre => IE.SfStr Q IE.SoNre (slf_label s) w
        | _ => IE.SfIll Q
        end
      | None => IE.SfIll Q
      end.
  Fixpoint tr_lf (f : label_filter) : IE.lfilter Q :=
    match f with
    | LF head op tail =>
      let h := match head with
               | HSimple s => IE.HSimple Q (tr_simple s)
               | HComplex g => IE.HComplex Q (tr_lf g)
               end in
      match tail with
      | None => IE.LF Q h None
      | Some t =>
        match op with
        | Some b => IE.LF Q h (Some (b, tr_lf t))
        | None => IE.LF Q (IE.HSimple Q (IE.SfIll Q)) None          (* a tail without an operator holds for nothing *)
        end
      end
    end.

  Definition drop_names (ps : list (string * option string)) : list string := map fst ps.
  Definition drop_vals (ps : list (string * option string)) : list string :=
    map (fun p => match snd p with Some v => v | None => EmptyString end) ps.

  (* stage number i of the chain (the parser stages are identified by their position, as in the correspondence) *)
  Definition tr_stage (i : N) (s : Logql.stage) : option (IE.stage Q) :=
    match s with
    | Logql.PLineFilter op v _ => Some (IE.SLineFilter Q (tr_lfop op) v)
    | Logql.PLabelFilter f => Some (IE.SLabelFilter Q (tr_lf f))
    | Logql.PParser Logql.PJson _ => Some (IE.SParser Q i)
    | Logql.PDrop ps => Some (IE.SDrop Q (drop_names ps) (drop_vals ps))
    | _ => None
    end.
  Fixpoint tr_chain (i : N) (ppl : list Logql.stage) : list (IE.stage Q) :=
    match ppl with
    | [] => []
    | s :: r => match tr_stage i s with Some s' => s' :: tr_chain (i + 1) r | None => tr_chain (i + 1) r end
    end.

  (* the link between the two json decoders: stage number i of the in-process chain assigns to every parameter label what
     the ClickHouse extraction of C07's reference writes for it -- the extracted text where it is not "" and NOTHING where
     the line holds nothing under the path (missing path, line that is not JSON) or an empty string: since the repairs
     json-missing-path-overwrites (SQL: mapFilter((k,v) -> v != '', ...)) and json-empty-value-overwrites (in-process
     walker) both engines leave such a label alone.  What remains a hypothesis is that ClickHouse's JSON functions
     (json_get) and the in-process decoder read the same text under a path.                                          *)
  Variable parse9 : N -> string -> option IE.lbls.
  Fixpoint decoders_linked (i : N) (ppl : list Logql.stage) : Prop :=
    match ppl with
    | [] => True
    | s :: r =>
      match s with
      | Logql.PParser Logql.PJson ps =>
        match all_paths ps with
        | Some paths => forall line, parse9 i line = Some (filter nonempty_kv (combine (map pp_label ps) (map (json_get line) paths)))
        | None => True
        end
      | _ => True
      end /\ decoders_linked (i + 1) r
    end.

  (* the common fragment: C07's in_fragment2 stages *)
  Definition common_stage (s : Logql.stage) : bool := is_filter s || is_json s || is_drop s.

  (* the two representations of a label map: C07's association list in any order without duplicate names, the in-process
     one sorted by name; "the same map" = the same pairs *)
  Fixpoint ssorted (m : IE.lbls) : Prop :=
    match m with
    | [] => True
    | kv :: r => (forall k', List.In k' (map fst r) -> String.compare (fst kv) k' = Datatypes.Lt) /\ ssorted r
    end.
  Definition same_map (ls : labels) (m : IE.lbls) : Prop :=
    NoDup (map fst ls) /\ ssorted m /\ forall a b, List.In (a, b) ls <-> List.In (a, b) m.

  (* what C07's reference defines for one line: None = filtered out *)
  Definition sql_line (ppl : list Logql.stage) (hash_labels : labels -> Z) (ls : labels) (fp : Z) (line : string) : option labels :=
    match run_stages re7 pf json_get hash_labels ppl line {| p_labels := ls; p_fp := fp |} with
    | Some st => Some (p_labels st)
    | None => None
    end.

  (* a data row of the in-process side and the sample of the SQL side it stands for: same timestamp, same line, the same
     label map; what each reference defines for it: (timestamp, label map, line) *)
  Definition row_matches (e : IE.entry Q) (x : Z * labels * Z * string) : Prop :=
    let '(ts, ls, fp, line) := x in
    IE.e_err Q e = IE.ENone /\ IE.e_ts Q e = ts /\ IE.e_msg Q e = line /\ exists m, IE.e_lbl Q e = Some m /\ same_map ls m.
  Definition out_matches (e : IE.entry Q) (o : Z * labels * string) : Prop :=
    let '(ts, ls, line) := o in IE.e_ts Q e = ts /\ IE.e_msg Q e = line /\ same_map ls (IE.lbl_of Q e).
  Definition sql_rows (hash_labels : labels -> Z) (ppl : list Logql.stage) (xs : list (Z * labels * Z * string)) : list (Z * labels * string) :=
    flat_map (fun x => let '(ts, ls, fp, line) := x in
                       match sql_line ppl hash_labels ls fp line with
                       | Some ls' => [(ts, ls', line)]
                       | None => []
                       end) xs.
End BRIDGE.
