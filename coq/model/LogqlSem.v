(* C07 - the reference meaning of a LogQL log query over stored data, the typed database it is
   stated over, and the embedding of that database into the generic tables of SqlEval.v.

   A sample (log line) is returned iff
     - from <= timestamp < to and its type is the queried one or "both" (0),
     - the label map of its series satisfies every selector matcher, an absent label reading as ""
       (the Loki / Prometheus definition),
     - its text passes every line filter (|= != : substring; |~ !~ : RE2 match, the same oracle
       the SQL side uses for match()),
     - the labels pass every label filter (string comparisons on the label value, "" when absent;
       numeric comparisons hold only when the value parses as a number).
   A returned row carries the fingerprint and label map of its series. With a limit L the answer is
   SOME top-L set in the query direction (ties are not ordered).  Executable definitions and
   statements only. *)
From Coq Require Import List ZArith NArith QArith String Ascii Bool Permutation.
From Coq Require Sorted.
From Qryn Require Import lib.Strs model.Sql model.Logql model.LogqlRegexp model.LogqlPlan model.SqlEval.
From Qryn Require model.LogqlTemplate.
Import ListNotations.
Open Scope string_scope.

(* ---------- the stored data ---------- *)
Definition labels := list (string * string).
(* time_series(date, fingerprint, labels, type): labels is the JSON document {"k":"v",...}, held as its pairs *)
Record series_row := { ts_day : Z; ts_fp : Z; ts_labels : labels; ts_type : Z }.
(* time_series_gin(date, key, val, fingerprint, type): one row per label pair of a time_series row *)
Record gin_row := { g_day : Z; g_key : string; g_val : string; g_fp : Z; g_type : Z }.
(* samples_v3(fingerprint, timestamp_ns, string, type); the value column is never read by a log plan *)
Record sample := { x_fp : Z; x_ts : Z; x_line : string; x_type : Z }.
Record database := { d_gin : list gin_row; d_series : list series_row; d_samples : list sample }.

Definition gin_of (s : series_row) (kv : string * string) : gin_row :=
  {| g_day := ts_day s; g_key := fst kv; g_val := snd kv; g_fp := ts_fp s; g_type := ts_type s |}.

(* the type the planners ask for: GetTypes turns "both" into "logs" *)
Definition qtype (c : pctx) : Z := if Z.eqb (c_type c) 0 then 1%Z else c_type c.
Definition type_in (c : pctx) (t : Z) : bool := Z.eqb t (qtype c) || Z.eqb t 0.

(* what the writer maintains (C04) and the reader relies on *)
Definition db_ok (c : pctx) (d : database) : Prop :=
  (* the label index is the expansion of the series table *)
  (forall g, List.In g (d_gin d) <-> exists s kv, List.In s (d_series d) /\ List.In kv (ts_labels s) /\ g = gin_of s kv)
  (* one label map per fingerprint, label names distinct in it *)
  /\ (forall s1 s2, List.In s1 (d_series d) -> List.In s2 (d_series d) -> ts_fp s1 = ts_fp s2 -> ts_labels s1 = ts_labels s2)
  /\ (forall s, List.In s (d_series d) -> NoDup (map fst (ts_labels s)))
  (* every sample's series was (re)written, with the sample's type, on a day the reader still looks at *)
  /\ (forall x, List.In x (d_samples d) ->
        exists s, List.In s (d_series d) /\ ts_fp s = x_fp x /\ ts_type s = x_type x /\ (from_day (c_from_ns c) <= ts_day s)%Z).

(* ---------- embedding into SqlEval's tables ---------- *)
Definition sample_cols (x : sample) : row :=
  [("fingerprint", VInt (x_fp x)); ("timestamp_ns", VInt (x_ts x)); ("string", VStr (x_line x)); ("type", VInt (x_type x))].
Definition gin_cols (g : gin_row) : row :=
  [("date", VInt (g_day g)); ("key", VStr (g_key g)); ("val", VStr (g_val g)); ("fingerprint", VInt (g_fp g)); ("type", VInt (g_type g))].
Definition series_cols (s : series_row) : row :=
  [("date", VInt (ts_day s)); ("fingerprint", VInt (ts_fp s)); ("labels", VMap (ts_labels s)); ("type", VInt (ts_type s))].
Definition to_sqldb (c : pctx) (d : database) : SqlEval.database :=
  fun name =>
    if String.eqb name (t_samples c) then Some (map sample_cols (d_samples d))
    else if String.eqb name (t_gin c) then Some (map gin_cols (d_gin d))
    else if String.eqb name (t_ts c) || String.eqb name (t_ts_dist c) then Some (map series_cols (d_series d))
    else None.
(* table names must tell the three tables apart; queries of the reader set CHFinalize; LIMIT is not negative *)
Definition ctx_ok (c : pctx) : bool :=
  negb (String.eqb (t_gin c) (t_samples c)) && negb (String.eqb (t_ts c) (t_samples c))
  && negb (String.eqb (t_ts c) (t_gin c)) && negb (String.eqb (t_ts_dist c) (t_samples c))
  && negb (String.eqb (t_ts_dist c) (t_gin c)) && c_finalize c && Z.leb 0 (c_limit c).

(* ---------- result rows ---------- *)
Record outrow := { o_fp : Z; o_labels : labels; o_line : string; o_ts : Z }.
Definition row_out (r : row) : option outrow :=
  match lookup "fingerprint" r, lookup "labels" r, lookup "string" r, lookup "timestamp_ns" r with
  | Some (VInt fp), Some (VMap ls), Some (VStr s), Some (VInt ts) =>
    Some {| o_fp := fp; o_labels := ls; o_line := s; o_ts := ts |}
  | _, _, _, _ => None
  end.

(* "res is a top-k answer out of all": a sub-multiset of min(k, |all|) rows, none of the omitted rows
   strictly before (in the query direction) a returned one *)
Definition topk (asc : bool) (k : Z) (all res : list outrow) : Prop :=
  exists rest, Permutation all (res ++ rest)
    /\ Z.of_nat (List.length res) = Z.min k (Z.of_nat (List.length all))
    /\ forall r o, List.In r res -> List.In o rest -> if asc then (o_ts r <= o_ts o)%Z else (o_ts o <= o_ts r)%Z.

(* ---------- the `| regexp "..."` stage: what the text of the expression says (spec side of model/LogqlRegexp.v) ----------
   capture group i is the i-th opening parenthesis of the expression; it is named by the `?P<name>` written in it ("" for
   a plain group); the expression whose groups are extracted is the text with every `(?P<name>` replaced by `(`. *)
Definition re_source (ps : list parser_param) : string := match ps with p0 :: _ => pp_val p0 | [] => "" end.
Definition re_toks (ps : list parser_param) : list rtok := match lex_re (re_source ps) with Some ts => ts | None => [] end.
Definition re_sent (ps : list parser_param) : string := tok_sent (re_toks ps).
Definition re_names (ps : list parser_param) : list string := tok_names (re_toks ps).

Section SEM.
  Context {RG : ReGroups}.
  Variable re_match : string -> string -> bool.
  Variable parse_float : string -> option Q.

  Definition matcher_val_ok (m : matcher) (v : string) : bool :=
    match m_op m with
    | MEq => String.eqb v (m_val m)
    | MNeq => negb (String.eqb v (m_val m))
    | MRe => re_match v (m_val m)
    | MNre => negb (re_match v (m_val m))
    end.
  Definition matcher_ok (ls : labels) (m : matcher) : bool := matcher_val_ok m (label_of ls (m_name m)).

  Definition line_ok (line : string) (op : lfop) (val : string) : bool :=
    match op with
    | LFContains => contains val line
    | LFNotContains => negb (contains val line)
    | LFRe => re_match line val
    | LFNre => negb (re_match line val)
    end.

  Definition num_cmp (fn : lblop) : option lop :=
    match fn with
    | LDeq => Some OEq | LNeq => Some ONeq | LGt => Some OGt | LGe => Some OGe | LLt => Some OLt | LLe => Some OLe
    | _ => None
    end.
  Definition simple_ok (ls : labels) (s : simple_lf) : bool :=
    let v := label_of ls (slf_label s) in
    if lblop_numeric s then
      match slf_num s, num_cmp (slf_fn s) with
      | Some (txt, _), Some op =>
        match parse_float v, parse_float txt with
        | Some x, Some n => match cmp_holds op (Qcompare x n) with Some b => b | None => false end
        | _, _ => false
        end
      | _, _ => false
      end
    else
      match slf_str s with
      | Some w =>
        match slf_fn s with
        | LEq => String.eqb v w
        | LNeq => negb (String.eqb v w)
        | LRe => re_match v w
        | LNre => negb (re_match v w)
        | _ => false
        end
      | None => false
      end.
  Fixpoint lf_ok (ls : labels) (f : label_filter) : bool :=
    match f with
    | LF head op tail =>
      let l := match head with HSimple s => simple_ok ls s | HComplex f' => lf_ok ls f' end in
      match tail with
      | None => l
      | Some t => match op with
                  | Some true => l && lf_ok ls t
                  | Some false => l || lf_ok ls t
                  | None => false
                  end
      end
    end.

  Definition stage_ok (ls : labels) (line : string) (s : stage) : bool :=
    match s with
    | PLineFilter op val _ => line_ok line op val
    | PLabelFilter f => lf_ok ls f
    | _ => true
    end.

  (* the label map of a fingerprint: that of its (first) series row *)
  Definition series_labels (d : database) (fp : Z) : labels :=
    match find (fun s => Z.eqb (ts_fp s) fp) (d_series d) with Some s => ts_labels s | None => [] end.

  Definition in_window (c : pctx) (x : sample) : bool :=
    Z.leb (c_from_ns c) (x_ts x) && Z.ltb (x_ts x) (c_to_ns c).
  Definition sample_ok (q : strsel) (c : pctx) (d : database) (x : sample) : bool :=
    let ls := series_labels d (x_fp x) in
    in_window c x && type_in c (x_type x)
    && forallb (matcher_ok ls) (sel_matchers q)
    && forallb (stage_ok ls (x_line x)) (sel_pipeline q).
  Definition out_of (d : database) (x : sample) : outrow :=
    {| o_fp := x_fp x; o_labels := series_labels d (x_fp x); o_line := x_line x; o_ts := x_ts x |}.
  (* every matching line (no limit) *)
  Definition log_rows (q : strsel) (c : pctx) (d : database) : list outrow :=
    map (out_of d) (filter (sample_ok q c d) (d_samples d)).
  Definition logql_sem (q : strsel) (c : pctx) (d : database) (res : list outrow) : Prop :=
    if Z.eqb (c_limit c) 0 then Permutation res (log_rows q c d)
    else topk (c_asc c) (c_limit c) (log_rows q c d) res.

  (* ---------- the modelled fragment of the grammar ---------- *)
  Definition simple_supported (s : simple_lf) : bool :=
    if lblop_numeric s then
      match slf_num s with
      | Some (txt, _) => negb (String.eqb txt "")
      | None => false
      end
    else match slf_str s, slf_fn s with
         | Some _, (LEq | LNeq | LRe | LNre) => true
         | _, _ => false
         end.
  Fixpoint lf_supported (f : label_filter) : bool :=
    match f with
    | LF head op tail =>
      (match head with HSimple s => simple_supported s | HComplex f' => lf_supported f' end)
      && match tail with
         | None => true
         | Some t => lf_supported t && match op with Some _ => true | None => false end
         end
    end.
  Definition stage_supported (s : stage) : bool :=
    match s with
    | PLineFilter _ _ _ => true
    | PLabelFilter f => lf_supported f
    | _ => false
    end.
  (* at least one matcher; a pipeline of line filters and label filters (no parser, so every label
     filter is a "simple" one, evaluated on the series table) *)
  Definition in_fragment (q : strsel) : bool :=
    negb (Nat.eqb (List.length (sel_matchers q)) 0) && forallb stage_supported (sel_pipeline q).

  (* the oracle values carried by the query agree with the oracles:
     re2Like's (literal, fold-case) answer describes the regex; a numeric literal and the text sql.FloatVal prints for it
     (shortest exact decimal since fix 57651aa; it was the six-decimal %f rendering before)
     denote the same number *)
  Definition simple_oracle_ok (s : simple_lf) : Prop :=
    lblop_numeric s = true ->
    match slf_num s with
    | Some (txt, f) => parse_float f = parse_float txt /\ parse_float txt <> None
    | None => True
    end.
  Fixpoint lf_oracle_ok (f : label_filter) : Prop :=
    match f with
    | LF head _ tail =>
      (match head with HSimple s => simple_oracle_ok s | HComplex f' => lf_oracle_ok f' end)
      /\ match tail with None => True | Some t => lf_oracle_ok t end
    end.
  Definition stage_oracle_ok (s : stage) : Prop :=
    match s with
    | PLineFilter op val (Some (lit, insens)) =>
      match op with
      | LFRe | LFNre => forall line, re_match line val = if insens then contains (to_lower lit) (to_lower line) else contains lit line
      | _ => True
      end
    | PLabelFilter f => lf_oracle_ok f
    (* the expression sent for a regexp stage is an RE2 expression with as many capture groups as the text of the stage
       opens (not so for `(?:`, `(?i)`, a parenthesis inside a character class: arrayFilter over arrays of different sizes) *)
    | PParser PRegexp ps =>
      forall line, exists vs, re_groups (re_sent ps) line = Some vs /\ List.length vs = List.length (re_names ps)
    | _ => True
    end.
  Definition oracle_ok (q : strsel) : Prop := forall s, List.In s (sel_pipeline q) -> stage_oracle_ok s.

  (* defect #16 / the UInt8 bitmask: where the plan is NOT the reference meaning.
     (1) a matcher that accepts the empty string (a != "x", a !~ "x", a =~ ".*", a = "") selects, by
         definition, series that lack the label; the label index has no row for them;
     (2) the matcher bitmask is a UInt64 since fix 052673d (it was the UInt8 of the condition: nine matchers
         selected nothing); Go prints its comparison constant (1 << n) - 1 from an int, so n stays below 64. *)
  Definition absent_guard (q : strsel) (d : database) : Prop :=
    forall m, List.In m (sel_matchers q) -> matcher_val_ok m "" = true ->
      forall s, List.In s (d_series d) -> List.In (m_name m) (map fst (ts_labels s)).
  Definition width_guard (q : strsel) : bool := Nat.leb (List.length (sel_matchers q)) 63.
End SEM.

(* Plan(script, true).Process(ctx): the SELECT the reader sends *)
Definition log_select (q : strsel) (c : pctx) : option select :=
  match plan_log q true with
  | Some p => match process p c pst0 with Some (s, _, _) => Some s | None => None end
  | None => None
  end.

(* ================= the whole SQL-planned pipeline: json parameters, drop, filters in any order =================
   A line travels through the stages with a state: its current label map and its current stream
   fingerprint. `| json l="path", ...` writes the extracted values over the label map (an extraction that
   finds nothing writes "", as mapUpdate does) and re-fingerprints the line with the hash of the new map;
   `| drop` removes labels and re-fingerprints the line likewise; filters read the CURRENT map / the line text. *)
Definition drop_spec (p : string * option string) : string * option string :=
  (fst p, match snd p with Some v => if String.eqb v "" then None else Some v | None => None end).

Section SEM2.
  Context {RG : ReGroups}.
  Variable re_match : string -> string -> bool.
  Variable parse_float : string -> option Q.
  Variable json_get : string -> list string -> string.      (* the value a json parameter extracts from a line *)
  Variable hash_labels : labels -> Z.                       (* the fingerprint of a re-labelled line *)

  Record pstate := { p_labels : labels; p_fp : Z }.
  Definition json_stage (params : list parser_param) (line : string) (st : pstate) : option pstate :=
    match all_paths params with
    | Some paths =>
      (* an extraction that yields '' (missing path, line that is not JSON) writes no label: the label it would overwrite is kept
         (since the repair of json-missing-path-overwrites; before it every parameter label was written, '' included) *)
      let ls := map_update (p_labels st) (filter nonempty_kv (combine (map pp_label params) (map (json_get line) paths))) in
      Some {| p_labels := ls; p_fp := hash_labels ls |}
    | None => None
    end.
  (* since the repair of drop-keeps-fingerprint (/repo: PlannerDrop patches the fingerprint column like ParserPlanner) a drop
     re-fingerprints the line with the hash of the remaining labels *)
  Definition drop_stage (ps : list (string * option string)) (st : pstate) : pstate :=
    let ls := filter (drop_keeps (map drop_spec ps)) (p_labels st) in
    {| p_labels := ls; p_fp := hash_labels ls |}.
  (* `| regexp "re"`: the non-empty texts the NAMED capture groups took in the first match of the expression in the line
     are written over the label map, and the line is re-fingerprinted like a json-parsed line; a line the expression
     does not match keeps its labels. (The oracle is asked first: under the default instance no_groups the stage is
     None whatever its parameters.) *)
  Definition regexp_stage (ps : list parser_param) (line : string) (st : pstate) : option pstate :=
    match re_groups (re_sent ps) line with
    | Some vs =>
      if Nat.eqb (List.length vs) (List.length (re_names ps)) then
        let ls := map_update (p_labels st) (re_pairs (re_names ps) vs) in
        Some {| p_labels := ls; p_fp := hash_labels ls |}
      else None
    | None => None
    end.
  (* None = the line is filtered out (or the stage is outside the modelled pipeline) *)
  Fixpoint run_stages (ppl : list stage) (line : string) (st : pstate) : option pstate :=
    match ppl with
    | [] => Some st
    | PLineFilter op v _ :: r => if line_ok re_match line op v then run_stages r line st else None
    | PLabelFilter f :: r => if lf_ok re_match parse_float (p_labels st) f then run_stages r line st else None
    | PParser PJson ps :: r => match json_stage ps line st with Some st' => run_stages r line st' | None => None end
    | PParser PRegexp ps :: r => match regexp_stage ps line st with Some st' => run_stages r line st' | None => None end
    | PDrop ps :: r => run_stages r line (drop_stage ps st)
    | _ :: _ => None
    end.
  Definition sample_out (q : strsel) (c : pctx) (d : database) (x : sample) : option outrow :=
    let ls := series_labels d (x_fp x) in
    if in_window c x && type_in c (x_type x) && forallb (matcher_ok re_match ls) (sel_matchers q) then
      match run_stages (sel_pipeline q) (x_line x) {| p_labels := ls; p_fp := x_fp x |} with
      | Some st => Some {| o_fp := p_fp st; o_labels := p_labels st; o_line := x_line x; o_ts := x_ts x |}
      | None => None
      end
    else None.
  Definition log_rows2 (q : strsel) (c : pctx) (d : database) : list outrow :=
    flat_map (fun x => match sample_out q c d x with Some o => [o] | None => [] end) (d_samples d).
  Definition logql_sem2 (q : strsel) (c : pctx) (d : database) (res : list outrow) : Prop :=
    if Z.eqb (c_limit c) 0 then Permutation res (log_rows2 q c d)
    else topk (c_asc c) (c_limit c) (log_rows2 q c d) res.

  (* the fragment with relabelling stages: line filters, label filters, json stages with parameters (every path splits,
     labels of one stage distinct), regexp stages and drops IN ANY ORDER (since fix 1c90aa9 a filter shares a select only with
     relabelling stages written before it), at least one json or drop. *)
  Definition json_ok (ps : list parser_param) : bool :=
    match all_paths ps with Some _ => true | None => false end
    && negb (Nat.eqb (List.length ps) 0)
    && (fix nodup (l : list string) : bool :=
          match l with [] => true | x :: r => negb (existsb (String.eqb x) r) && nodup r end) (map pp_label ps).
  Definition is_filter (s : stage) : bool :=
    match s with PLineFilter _ _ _ => true | PLabelFilter f => lf_supported f | _ => false end.
  Definition is_json (s : stage) : bool := match s with PParser PJson ps => json_ok ps | _ => false end.
  Definition is_drop (s : stage) : bool := match s with PDrop _ => true | _ => false end.
  (* a regexp stage: the planner's grammar accepts the expression, the names of its named groups are distinct *)
  Definition regexp_ok (ps : list parser_param) : bool :=
    negb (Nat.eqb (List.length ps) 0)
    && match re_plan (re_source ps) with
       | Some (_, names) =>
         (fix nodup (l : list string) : bool :=
            match l with [] => true | x :: r => negb (existsb (String.eqb x) r) && nodup r end)
           (filter (fun n => negb (String.eqb n "")) names)
       | None => false
       end.
  Definition is_regexp (s : stage) : bool := match s with PParser PRegexp ps => regexp_ok ps | _ => false end.
  Fixpoint take_while {A} (p : A -> bool) (l : list A) : list A :=
    match l with x :: r => if p x then x :: take_while p r else [] | [] => [] end.
  Fixpoint drop_while {A} (p : A -> bool) (l : list A) : list A :=
    match l with x :: r => if p x then drop_while p r else l | [] => [] end.
  Definition in_fragment2 (q : strsel) : bool :=
    negb (Nat.eqb (List.length (sel_matchers q)) 0)
    && forallb (fun s => is_filter s || is_json s || is_drop s || is_regexp s) (sel_pipeline q)
    && existsb (fun s => is_json s || is_drop s || is_regexp s) (sel_pipeline q).

  (* ---------- `| line_format "tmpl"`: the LINE travels through the stages too ----------
     The stage replaces the line by the output of the template executed over the CURRENT labels (Go text/template over the
     label map: model/LogqlTemplate.v tpl_parse / tpl_exec - text is copied, {{.name}} prints the label, "" when absent); the
     labels and the fingerprint stay. Every later stage reads the new line (line filters, json / regexp extraction) and the
     query returns it. Templates whose execution has no plain reference value (field chains, the dot, pipes: tpl_exec = None,
     or outside the transcribed part of the template language) are outside. run_stages / log_rows2 above keep their meaning:
     they know no line_format (None); on a pipeline without one the two references coincide (log_rows3_no_lfmt). *)
  Definition line_format_stage (tmpl : string) (st : pstate) : option string :=
    match LogqlTemplate.tpl_parse tmpl with
    | LogqlTemplate.TOk ns => LogqlTemplate.tpl_exec ns (p_labels st)
    | _ => None
    end.
  Fixpoint run_lstages (ppl : list stage) (line : string) (st : pstate) : option (string * pstate) :=
    match ppl with
    | [] => Some (line, st)
    | PLineFilter op v _ :: r => if line_ok re_match line op v then run_lstages r line st else None
    | PLabelFilter f :: r => if lf_ok re_match parse_float (p_labels st) f then run_lstages r line st else None
    | PParser PJson ps :: r => match json_stage ps line st with Some st' => run_lstages r line st' | None => None end
    | PParser PRegexp ps :: r => match regexp_stage ps line st with Some st' => run_lstages r line st' | None => None end
    | PDrop ps :: r => run_lstages r line (drop_stage ps st)
    | PLineFormat t :: r => match line_format_stage t st with Some line' => run_lstages r line' st | None => None end
    | _ :: _ => None
    end.
  Definition sample_out3 (q : strsel) (c : pctx) (d : database) (x : sample) : option outrow :=
    let ls := series_labels d (x_fp x) in
    if in_window c x && type_in c (x_type x) && forallb (matcher_ok re_match ls) (sel_matchers q) then
      match run_lstages (sel_pipeline q) (x_line x) {| p_labels := ls; p_fp := x_fp x |} with
      | Some (line, st) => Some {| o_fp := p_fp st; o_labels := p_labels st; o_line := line; o_ts := x_ts x |}
      | None => None
      end
    else None.
  Definition log_rows3 (q : strsel) (c : pctx) (d : database) : list outrow :=
    flat_map (fun x => match sample_out3 q c d x with Some o => [o] | None => [] end) (d_samples d).
  Definition logql_sem3 (q : strsel) (c : pctx) (d : database) (res : list outrow) : Prop :=
    if Z.eqb (c_limit c) 0 then Permutation res (log_rows3 q c d)
    else topk (c_asc c) (c_limit c) (log_rows3 q c d) res.

  (* a line_format stage of the fragment: the template parses inside the transcribed part of text/template and every action
     is one plain field {{.name}} (where executing the template has a reference value) *)
  Definition tpl_plain (t : string) : bool :=
    match LogqlTemplate.tpl_parse t with
    | LogqlTemplate.TOk ns =>
      forallb (fun n => match n with
                        | LogqlTemplate.TText _ => true
                        | LogqlTemplate.TAct [[LogqlTemplate.OF _ []]] => true
                        | _ => false end) ns
    | _ => false
    end.
  Definition is_lfmt (s : stage) : bool := match s with PLineFormat t => tpl_plain t | _ => false end.
  (* no label filter stands between a line_format that is the first stage to need the labels and the first parser / drop:
     the planners push such a filter down to the series table like the filters in front of the line_format (harmless - the
     labels are not changed by line_format - but outside the proof) *)
  Fixpoint lfmt_simple_ok (ppl : list stage) : bool :=
    match ppl with
    | [] => true
    | s :: r =>
      if is_relabel s then true
      else match s with
           | PLineFormat _ => negb (existsb is_label_filter (take_while (fun s' => negb (is_relabel s')) r))
           | _ => lfmt_simple_ok r
           end
    end.
  (* fragment 3: the stages of fragment 2 and line_format stages, in any order, at least one line_format *)
  Definition in_fragment3 (q : strsel) : bool :=
    negb (Nat.eqb (List.length (sel_matchers q)) 0)
    && forallb (fun s => is_filter s || is_json s || is_drop s || is_regexp s || is_lfmt s) (sel_pipeline q)
    && existsb is_lfmt (sel_pipeline q)
    && lfmt_simple_ok (sel_pipeline q).
End SEM2.

(* "the SQL of q, executed over d, is the reference answer": the planners produce a SELECT, it evaluates
   (inside the modelled ClickHouse subset) to rows that read back as the lines logql_sem defines *)
Definition log_correct {RG : ReGroups} (re_match : string -> string -> bool) (parse_float : string -> option Q)
    (json_get : string -> list string -> string) (hash_labels : labels -> Z)
    (tie : forall A : Type, list A -> list A) (q : strsel) (c : pctx) (d : database) : Prop :=
  exists sel rows outs,
    log_select q c = Some sel
    /\ eval re_match parse_float json_get hash_labels tie (to_sqldb c d) sel = Some rows
    /\ map row_out rows = map Some outs
    /\ logql_sem re_match parse_float q c d outs.
Definition log_correct2 {RG : ReGroups} (re_match : string -> string -> bool) (parse_float : string -> option Q)
    (json_get : string -> list string -> string) (hash_labels : labels -> Z)
    (tie : forall A : Type, list A -> list A) (q : strsel) (c : pctx) (d : database) : Prop :=
  exists sel rows outs,
    log_select q c = Some sel
    /\ eval re_match parse_float json_get hash_labels tie (to_sqldb c d) sel = Some rows
    /\ map row_out rows = map Some outs
    /\ logql_sem2 re_match parse_float json_get hash_labels q c d outs.

Definition log_correct3 {RG : ReGroups} (re_match : string -> string -> bool) (parse_float : string -> option Q)
    (json_get : string -> list string -> string) (hash_labels : labels -> Z)
    (tie : forall A : Type, list A -> list A) (q : strsel) (c : pctx) (d : database) : Prop :=
  exists sel rows outs,
    log_select q c = Some sel
    /\ eval re_match parse_float json_get hash_labels tie (to_sqldb c d) sel = Some rows
    /\ map row_out rows = map Some outs
    /\ logql_sem3 re_match parse_float json_get hash_labels q c d outs.

(* Plan(script, false).Process(ctx): the SELECT whose rows feed the in-process engine when the pipeline has a stage that is
   not planned in SQL (logql_transpiler_v2.Plan breaks the script in front of it and plans the prefix without LIMIT; the
   limit is applied by the in-process LimitPlanner). Its rows are ALL the lines the prefix lets through, in timestamp order. *)
Definition bp_select (q : strsel) (c : pctx) : option select :=
  match plan_log q false with
  | Some p => match process p c pst0 with Some (s, _, _) => Some s | None => None end
  | None => None
  end.
Definition ts_sorted (asc : bool) (l : list outrow) : Prop :=
  Sorted.StronglySorted (fun a b => if asc then (o_ts a <= o_ts b)%Z else (o_ts b <= o_ts a)%Z) l.
Definition bp_correct2 {RG : ReGroups} (re_match : string -> string -> bool) (parse_float : string -> option Q)
    (json_get : string -> list string -> string) (hash_labels : labels -> Z)
    (tie : forall A : Type, list A -> list A) (q : strsel) (c : pctx) (d : database) : Prop :=
  exists sel rows outs,
    bp_select q c = Some sel
    /\ eval re_match parse_float json_get hash_labels tie (to_sqldb c d) sel = Some rows
    /\ map row_out rows = map Some outs
    /\ Permutation outs (log_rows2 re_match parse_float json_get hash_labels q c d)
    /\ ts_sorted (c_asc c) outs.

(* C07 at full strength over the modelled fragment (false: see absent_guard) *)
Definition log_sound_complete_stmt : Prop :=
  forall (RG : ReGroups) re_match parse_float json_get hash_labels (tie : forall A : Type, list A -> list A),
    (forall A (l : list A), Permutation (tie A l) l) ->
    forall q c d, in_fragment q = true -> oracle_ok re_match parse_float q -> ctx_ok c = true -> db_ok c d ->
    log_correct re_match parse_float json_get hash_labels tie q c d.
