(* C02, "no row duplicated inside a block": the global freshness hypothesis on submitted row ids, as a condition
   that is checked along a run.  Executable definitions only (theorems: proofs/IngestPromises.v, props/C02.v).

   Every row id has an owner (own : N -> okey): the direct request (promise PEnv n) or the sub-push (handler h,
   position i among the sub-requests of h's chunks) that submitted it.  A run is fresh when
   - every direct Request call uses a promise of its own (promise.New() per call) and its request holds only row ids
     it owns, each once;
   - every sub-request the parser of an arriving push will emit holds only row ids owned by (that push, its position),
     each once.
   Row ids of different submissions are then disjoint; the retry of a sub-push re-submits the SAME rows, which is why
   freshness alone does not give distinctness inside a block: the promise life cycle does. *)
From Coq Require Import List NArith ZArith Bool.
From Qryn Require Import model.Ingest model.PushHandler model.IngestSpec.
Import ListNotations.

(* the promises a worker holds: those of the open batch and those of the portion that is out *)
Definition pend (sv : svc) : list (pid * req) :=
  results sv ++ match inflight sv with Some po => p_res po | None => [] end.

Inductive okey := KEnv (n : N) | KSub (h i : nat).
Definition okey_eqb (a b : okey) : bool :=
  match a, b with
  | KEnv n, KEnv m => N.eqb n m
  | KSub h i, KSub h' i' => Nat.eqb h h' && Nat.eqb i i'
  | _, _ => false
  end.
Definition key_of (p : pid) : okey := match p with PEnv n => KEnv n | PSub h i _ => KSub h i end.

Section Own.
Variable own : N -> okey.

Definition req_owned (k : okey) (r : req) : bool :=
  forallb (fun rid => okey_eqb (own rid) k) (rids_of r) && nodupb N.eqb (rids_of r).
(* the sub-requests of the chunks of one push get consecutive positions (doParse appends five promises per chunk;
   the model keeps the non-nil ones) *)
Fixpoint chunk_owned (h i : nat) (c : list (nat * kind * req * Z)) : bool :=
  match c with
  | [] => true
  | x :: t => req_owned (KSub h i) (snd (fst x)) && chunk_owned h (S i) t
  end.
Fixpoint items_owned (h i : nat) (items : list item) : bool :=
  match items with
  | [] => true
  | IChunk c :: t => chunk_owned h i c && items_owned h (i + length c) t
  | IError :: _ => true                         (* doParse returns: the rest of the channel is dropped *)
  end.

(* promise PEnv n is new: held by no worker, not completed *)
Definition env_new (g : gstate) (n : N) : bool :=
  negb (in_store (PEnv n) (store g)) &&
  forallb (fun sv => negb (existsb (fun pr => pid_eqb (fst pr) (PEnv n)) (pend sv))) (svcs g).

Definition step_fresh (g : gstate) (a : gact) : bool :=
  match a with
  | GEnvReq _ _ n r _ => env_new g n && req_owned (KEnv n) r
  | GNewHandler items => items_owned (length (hs g)) 0 items
  | _ => true
  end.
Fixpoint fresh_run (g : gstate) (tr : list gact) : bool :=
  match tr with
  | [] => true
  | a :: t => step_fresh g a && match gstep g a with Some (g', _) => fresh_run g' t | None => true end
  end.
End Own.
