(* Model of the once-per-day series announcement of the writer (property C04, histories):
   builder.go onEntries / maybeAddFp / ConfirmSeries, the shared numbercache (one process-wide set of
   (day, fingerprint, type) triples, emptied every 30 minutes), and the inserts of a log/metric push
   (time_series rows, samples rows; one pair per chunk) whose promises decide the HTTP status
   (controller/builder.go doParse: 2xx iff every insert of every chunk of the request succeeded).
   Executable definitions only; proofs in proofs/SeriesIndexProofs.v.

   What onEntries does for one stream (labels -> fp, entries):
     dates := set of UTC days of the entries' timestamps
     tps   := set of sample types present (1 log, 2 metric, 0 both)
     for d in dates: for t in tps:
        if (d, fp, t) was not emitted by THIS request already (parserDoer.announced, kept for the whole request)
           and is not in the cache (maybeAddFp = !cache.Has)
           emit the series row (d, fp, t) into the chunk being filled
     if the chunk (series rows + samples collected since the last flush) is now larger than 1 MiB:
        flush: hand the chunk to doParse NOW, start an empty chunk           [Flush]
   doParseLogs flushes the last chunk when the body ends. doParse starts the time_series insert and the samples
   insert of EVERY chunk the moment it receives it (independent outcomes), waits for all of them once the body has
   ended, and only when every insert of every chunk has succeeded calls ConfirmSeries for the rows of every chunk,
   which puts them into the cache. When the parser reports a malformed body doParse answers 400 at once: inserts of
   chunks flushed before were started and are not undone, nothing is confirmed.
   (Until the fix recorded in findings.d/C04.txt the triple was put into the cache
   while parsing, before and regardless of the outcome of the insert: a failed series insert, or a body
   that failed to parse after some streams, kept the row back from every later request until the next
   reset. Earlier still the cache was keyed by (d, fp) only.)
   Requests may overlap and may be long: [Begin] parses the streams received so far against the cache as it is at that
   moment and leaves the request in flight (its body is not complete yet), [More k] parses further streams of the k-th
   request in flight (against its own announced rows and the cache as it is THEN), [Flush k] is the k-th request in
   flight crossing 1 MiB: its current chunk is sent with the given outcomes of its two inserts, [End k] completes the
   k-th request in flight: the body ends, the last chunk is sent with the given outcomes, the status is decided,
   [Abort k] is a request whose body turned out to be malformed after the streams parsed so far (400, no further
   insert). [Push] is Begin immediately followed by its End, [PushBad] Begin followed by Abort. The model allows a
   Flush at any stream boundary (the code flushes only above 1 MiB): more behaviours, same theorems.
   A chunk without series rows makes no time_series insert and a chunk without samples no samples insert
   (InsertServiceV2.Request fulfils a request of 0 rows at once), so their scripted outcomes do not count.
   fastcache may drop entries at any time (never invents one: it compares full keys): [CacheEvict]; the theorems hold with
   evictions at arbitrary points, the correspondence does not force any.
   Not modelled: the batching of several requests'
   rows into one INSERT by the insert service (couples outcomes; the theorems quantify over all outcomes). *)
From Coq Require Import List ZArith Bool.
Import ListNotations.
Open Scope Z_scope.

Inductive stype := TBoth | TLog | TMetric.
Definition tcode (t : stype) : Z := match t with TBoth => 0 | TLog => 1 | TMetric => 2 end.
Definition stype_eqb (a b : stype) : bool := tcode a =? tcode b.

Record entry := { e_ts : Z; (* ns since the epoch, >= 0 *) e_type : stype }.
Record stream := { s_fp : Z; s_entries : list entry }.

Inductive action :=
| Push (streams : list stream) (ts_ok spl_ok : bool)   (* one HTTP push handled alone (one chunk); outcomes of its two inserts *)
| PushBad (streams : list stream)                       (* a push whose body is malformed after these streams: 400, no insert *)
| Begin (streams : list stream)                         (* a push is parsed up to here; its body stays open *)
| More (k : nat) (streams : list stream)                (* the k-th push in flight parses further streams *)
| Flush (k : nat) (ts_ok spl_ok : bool)                 (* the k-th push in flight crosses 1 MiB: its chunk is sent now, with these insert outcomes *)
| End (k : nat) (ts_ok spl_ok : bool)                   (* the k-th push in flight completes; outcomes of the inserts of its last chunk *)
| Abort (k : nat)                                       (* the k-th push in flight turns out malformed: 400, no further insert *)
| CacheReset                                            (* the 30-minute ticker fired *)
| CacheEvict (k : nat).                                 (* fastcache dropped the k-th entry (eviction under memory pressure; a lost entry only
                                                           makes the series be announced again) *)

Definition day_of (ts_ns : Z) : Z := (ts_ns / 1000000000) / 86400.

Definition row : Type := (Z * Z * Z)%type.         (* series row / cache entry: (day, fingerprint, type code) *)
Definition sample : Type := (Z * Z * Z)%type.      (* sample: (fingerprint, day of its timestamp, type code) *)

Definition row_eqb (a b : row) : bool :=
  let '(a1, a2, a3) := a in let '(b1, b2, b3) := b in (a1 =? b1) && (a2 =? b2) && (a3 =? b3).
Definition mem_row (x : row) (l : list row) : bool := existsb (row_eqb x) l.

Fixpoint nodup_z (l : list Z) : list Z :=
  match l with
  | [] => []
  | x :: r => if existsb (Z.eqb x) r then nodup_z r else x :: nodup_z r
  end.

Definition days_of (es : list entry) : list Z := nodup_z (map (fun e => day_of (e_ts e)) es).
Definition types_of (es : list entry) : list stype :=
  filter (fun t => existsb (fun e => stype_eqb (e_type e) t) es) [TBoth; TLog; TMetric].

(* one (day, type) of one stream: maybeAddFp + row emission *)
Definition announce_type (d fp : Z) (acc : list row * list row) (t : stype) : list row * list row :=
  let '(cache, rows) := acc in
  let x := (d, fp, tcode t) in
  if mem_row x cache then (cache, rows) else (x :: cache, rows ++ [x]).

Definition announce (fp : Z) (tps : list stype) (acc : list row * list row) (d : Z) : list row * list row :=
  fold_left (announce_type d fp) tps acc.

Definition on_entries (acc : list row * list row) (s : stream) : list row * list row :=
  fold_left (announce (s_fp s) (types_of (s_entries s))) (days_of (s_entries s)) acc.

(* the parser over a whole request body *)
Definition parse (cache : list row) (ss : list stream) : list row * list row :=
  fold_left on_entries ss (cache, []).

Definition samples_of (ss : list stream) : list sample :=
  flat_map (fun s => map (fun e => (s_fp s, day_of (e_ts e), tcode (e_type e))) (s_entries s)) ss.

(* a request in flight *)
Record flight := {
  f_rows : list row;           (* series rows of the chunk being filled *)
  f_spl : list sample;         (* samples of the chunk being filled *)
  f_ann : list row;            (* series rows of the chunks already sent *)
  f_done : list sample;        (* samples of the chunks already sent *)
  f_ok : bool                  (* every insert of every chunk sent so far succeeded *)
}.
Definition empty_flight : flight := {| f_rows := []; f_spl := []; f_ann := []; f_done := []; f_ok := true |}.

Record state := {
  cache : list row;            (* (day, fingerprint, type) triples confirmed since the last reset *)
  ts_rows : list row;          (* series rows successfully inserted *)
  acked : list sample;         (* samples of acknowledged (2xx) pushes *)
  pending : list flight        (* requests parsed and not yet completed, oldest first *)
}.
Definition init : state := {| cache := []; ts_rows := []; acked := []; pending := [] |}.

Definition is_nil {A} (l : list A) : bool := match l with [] => true | _ => false end.

(* what one action shows to the outside *)
Inductive obs :=
| OPush (ack : bool) (rows : list row) (nsamples : Z)    (* 2xx?, series rows and samples of the LAST chunk sent to ClickHouse *)
| OFlush (rows : list row) (nsamples : Z)                (* a chunk sent while the body is open: series rows, samples *)
| OBad                                                    (* 400, nothing sent *)
| OBegin                                                  (* nothing is sent *)
| ONone                                                   (* More / Flush / End / Abort of a request that does not exist *)
| OReset.

(* parsing further streams: the rows are decided against the rows this request announced itself (in this chunk and
   in the chunks sent before) and the cache as it is now; the cache is not written *)
Definition more_req (st : state) (f : flight) (ss : list stream) : flight :=
  {| f_rows := snd (fold_left on_entries ss (f_rows f ++ f_ann f ++ cache st, f_rows f));
     f_spl := f_spl f ++ samples_of ss;
     f_ann := f_ann f; f_done := f_done f; f_ok := f_ok f |}.
(* a new request: rows = snd (parse (cache st) ss) *)
Definition begin_req (st : state) (ss : list stream) : flight := more_req st empty_flight ss.

(* the current chunk is handed to doParse, which starts its two inserts: the request remembers what it sent and
   whether everything went well so far. An empty time-series request is fulfilled without an insert
   (processRequest returns 0 rows), so is an empty samples request. *)
Definition send_chunk (f : flight) (ts_ok spl_ok : bool) : flight :=
  {| f_rows := []; f_spl := [];
     f_ann := f_rows f ++ f_ann f;
     f_done := f_spl f ++ f_done f;
     f_ok := f_ok f && (is_nil (f_rows f) || ts_ok) && (is_nil (f_spl f) || spl_ok) |}.
Definition store_chunk (rows : list row) (f : flight) (ts_ok : bool) : list row :=
  if ts_ok then f_rows f ++ rows else rows.

(* completion: the last chunk is sent; doParse waits for every insert of every chunk; only when all of them succeeded
   the request is acknowledged and ConfirmSeries enters the rows of every chunk into the cache. *)
Definition finish (st : state) (f : flight) (ts_ok spl_ok : bool) (pend : list flight) : state * bool :=
  let g := send_chunk f ts_ok spl_ok in
  let ack := f_ok g in
  ({| cache := if ack then f_ann g ++ cache st else cache st;
      ts_rows := store_chunk (ts_rows st) f ts_ok;
      acked := if ack then f_done g ++ acked st else acked st;
      pending := pend |}, ack).

Fixpoint remove_nth {A} (k : nat) (l : list A) : list A :=
  match k, l with
  | _, [] => []
  | O, _ :: r => r
  | S k', x :: r => x :: remove_nth k' r
  end.
Fixpoint set_nth {A} (k : nat) (x : A) (l : list A) : list A :=
  match k, l with
  | _, [] => []
  | O, _ :: r => x :: r
  | S k', y :: r => y :: set_nth k' x r
  end.

Definition chunk_size (f : flight) : Z := Z.of_nat (length (f_spl f)).

Definition step (st : state) (a : action) : state * obs :=
  match a with
  | CacheReset => ({| cache := []; ts_rows := ts_rows st; acked := acked st; pending := pending st |}, OReset)
  | CacheEvict k => ({| cache := remove_nth k (cache st); ts_rows := ts_rows st; acked := acked st; pending := pending st |}, OReset)
  | Push ss ts_ok spl_ok =>
    let f := begin_req st ss in
    let '(st', ack) := finish st f ts_ok spl_ok (pending st) in
    (st', OPush ack (f_rows f) (chunk_size f))
  | PushBad ss => (st, OBad)
  | Begin ss =>
    let f := begin_req st ss in
    ({| cache := cache st; ts_rows := ts_rows st; acked := acked st; pending := pending st ++ [f] |},
     OBegin)
  | More k ss =>
    match nth_error (pending st) k with
    | Some f => ({| cache := cache st; ts_rows := ts_rows st; acked := acked st;
                    pending := set_nth k (more_req st f ss) (pending st) |}, OBegin)
    | None => (st, ONone)
    end
  | Flush k ts_ok spl_ok =>
    match nth_error (pending st) k with
    | Some f => ({| cache := cache st; ts_rows := store_chunk (ts_rows st) f ts_ok; acked := acked st;
                    pending := set_nth k (send_chunk f ts_ok spl_ok) (pending st) |},
                 OFlush (f_rows f) (chunk_size f))
    | None => (st, ONone)
    end
  | End k ts_ok spl_ok =>
    match nth_error (pending st) k with
    | Some f => let '(st', ack) := finish st f ts_ok spl_ok (remove_nth k (pending st)) in
                (st', OPush ack (f_rows f) (chunk_size f))
    | None => (st, ONone)
    end
  | Abort k =>
    match nth_error (pending st) k with
    | Some f => ({| cache := cache st; ts_rows := ts_rows st; acked := acked st; pending := remove_nth k (pending st) |}, OBad)
    | None => (st, ONone)
    end
  end.

Fixpoint run (st : state) (h : list action) : state :=
  match h with
  | [] => st
  | a :: r => run (fst (step st a)) r
  end.
Fixpoint run_obs (st : state) (h : list action) : list obs :=
  match h with
  | [] => []
  | a :: r => let '(st', o) := step st a in o :: run_obs st' r
  end.

(* cluster mode (the node has a ClusterName): numbercache answers Has = false and ignores CheckAndSet, so the
   process behaves as if the cache were emptied after every step *)
Definition clear_cache (st : state) : state :=
  {| cache := []; ts_rows := ts_rows st; acked := acked st; pending := pending st |}.
Fixpoint run_dist (st : state) (h : list action) : state :=
  match h with
  | [] => st
  | a :: r => run_dist (clear_cache (fst (step st a))) r
  end.

(* ------------------------------------------------------------------ the property, as predicates on a state *)
Definition indexed (rows : list row) (s : sample) : bool :=
  let '(fp, d, _) := s in existsb (fun r => let '(rd, rfp, _) := r in (rd =? d) && (rfp =? fp)) rows.
(* the read side selects series rows with  type IN (t, 0)  *)
Definition indexed_typed (rows : list row) (s : sample) : bool :=
  let '(fp, d, t) := s in
  existsb (fun r => let '(rd, rfp, rt) := r in (rd =? d) && (rfp =? fp) && ((rt =? t) || (rt =? 0))) rows.

Definition all_indexed (st : state) : bool := forallb (indexed (ts_rows st)) (acked st).
Definition all_indexed_typed (st : state) : bool := forallb (indexed_typed (ts_rows st)) (acked st).

(* ------------------------------------------------------------------ the code before the fix, kept to state what was wrong
   maybeAddFp entered the triple into the cache while parsing (requests handled alone, one chunk: the steps of
   requests in flight are no-ops here) *)
Definition step_old (st : state) (a : action) : state :=
  match a with
  | Push ss ts_ok spl_ok =>
    let '(c', rows) := parse (cache st) ss in
    let ack := (is_nil rows || ts_ok) && spl_ok in
    {| cache := c';
       ts_rows := if ts_ok then rows ++ ts_rows st else ts_rows st;
       acked := if ack then samples_of ss ++ acked st else acked st; pending := pending st |}
  | PushBad ss => {| cache := fst (parse (cache st) ss); ts_rows := ts_rows st; acked := acked st; pending := pending st |}
  | CacheReset => {| cache := []; ts_rows := ts_rows st; acked := acked st; pending := pending st |}
  | CacheEvict k => {| cache := remove_nth k (cache st); ts_rows := ts_rows st; acked := acked st; pending := pending st |}
  | _ => st
  end.
Fixpoint run_old (st : state) (h : list action) : state :=
  match h with
  | [] => st
  | a :: r => run_old (step_old st a) r
  end.

(* ------------------------------------------------------------------ correspondence cases (histories) *)
Inductive hobs :=
| HPush (ack : bool) (rows : list row) (samples : list sample)   (* observed: status 2xx, series rows sent (sorted), sample rows sent (last chunk) *)
| HFlush (rows : list row) (samples : list sample)               (* observed while the body is open: series rows sent, sample rows sent *)
| HBad                                                            (* observed: status 400 and no insert *)
| HBegin                                                          (* observed: nothing reached the client *)
| HReset.

Record hcase := { hc_id : Z; hc_actions : list action; hc_obs : list hobs }.

Definition row_leb (a b : row) : bool :=
  let '(a1, a2, a3) := a in let '(b1, b2, b3) := b in
  (a1 <? b1) || ((a1 =? b1) && ((a2 <? b2) || ((a2 =? b2) && (a3 <=? b3)))).
Fixpoint insert_row (x : row) (l : list row) : list row :=
  match l with
  | [] => [x]
  | y :: r => if row_leb x y then x :: l else y :: insert_row x r
  end.
Definition sort_rows (l : list row) : list row := fold_right insert_row [] l.

Fixpoint rows_eqb (a b : list row) : bool :=
  match a, b with
  | [], [] => true
  | x :: r, y :: r' => row_eqb x y && rows_eqb r r'
  | _, _ => false
  end.

Definition obs_match (o : obs) (h : hobs) : bool :=
  match o, h with
  | OReset, HReset => true
  | OBad, HBad => true
  | OPush ack rows n, HPush ack' rows' spl =>
    Bool.eqb ack ack' && rows_eqb (sort_rows rows) (sort_rows rows') && (n =? Z.of_nat (length spl))
  | OFlush rows n, HFlush rows' spl => rows_eqb (sort_rows rows) (sort_rows rows') && (n =? Z.of_nat (length spl))
  | OBegin, HBegin => true
  | _, _ => false
  end.
Fixpoint obsl_match (a : list obs) (b : list hobs) : bool :=
  match a, b with
  | [], [] => true
  | x :: r, y :: r' => obs_match x y && obsl_match r r'
  | _, _ => false
  end.

Definition hist_mismatch (c : hcase) : bool := negb (obsl_match (run_obs init (hc_actions c)) (hc_obs c)).

(* the property's oracle on what the IMPLEMENTATION did: series rows count when their insert was
   scripted to succeed, samples count when the push was answered 2xx. The samples a request sent in chunks
   while its body was open are remembered per open request (same positions as [pending]: Begin appends, End / Abort
   remove) and count when the End of that request is answered 2xx. *)
Definition ostate : Type := (list row * list sample * list (list sample))%type.
Definition add_nth (k : nat) (spl : list sample) (open : list (list sample)) : list (list sample) :=
  match nth_error open k with Some l => set_nth k (spl ++ l) open | None => open end.
Definition observe (s : ostate) (a : action) (o : hobs) : ostate :=
  let '(rows, ack, open) := s in
  match a, o with
  | Push _ ts_ok _, HPush a rs spl =>
    (if ts_ok then rs ++ rows else rows, if a then spl ++ ack else ack, open)
  | End k ts_ok _, HPush a rs spl =>
    (if ts_ok then rs ++ rows else rows, if a then spl ++ nth k open [] ++ ack else ack, remove_nth k open)
  (* a malformed body is run with both inserts scripted to succeed: whatever it sends is stored *)
  | PushBad _, HPush a rs spl => (rs ++ rows, if a then spl ++ ack else ack, open)
  | Abort k, HPush a rs spl => (rs ++ rows, if a then spl ++ nth k open [] ++ ack else ack, remove_nth k open)
  | End k _ _, _ | Abort k, _ => (rows, ack, remove_nth k open)
  | Begin _, HFlush rs spl => (rs ++ rows, ack, open ++ [spl])     (* (scripted to succeed) *)
  | Begin _, _ => (rows, ack, open ++ [[]])
  | Flush k ts_ok _, HFlush rs spl => (if ts_ok then rs ++ rows else rows, ack, add_nth k spl open)
  | More k _, HFlush rs spl => (rs ++ rows, ack, add_nth k spl open)   (* (scripted to succeed) *)
  | _, _ => s
  end.
Fixpoint observed_state (acts : list action) (os : list hobs) (s : ostate) : ostate :=
  match acts, os with
  | a :: ar, o :: orr => observed_state ar orr (observe s a o)
  | _, _ => s
  end.
Definition obs_all_indexed (typed : bool) (c : hcase) : bool :=
  let '(rows, ack, _) := observed_state (hc_actions c) (hc_obs c) ([], [], []) in
  forallb (if typed then indexed_typed rows else indexed rows) ack.

(* a violation: some acknowledged sample has no successfully inserted series row of its day and type *)
Definition hv (c : hcase) : bool := negb (obs_all_indexed true c).

Definition hids (f : hcase -> bool) (cs : list hcase) : list Z := map hc_id (filter f cs).
(* [mismatch; violation] *)
Definition hreport (cs : list hcase) : list (list Z) := [hids hist_mismatch cs; hids hv cs].
