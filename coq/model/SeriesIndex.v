(* Model of the once-per-day series announcement of the writer (property C04, histories):
   builder.go onEntries / maybeAddFp, the shared numbercache (one process-wide set of
   (day, fingerprint) pairs, emptied every 30 minutes), and the two inserts of a log/metric push
   (time_series rows, samples rows) whose promises decide the HTTP status (controller/builder.go
   doParse: 2xx iff every insert of the request succeeded).
   Executable definitions only; proofs in proofs/SeriesIndexProofs.v.

   What onEntries does for one stream (labels -> fp, entries):
     dates := set of UTC days of the entries' timestamps
     tps   := set of sample types present (1 log, 2 metric, 0 both)
     for d in dates: for t in tps:
        if maybeAddFp(d, fp, t, cache)   -- true iff (d, fp, t) was NOT in the cache; ADDS it now
           emit the series row (d, fp, t)
   The triple is marked as announced at parse time, before (and regardless of whether) the row is
   inserted. (Until the fix recorded in findings.d/C04.txt the cache was keyed by (d, fp) only and a
   label set seen first with log lines and then with metric values got no type-2 row.) Not modelled: the mid-request flush above 1 MiB (requests of the generator are small),
   cache eviction by fastcache (only causes re-announcement), distributed mode (cache disabled). *)
From Coq Require Import List ZArith Bool.
Import ListNotations.
Open Scope Z_scope.

Inductive stype := TBoth | TLog | TMetric.
Definition tcode (t : stype) : Z := match t with TBoth => 0 | TLog => 1 | TMetric => 2 end.
Definition stype_eqb (a b : stype) : bool := tcode a =? tcode b.

Record entry := { e_ts : Z; (* ns since the epoch, >= 0 *) e_type : stype }.
Record stream := { s_fp : Z; s_entries : list entry }.

Inductive action :=
| Push (streams : list stream) (ts_ok spl_ok : bool)   (* one HTTP push; outcomes of its two inserts *)
| CacheReset.                                           (* the 30-minute ticker fired *)

Definition day_of (ts_ns : Z) : Z := (ts_ns / 1000000000) / 86400.

Definition row : Type := (Z * Z * Z)%type.         (* series row / cache entry: (day, fingerprint, type code) *)
Definition sample : Type := (Z * Z * Z)%type.      (* sample: (fingerprint, day of its timestamp, type code) *)

Definition row_eqb (a b : row) : bool :=
  let '(a1, a2, a3) := a in let '(b1, b2, b3) := b in (a1 =? b1) && (a2 =? b2) && (a3 =? b3).
Definition mem_row (x : row) (l : list row) : bool := existsb (row_eqb x) l.

Fixpoint nodup_z (l : list Z) : list Z :=
  match l with
  | [] => []
  | x :: r => if existsb (Z.eqb x) r then nodup_z r else x :: nodup_z r
  end.

Definition days_of (es : list entry) : list Z := nodup_z (map (fun e => day_of (e_ts e)) es).
Definition types_of (es : list entry) : list stype :=
  filter (fun t => existsb (fun e => stype_eqb (e_type e) t) es) [TBoth; TLog; TMetric].

(* one (day, type) of one stream: maybeAddFp + row emission *)
Definition announce_type (d fp : Z) (acc : list row * list row) (t : stype) : list row * list row :=
  let '(cache, rows) := acc in
  let x := (d, fp, tcode t) in
  if mem_row x cache then (cache, rows) else (x :: cache, rows ++ [x]).

Definition announce (fp : Z) (tps : list stype) (acc : list row * list row) (d : Z) : list row * list row :=
  fold_left (announce_type d fp) tps acc.

Definition on_entries (acc : list row * list row) (s : stream) : list row * list row :=
  fold_left (announce (s_fp s) (types_of (s_entries s))) (days_of (s_entries s)) acc.

(* the parser over a whole request body *)
Definition parse (cache : list row) (ss : list stream) : list row * list row :=
  fold_left on_entries ss (cache, []).

Definition samples_of (ss : list stream) : list sample :=
  flat_map (fun s => map (fun e => (s_fp s, day_of (e_ts e), tcode (e_type e))) (s_entries s)) ss.

Record state := {
  cache : list row;            (* (day, fingerprint, type) triples announced since the last reset *)
  ts_rows : list row;          (* series rows successfully inserted *)
  acked : list sample          (* samples of acknowledged (2xx) pushes *)
}.
Definition init : state := {| cache := []; ts_rows := []; acked := [] |}.

Definition is_nil {A} (l : list A) : bool := match l with [] => true | _ => false end.

(* what one action shows to the outside *)
Inductive obs :=
| OPush (ack : bool) (rows : list row) (nsamples : Z)    (* 2xx?, series rows sent to ClickHouse, samples sent *)
| OReset.

Definition step (st : state) (a : action) : state * obs :=
  match a with
  | CacheReset => ({| cache := []; ts_rows := ts_rows st; acked := acked st |}, OReset)
  | Push ss ts_ok spl_ok =>
    let '(c', rows) := parse (cache st) ss in
    let spl := samples_of ss in
    (* an empty time-series request is fulfilled without an insert (processRequest returns 0 rows) *)
    let ts_done := is_nil rows || ts_ok in
    let ack := ts_done && spl_ok in
    ({| cache := c';
        ts_rows := if ts_ok then rows ++ ts_rows st else ts_rows st;
        acked := if ack then spl ++ acked st else acked st |},
     OPush ack rows (Z.of_nat (length spl)))
  end.

Fixpoint run (st : state) (h : list action) : state :=
  match h with
  | [] => st
  | a :: r => run (fst (step st a)) r
  end.
Fixpoint run_obs (st : state) (h : list action) : list obs :=
  match h with
  | [] => []
  | a :: r => let '(st', o) := step st a in o :: run_obs st' r
  end.

(* ------------------------------------------------------------------ the property, as predicates on a state *)
Definition indexed (rows : list row) (s : sample) : bool :=
  let '(fp, d, _) := s in existsb (fun r => let '(rd, rfp, _) := r in (rd =? d) && (rfp =? fp)) rows.
(* the read side selects series rows with  type IN (t, 0)  *)
Definition indexed_typed (rows : list row) (s : sample) : bool :=
  let '(fp, d, t) := s in
  existsb (fun r => let '(rd, rfp, rt) := r in (rd =? d) && (rfp =? fp) && ((rt =? t) || (rt =? 0))) rows.

Definition all_indexed (st : state) : bool := forallb (indexed (ts_rows st)) (acked st).
Definition all_indexed_typed (st : state) : bool := forallb (indexed_typed (ts_rows st)) (acked st).

(* guard of the partial theorem: after a push whose series insert failed, nothing is pushed until
   the next cache reset *)
Fixpoint clean_hist (dirty : bool) (h : list action) : bool :=
  match h with
  | [] => true
  | CacheReset :: r => clean_hist false r
  | Push _ ts_ok _ :: r => negb dirty && clean_hist (negb ts_ok) r
  end.

(* a fingerprint always arrives with the same set of sample types (all streams of the history that
   carry it have equal type sets): then an inserted row of any type for (day, fingerprint) means
   rows of all its types were inserted (used by the oracle hv_new below) *)
Definition all_streams (h : list action) : list stream :=
  flat_map (fun a => match a with Push ss _ _ => ss | CacheReset => [] end) h.
Fixpoint types_eqb (a b : list stype) : bool :=
  match a, b with
  | [], [] => true
  | x :: r, y :: r' => stype_eqb x y && types_eqb r r'
  | _, _ => false
  end.
Definition stable_pair (s1 s2 : stream) : bool :=
  negb (s_fp s1 =? s_fp s2) || types_eqb (types_of (s_entries s1)) (types_of (s_entries s2)).
Definition types_stable (h : list action) : bool :=
  let ss := all_streams h in forallb (fun s1 => forallb (stable_pair s1) ss) ss.

(* ------------------------------------------------------------------ correspondence cases (histories) *)
Inductive hobs :=
| HPush (ack : bool) (rows : list row) (samples : list sample)   (* observed: status 2xx, series rows sent (sorted), sample rows sent *)
| HReset.

Record hcase := { hc_id : Z; hc_actions : list action; hc_obs : list hobs }.

Definition row_leb (a b : row) : bool :=
  let '(a1, a2, a3) := a in let '(b1, b2, b3) := b in
  (a1 <? b1) || ((a1 =? b1) && ((a2 <? b2) || ((a2 =? b2) && (a3 <=? b3)))).
Fixpoint insert_row (x : row) (l : list row) : list row :=
  match l with
  | [] => [x]
  | y :: r => if row_leb x y then x :: l else y :: insert_row x r
  end.
Definition sort_rows (l : list row) : list row := fold_right insert_row [] l.

Fixpoint rows_eqb (a b : list row) : bool :=
  match a, b with
  | [], [] => true
  | x :: r, y :: r' => row_eqb x y && rows_eqb r r'
  | _, _ => false
  end.

Definition obs_match (o : obs) (h : hobs) : bool :=
  match o, h with
  | OReset, HReset => true
  | OPush ack rows n, HPush ack' rows' spl =>
    Bool.eqb ack ack' && rows_eqb (sort_rows rows) (sort_rows rows') && (n =? Z.of_nat (length spl))
  | _, _ => false
  end.
Fixpoint obsl_match (a : list obs) (b : list hobs) : bool :=
  match a, b with
  | [], [] => true
  | x :: r, y :: r' => obs_match x y && obsl_match r r'
  | _, _ => false
  end.

Definition hist_mismatch (c : hcase) : bool := negb (obsl_match (run_obs init (hc_actions c)) (hc_obs c)).

(* the property's oracle on what the IMPLEMENTATION did: series rows count when their insert was
   scripted to succeed, samples count when the push was answered 2xx *)
Fixpoint observed_state (acts : list action) (os : list hobs) (rows : list row) (ack : list sample) : list row * list sample :=
  match acts, os with
  | Push _ ts_ok _ :: ar, HPush a rs spl :: orr =>
    observed_state ar orr (if ts_ok then rs ++ rows else rows) (if a then spl ++ ack else ack)
  | _ :: ar, _ :: orr => observed_state ar orr rows ack
  | _, _ => (rows, ack)
  end.
Definition obs_all_indexed (typed : bool) (c : hcase) : bool :=
  let '(rows, ack) := observed_state (hc_actions c) (hc_obs c) [] [] in
  forallb (if typed then indexed_typed rows else indexed rows) ack.

(* violations that the recorded finding does not explain: a type-aware miss in a history without a
   push after a failed series insert, or a type-only miss although the fingerprint's types never vary ... *)
Definition hv_new (c : hcase) : bool :=
  (negb (obs_all_indexed true c) && clean_hist false (hc_actions c)) ||
  (obs_all_indexed false c && negb (obs_all_indexed true c) && types_stable (hc_actions c)).
(* ... and the recorded finding itself: a push after a failed series insert (no reset in between) *)
Definition hv_retry (c : hcase) : bool :=
  negb (obs_all_indexed true c) && negb (clean_hist false (hc_actions c)) && negb (hv_new c).

Definition hids (f : hcase -> bool) (cs : list hcase) : list Z := map hc_id (filter f cs).
(* [mismatch; new violation; known: retry after failed series insert] *)
Definition hreport (cs : list hcase) : list (list Z) :=
  [hids hist_mismatch cs; hids hv_new cs; hids hv_retry cs].
