(* LogQL abstract syntax as produced by reader/logql/logql_parser (model_v2.go), with quoted
   strings already unquoted (QuotedString.Unquote) and operator strings as enumerations.
   Values that the planners obtain from library calls on the query text are carried in the
   tree as oracle fields: the regexp/syntax literal extraction of a line filter (re2Like),
   the `%f` rendering of a numeric literal, the JSON path split of a json parameter. *)
From Coq Require Import List ZArith String Bool.
Import ListNotations.
Open Scope string_scope.

Inductive mop := MEq | MNeq | MRe | MNre.                       (* =  !=  =~  !~ *)
Record matcher := { m_name : string; m_op : mop; m_val : string }.

Inductive lfop := LFContains | LFNotContains | LFRe | LFNre.    (* |=  !=  |~  !~ *)

Inductive lblop := LEq | LNeq | LRe | LNre | LDeq | LGt | LGe | LLt | LLe.   (* = != =~ !~ == > >= < <= *)
Record simple_lf := {
  slf_label : string;
  slf_fn : lblop;
  slf_str : option string;                   (* StrVal, unquoted *)
  slf_num : option (string * string)         (* NumVal text, and fmt.Sprintf("%f", ParseFloat(NumVal)) *)
}.
Inductive label_filter :=
 | LF (head : lf_head) (op : option bool) (tail : option label_filter)     (* op: Some true = and, Some false = or *)
with lf_head := HSimple (s : simple_lf) | HComplex (f : label_filter).

Inductive parser_fn := PJson | PLogfmt | PRegexp.
Record parser_param := {
  pp_label : string;                         (* "" when the parameter has no `label =` part *)
  pp_val : string;
  pp_path : option (list string)             (* shared.JsonPathParamToArray(val); None = error *)
}.

Inductive stage :=
 | PLineFilter (op : lfop) (val : string) (re_lit : option (string * bool))
     (* re_lit: for |~ / !~ the result of re2Like: Some (literal, case-insensitive) when the regex is one literal *)
 | PLabelFilter (f : label_filter)
 | PParser (fn : parser_fn) (params : list parser_param)
 | PLineFormat (tmpl : string)
 | PLabelFormat
 | PUnwrap (label : string)
 | PDrop (params : list (string * option string)).

Record strsel := { sel_matchers : list matcher; sel_pipeline : list stage }.

Inductive cmpop := CEq | CNeq | CGt | CGe | CLt | CLe.
Record comparison := { cmp_fn : cmpop; cmp_val : string (* %f text *) }.
Record by_without := { bw_by : bool; bw_labels : list string }.

Inductive lra_fn := FRate | FCountOverTime | FBytesRate | FBytesOverTime | FAbsentOverTime
 | FSumOverTime | FAvgOverTime | FMaxOverTime | FMinOverTime | FFirstOverTime | FLastOverTime
 | FStdvarOverTime | FStddevOverTime.
Record lra := {
  lra_f : lra_fn; lra_prefix : option by_without; lra_sel : strsel;
  lra_dur_ns : Z;                               (* time.ParseDuration(Time ++ TimeUnit) *)
  lra_suffix : option by_without; lra_cmp : option comparison }.
Inductive agg_fn := ASum | AMin | AMax | AAvg | AStddev | AStdvar | ACount.
Record aggop := { agg_f : agg_fn; agg_prefix : option by_without; agg_lra : lra;
                  agg_suffix : option by_without; agg_cmp : option comparison }.
Record quantile := { q_prefix : option by_without; q_param : string; q_sel : strsel; q_dur_ns : Z;
                     q_suffix : option by_without; q_cmp : option comparison }.
Inductive topk_arg := TKLra (l : lra) | TKAgg (a : aggop) | TKQuantile (q : quantile).
Record topk := { tk_top : bool; tk_len : Z; tk_arg : topk_arg; tk_cmp : option comparison }.

Inductive script :=
 | SLog (s : strsel)
 | SLra (l : lra)
 | SAgg (a : aggop)
 | STopK (t : topk)
 | SQuantile (q : quantile)
 | SMacros.

Definition stream_selector (s : script) : strsel :=
  match s with
  | SLog x => x
  | SLra l => lra_sel l
  | SAgg a => lra_sel (agg_lra a)
  | STopK t => match tk_arg t with TKLra l => lra_sel l | TKAgg a => lra_sel (agg_lra a) | TKQuantile q => q_sel q end
  | SQuantile q => q_sel q
  | SMacros => {| sel_matchers := []; sel_pipeline := [] |}
  end.
Definition is_log (s : script) : bool := match s with SLog _ => true | _ => false end.
