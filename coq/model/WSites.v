(* C10, write side — the census of the statements that writer/ and ctrl/ hand to ClickHouse (regenerated into
   gen/GenC10WSites.v by translate/gen_wsqlsites) and the judgement "no request string reaches a statement":
   every part of every statement text is constant text of the program, an embedded SQL script, a field of a configuration
   struct, a number, or a parameter of the enclosing function (pass-through) — and for every pass-through parameter the call
   sites of that function are in the list again (classified the same way), or the function is one of the reviewed entry
   points that have no caller in the module.  Executable definitions only. *)
From Coq Require Import List String Ascii Bool ZArith.
Import ListNotations.
Open Scope string_scope.

Inductive wclass := WConst | WEmbed | WConfig | WNum | WPass | WUnclassified.

Record wsite := {
  ws_file : string; ws_line : Z;
  ws_call : bool;                       (* false: a statement (sink); true: a call site of a pass-through function *)
  ws_sink : string;                     (* the sink method / "parameter p (#i) of F" the argument is passed to *)
  ws_pieces : list (wclass * string)    (* class of every part of the text; for WPass the description of the parameter *)
}.

Definition wclass_ok (c : wclass) : bool := match c with WUnclassified => false | _ => true end.

(* a pass-through parameter is closed when some call site of its function is listed, or it is a reviewed entry point *)
Definition pass_closed (sites : list wsite) (entry : list string) (d : string) : bool :=
  existsb (fun s => ws_call s && String.eqb (ws_sink s) d) sites || existsb (String.eqb d) entry.

Definition wpiece_ok (sites : list wsite) (entry : list string) (p : wclass * string) : bool :=
  match fst p with
  | WUnclassified => false
  | WPass => pass_closed sites entry (snd p)
  | _ => true
  end.

Definition wsite_ok (sites : list wsite) (entry : list string) (s : wsite) : bool :=
  forallb (wpiece_ok sites entry) (ws_pieces s).

Definition wsites_ok (sites : list wsite) (entry : list string) : bool :=
  negb (Nat.eqb (List.length sites) 0) && forallb (wsite_ok sites entry) sites.

Definition unsafe_wsites (sites : list wsite) (entry : list string) : list (string * Z) :=
  map (fun s => (ws_file s, ws_line s)) (filter (fun s => negb (wsite_ok sites entry s)) sites).

(* the pass-through functions without a caller in the module, as reviewed: the template executor returned by
   Client.GetDBExec of writer/ch_wrapper is handed to plugins; nothing in the module calls it *)
Definition reviewed_writer_entry : list string :=
  [ (* round 4 (sinks by declaring package): the connection string handed to clickhouse.ParseDSN; both constructors are called by the
       tests only, with the configured DSN *)
    "parameter Xdsn (#0) of writer/ch_wrapper.NewSmartDatabaseAdapterWithXDSN";
    "parameter dsn (#0) of writer/ch_wrapper.NewSmartDatabaseAdapterWithDSN";
    "parameter query (#1) of closure in writer/ch_wrapper.(*Client).GetDBExec"].
