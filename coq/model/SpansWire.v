(* Protobuf wire encoding of an OpenTelemetry Span (property C06).

   enc_span s  = the bytes proto.Marshal (google.golang.org/protobuf, generated code of
                 go.opentelemetry.io/proto/otlp trace/v1 + common/v1) returns for the span s;
   dec_span b  = proto.Unmarshal restricted to the fields of the model (ospan of Spans.v).

   Executable definitions only; the round trip dec_span (enc_span s) = Some s is proved in
   proofs/SpansWireProofs.v.

   Layer 1: a message body is a list of raw fields (field number, raw value); nested messages are
            byte strings inside RBytes.  ser_fields / raw_fields go between bytes and raw fields.
   Layer 2: fields_any / fields_kv / fields_span produce raw fields from values (nested messages
            already serialised), any_step / kv_step / span_step interpret raw fields, descending
            into RBytes payloads with fuel (one unit per AnyValue level).

   Decoder conventions (those of the Go implementation): fields in any order, unknown field
   numbers and known numbers with an unexpected wire type are skipped, the last occurrence of a
   scalar wins, a oneof member replaces the previous member, a repeated occurrence of a message
   field is MERGED into the previous one (KeyValue.value; the same message-typed oneof member
   array_value / kvlist_value twice in a row: the element lists are concatenated), repeated
   fields append.  A varint is at most 10 bytes and below 2^64.  None: truncated input, field
   number 0 or above 2^29-1, wire types 3, 4 (groups: outside the model), 6, 7, a double outside
   the domain of the model.  NOT modelled: the UTF-8 validation of string fields (Marshal and
   Unmarshal of the implementation both fail on a string that is not UTF-8).
   One idealisation: a LENGTH varint of 2^64 or more is accepted in its canonical form (the
   implementation reports an overflow); no input shorter than 2^64 bytes can tell the
   difference (the payload is then too short in the model too), and it lets the round trip hold
   without any bound on sizes. *)
From Coq Require Import List ZArith NArith Bool String Ascii.
From Qryn Require Import model.Spans.
Import ListNotations.
Open Scope string_scope.
Open Scope Z_scope.

(* ------------------------------------------------------------------ layer 0: bytes and numbers *)
Inductive rawval := RVarint (n : N) | RFixed64 (n : N) | RBytes (s : string) | RFixed32 (n : N).
Definition field := (N * rawval)%type.

Definition two64N : N := 18446744073709551616%N.
Definition max_field : N := 536870911%N.          (* protowire.MaxValidNumber = 2^29 - 1 *)

Fixpoint slen (s : string) : N :=
  match s with EmptyString => 0%N | String _ r => N.succ (slen r) end.

(* base-128 little endian, high bit = continuation; the fuel (the number of bits of n) always suffices *)
Fixpoint enc_varint_f (fuel : nat) (n : N) : string :=
  match fuel with
  | O => EmptyString
  | S k => if (n <? 128)%N then String (ascii_of_N n) EmptyString
           else String (ascii_of_N (n mod 128 + 128)) (enc_varint_f k (n / 128))
  end.
Definition enc_varint (n : N) : string := enc_varint_f (S (N.to_nat (N.size n))) n.

(* value, number of bytes read, rest *)
Fixpoint dec_varint_raw (s : string) : option (N * nat * string) :=
  match s with
  | EmptyString => None
  | String c r =>
      let b := N_of_ascii c in
      if (b <? 128)%N then Some (b, 1%nat, r)
      else match dec_varint_raw r with
           | Some (n, k, r') => Some ((b - 128) + 128 * n, S k, r')%N
           | None => None
           end
  end.
(* protowire.ConsumeVarint: at most 10 bytes, the tenth at most 1 *)
Definition dec_varint64 (s : string) : option (N * string) :=
  match dec_varint_raw s with
  | Some (n, k, r) => if Nat.leb k 10 && (n <? two64N)%N then Some (n, r) else None
  | None => None
  end.
(* a length prefix: see the idealisation in the header *)
Definition dec_len (s : string) : option (N * string) :=
  match dec_varint_raw s with
  | Some (n, k, r) => if Nat.leb k 10 || (two64N <=? n)%N then Some (n, r) else None
  | None => None
  end.

(* the first n bytes and the rest; structural in the string: a huge n costs nothing *)
Fixpoint take_n (s : string) (n : N) {struct s} : option (string * string) :=
  if (n =? 0)%N then Some (EmptyString, s) else
  match s with
  | EmptyString => None
  | String c r => match take_n r (N.pred n) with
                  | Some (a, b) => Some (String c a, b)
                  | None => None
                  end
  end.

Fixpoint le_bytes (k : nat) (n : N) : string :=
  match k with O => EmptyString | S j => String (ascii_of_N (n mod 256)) (le_bytes j (n / 256)) end.
Fixpoint le_dec (s : string) : N :=
  match s with EmptyString => 0%N | String c r => (N_of_ascii c + 256 * le_dec r)%N end.

(* ------------------------------------------------------------------ layer 1: raw fields *)
Definition ser_field (f : field) : string :=
  let '(n, v) := f in
  match v with
  | RVarint x => enc_varint (n * 8) ++ enc_varint x
  | RFixed64 x => enc_varint (n * 8 + 1) ++ le_bytes 8 x
  | RBytes s => enc_varint (n * 8 + 2) ++ enc_varint (slen s) ++ s
  | RFixed32 x => enc_varint (n * 8 + 5) ++ le_bytes 4 x
  end.
Fixpoint ser_fields (fs : list field) : string :=
  match fs with [] => EmptyString | f :: r => ser_field f ++ ser_fields r end.

Definition parse_field (s : string) : option (field * string) :=
  match dec_varint64 s with
  | None => None
  | Some (tag, r) =>
      let f := (tag / 8)%N in
      let w := (tag mod 8)%N in
      if (f =? 0)%N || (max_field <? f)%N then None
      else if (w =? 0)%N then
        match dec_varint64 r with Some (x, r') => Some ((f, RVarint x), r') | None => None end
      else if (w =? 1)%N then
        match take_n r 8 with Some (a, r') => Some ((f, RFixed64 (le_dec a)), r') | None => None end
      else if (w =? 2)%N then
        match dec_len r with
        | Some (l, r1) => match take_n r1 l with Some (a, r') => Some ((f, RBytes a), r') | None => None end
        | None => None
        end
      else if (w =? 5)%N then
        match take_n r 4 with Some (a, r') => Some ((f, RFixed32 (le_dec a)), r') | None => None end
      else None
  end.

(* every field takes at least one byte: the length of the input is enough fuel *)
Fixpoint raw_fields_f (fuel : nat) (s : string) : option (list field) :=
  match s with
  | EmptyString => Some []
  | String _ _ =>
      match fuel with
      | O => None
      | S k => match parse_field s with
               | None => None
               | Some (f, r) => match raw_fields_f k r with Some l => Some (f :: l) | None => None end
               end
      end
  end.
Definition raw_fields (s : string) : option (list field) := raw_fields_f (String.length s) s.

(* ------------------------------------------------------------------ doubles
   the value micro/10^6 with micro = k * 125000, |k| < 2^53: k/8 is a binary64 number *)
Definition two52 : Z := 4503599627370496.
Definition two53 : Z := 9007199254740992.
Definition double_ok (micro : Z) : bool := (micro mod 125000 =? 0) && (Z.abs (micro / 125000) <? two53).

Definition double_bits (micro : Z) : N :=
  let k := micro / 125000 in
  if k =? 0 then 0%N else
  let a := Z.abs k in
  let p := Z.log2 a in
  Z.to_N ((if k <? 0 then two63 else 0) + (p + 1020) * two52 + (a - 2 ^ p) * 2 ^ (52 - p)).

Definition dec_double (n : N) : option Z :=
  let z := Z.of_N n in
  if z =? 0 then Some 0 else
  let s := z / two63 in
  let e := (z / two52) mod 2048 in
  let m := z mod two52 in
  if (1020 <=? e) && (e <=? 1072) then
    let p := e - 1020 in
    let sh := 2 ^ (52 - p) in
    if m mod sh =? 0 then
      let a := 2 ^ p + m / sh in
      Some ((if s =? 0 then a else - a) * 125000)
    else None
  else None.

(* ------------------------------------------------------------------ layer 2: values -> raw fields *)
Definition is_nil (v : aval) : bool := match v with ANil => true | _ => false end.

Definition bytes_field (n : N) (s : string) : list field :=
  if String.eqb s "" then [] else [(n, RBytes s)].
Definition kv_fields (k : string) (vnil : bool) (venc : string) : list field :=
  (bytes_field 1 k ++ (if vnil then [] else [(2%N, RBytes venc)]))%list.

Fixpoint fields_any (v : aval) : list field :=
  match v with
  | AStr s => [(1%N, RBytes s)]
  | ABool b => [(2%N, RVarint (if b then 1 else 0)%N)]
  | AInt z => [(3%N, RVarint (Z.to_N (to_u64 z)))]
  | ADouble m => [(4%N, RFixed64 (double_bits m))]
  | AList l =>
      [(5%N, RBytes (ser_fields
         ((fix go (l : list aval) : list field :=
             match l with
             | [] => []
             | x :: r => (1%N, RBytes (ser_fields (fields_any x))) :: go r
             end) l)))]
  | AMap kvs =>
      [(6%N, RBytes (ser_fields
         ((fix go (l : list (string * aval)) : list field :=
             match l with
             | [] => []
             | p :: r => (1%N, RBytes (ser_fields (kv_fields (fst p) (is_nil (snd p)) (ser_fields (fields_any (snd p)))))) :: go r
             end) kvs)))]
  | ABytes s => [(7%N, RBytes s)]
  | AEmpty => []
  | ANil => []                 (* not a message: never asked for inside the domain *)
  end.

Definition enc_any (v : aval) : string := ser_fields (fields_any v).
Definition fields_kv (kv : string * aval) : list field :=
  kv_fields (fst kv) (is_nil (snd kv)) (enc_any (snd kv)).
Definition enc_kv (kv : string * aval) : string := ser_fields (fields_kv kv).

Definition fixed64_field (n : N) (z : Z) : list field :=
  if z =? 0 then [] else [(n, RFixed64 (Z.to_N (to_u64 z)))].
Definition varint_field (n : N) (z : Z) : list field :=
  if z =? 0 then [] else [(n, RVarint (Z.to_N (to_u64 z)))].
Definition fields_scalars (s : ospan) : list field :=
  (bytes_field 1 (o_trace s) ++ bytes_field 2 (o_span s) ++ bytes_field 4 (o_parent s)
   ++ bytes_field 5 (o_name s)
   ++ varint_field 6 (o_kind s)
   ++ fixed64_field 7 (o_start s) ++ fixed64_field 8 (o_end s))%list.
Definition fields_attrs (a : attrs) : list field := map (fun kv => (9%N, RBytes (enc_kv kv))) a.
Definition fields_span (s : ospan) : list field := (fields_scalars s ++ fields_attrs (o_attrs s))%list.
Definition enc_span (s : ospan) : string := ser_fields (fields_span s).

(* ------------------------------------------------------------------ layer 2: raw fields -> values *)
Fixpoint fold_opt {S A : Type} (step : S -> A -> option S) (l : list A) (st : S) : option S :=
  match l with
  | [] => Some st
  | x :: r => match step st x with Some st' => fold_opt step r st' | None => None end
  end.

Section INTERP.
  (* the decoder of an AnyValue message body merged into an existing value *)
  Variable rec : aval -> string -> option aval.

  (* repeated AnyValue values = 1 *)
  Fixpoint dec_elems (fs : list field) : option (list aval) :=
    match fs with
    | [] => Some []
    | (n, v) :: r =>
        match v with
        | RBytes b =>
            if (n =? 1)%N then
              match rec AEmpty b with
              | Some x => match dec_elems r with Some l => Some (x :: l) | None => None end
              | None => None
              end
            else dec_elems r
        | _ => dec_elems r
        end
    end.
  Definition dec_list (b : string) : option (list aval) :=
    match raw_fields b with Some fs => dec_elems fs | None => None end.

  (* KeyValue: key = 1, value = 2; ANil = no value seen *)
  Definition kv_step (st : string * aval) (f : field) : option (string * aval) :=
    let '(n, v) := f in
    match v with
    | RBytes b =>
        if (n =? 1)%N then Some (b, snd st)
        else if (n =? 2)%N then
          match rec (match snd st with ANil => AEmpty | x => x end) b with
          | Some x => Some (fst st, x)
          | None => None
          end
        else Some st
    | _ => Some st
    end.
  Definition dec_kv (b : string) : option (string * aval) :=
    match raw_fields b with Some fs => fold_opt kv_step fs (EmptyString, ANil) | None => None end.

  (* repeated KeyValue under the field number num *)
  Fixpoint dec_kvs (num : N) (fs : list field) : option (list (string * aval)) :=
    match fs with
    | [] => Some []
    | (n, v) :: r =>
        match v with
        | RBytes b =>
            if (n =? num)%N then
              match dec_kv b with
              | Some x => match dec_kvs num r with Some l => Some (x :: l) | None => None end
              | None => None
              end
            else dec_kvs num r
        | _ => dec_kvs num r
        end
    end.
  Definition dec_kvlist (b : string) : option (list (string * aval)) :=
    match raw_fields b with Some fs => dec_kvs 1 fs | None => None end.

  (* AnyValue: the oneof *)
  Definition any_step (st : aval) (f : field) : option aval :=
    let '(n, v) := f in
    match v with
    | RBytes b =>
        if (n =? 1)%N then Some (AStr b)
        else if (n =? 7)%N then Some (ABytes b)
        else if (n =? 5)%N then
          match dec_list b with
          | Some l => Some (AList (match st with AList l0 => (l0 ++ l)%list | _ => l end))
          | None => None
          end
        else if (n =? 6)%N then
          match dec_kvlist b with
          | Some l => Some (AMap (match st with AMap l0 => (l0 ++ l)%list | _ => l end))
          | None => None
          end
        else Some st
    | RVarint x =>
        if (n =? 2)%N then Some (ABool (negb (x =? 0)%N))
        else if (n =? 3)%N then Some (AInt (wrap64 (Z.of_N x)))
        else Some st
    | RFixed64 x =>
        if (n =? 4)%N then match dec_double x with Some m => Some (ADouble m) | None => None end
        else Some st
    | RFixed32 _ => Some st
    end.
End INTERP.

(* one unit of fuel per AnyValue level *)
Fixpoint dec_any_f (fuel : nat) (init : aval) (b : string) : option aval :=
  match fuel with
  | O => None
  | S k => match raw_fields b with
           | Some fs => fold_opt (any_step (dec_any_f k)) fs init
           | None => None
           end
  end.

(* the scalar fields of a Span; attributes are collected by dec_kvs 9 *)
Definition int32_of (n : N) : Z :=
  let k := Z.of_N n mod 4294967296 in if k <? 2147483648 then k else k - 4294967296.
Definition span_step (st : ospan) (f : field) : option ospan :=
  let '(n, v) := f in
  match v with
  | RBytes b =>
      if (n =? 1)%N then Some {| o_trace := b; o_span := o_span st; o_parent := o_parent st; o_name := o_name st;
                                 o_start := o_start st; o_end := o_end st; o_kind := o_kind st; o_attrs := o_attrs st |}
      else if (n =? 2)%N then Some {| o_trace := o_trace st; o_span := b; o_parent := o_parent st; o_name := o_name st;
                                      o_start := o_start st; o_end := o_end st; o_kind := o_kind st; o_attrs := o_attrs st |}
      else if (n =? 4)%N then Some {| o_trace := o_trace st; o_span := o_span st; o_parent := b; o_name := o_name st;
                                      o_start := o_start st; o_end := o_end st; o_kind := o_kind st; o_attrs := o_attrs st |}
      else if (n =? 5)%N then Some {| o_trace := o_trace st; o_span := o_span st; o_parent := o_parent st; o_name := b;
                                      o_start := o_start st; o_end := o_end st; o_kind := o_kind st; o_attrs := o_attrs st |}
      else Some st
  | RVarint x =>
      if (n =? 6)%N then Some {| o_trace := o_trace st; o_span := o_span st; o_parent := o_parent st; o_name := o_name st;
                                 o_start := o_start st; o_end := o_end st; o_kind := int32_of x; o_attrs := o_attrs st |}
      else Some st
  | RFixed64 x =>
      if (n =? 7)%N then Some {| o_trace := o_trace st; o_span := o_span st; o_parent := o_parent st; o_name := o_name st;
                                 o_start := Z.of_N x; o_end := o_end st; o_kind := o_kind st; o_attrs := o_attrs st |}
      else if (n =? 8)%N then Some {| o_trace := o_trace st; o_span := o_span st; o_parent := o_parent st; o_name := o_name st;
                                      o_start := o_start st; o_end := Z.of_N x; o_kind := o_kind st; o_attrs := o_attrs st |}
      else Some st
  | RFixed32 _ => Some st
  end.
Definition span0 : ospan :=
  {| o_trace := EmptyString; o_span := EmptyString; o_parent := EmptyString; o_name := EmptyString;
     o_start := 0; o_end := 0; o_kind := 0; o_attrs := [] |}.

Definition dec_span (b : string) : option ospan :=
  match raw_fields b with
  | None => None
  | Some fs =>
      match fold_opt span_step fs span0 with
      | None => None
      | Some st =>
          match dec_kvs (dec_any_f (String.length b)) 9 fs with
          | None => None
          | Some a => Some {| o_trace := o_trace st; o_span := o_span st; o_parent := o_parent st; o_name := o_name st;
                              o_start := o_start st; o_end := o_end st; o_kind := o_kind st; o_attrs := a |}
          end
      end
  end.

(* ------------------------------------------------------------------ the domain of the round trip *)
Fixpoint any_ok (v : aval) : bool :=
  match v with
  | AInt z => in_int64 z
  | ADouble m => double_ok m
  | AList l =>
      (fix go (l : list aval) : bool :=
         match l with [] => true | x :: r => negb (is_nil x) && any_ok x && go r end) l
  | AMap kvs =>
      (fix go (l : list (string * aval)) : bool :=
         match l with [] => true | p :: r => any_ok (snd p) && go r end) kvs
  | _ => true
  end.
Definition span_wire_ok (s : ospan) : bool :=
  (0 <=? o_start s) && (o_start s <? two64) && (0 <=? o_end s) && (o_end s <? two64)
  && (0 <=? o_kind s) && (o_kind s <? 2147483648)
  && forallb (fun kv => any_ok (snd kv)) (o_attrs s).
