(* C13: the window of the portions of a portioned TraceQL search.
   Transcription of ComplexRequestProcessor.Process / ProcessComplexReqIteration
   (reader/traceql/transpiler/complex_request_processor.go): a search whose complexity estimate reaches
   COMPLEXITY_THRESHOLD is answered in `portions` statements over disjoint parts of the trace-id space; the lower
   bound of the window (ctx.From) of portion k + 1 is narrowed to the start of the OLDEST trace portion k returned
   when that portion filled the limit (an older trace cannot enter the `limit` newest any more; the kept traces are
   re-read by id and must keep their spans), and stays what it was otherwise.  The rows arrive ordered by
   start_time_unix_nano DESC (TracesDataPlanner).  Executable definitions only. *)
From Coq Require Import List ZArith Bool.
Import ListNotations.
Open Scope Z_scope.

(* `from` inside the row loop: a time.Time, zero at first (None).
     if from.Nanosecond() == 0 || from.After(time.Unix(0, start)) { from = time.Unix(0, start) }
   Nanosecond() is the sub-second part: it is 0 for the zero Time AND for every instant on a whole second. *)
Definition step_from (from : option Z) (start : Z) : option Z :=
  match from with
  | None => Some start
  | Some f => if (f mod 1000000000 =? 0) || (start <? f) then Some start else Some f
  end.

Definition full (limit : Z) (starts : list Z) : bool := Z.of_nat (List.length starts) =? limit.

(* ProcessComplexReqIteration: the `from` it returns for the next portion (ctx_from = the From this portion ran with):
   if int64(len(res)) != ctx.Limit { from = ctx.From }.  No row and Limit = 0: Go returns the zero Time (None). *)
Definition iteration_from (ctx_from limit : Z) (starts : list Z) : option Z :=
  if full limit starts then fold_left step_from starts None else Some ctx_from.

(* Process: the From of every portion, given the rows (start times in arrival order) each portion returns.
   Portion 0 runs with the requested From; a zero Time is carried on as such. *)
Fixpoint portion_froms (cur : option Z) (limit : Z) (rows : list (list Z)) : list (option Z) :=
  match rows with
  | [] => []
  | r :: rest =>
    cur :: portion_froms (match cur with Some f => iteration_from f limit r | None => None end) limit rest
  end.
Definition process_froms (req_from limit : Z) (rows : list (list Z)) : list (option Z) :=
  portion_froms (Some req_from) limit rows.

(* ------------------------------------------------------------------ what the property demands of the windows
   obs = the lower bound each portion was sent with, rows = what each portion returned.  A bound is never below the
   requested From (confinement) and never above `need`: the requested From until a portion fills the limit, from
   then on the start of the oldest trace the last full portion kept (those traces are re-read by id: a later bound
   above one of them cuts spans of the answer; a trace older than all of them cannot enter the answer). *)
Definition zmin_l (l : list Z) (d : Z) : Z := fold_left Z.min l d.
Definition next_need (limit need : Z) (r : list Z) : Z :=
  if full limit r then match r with [] => need | x :: t => zmin_l t x end else need.
Fixpoint windows_ok (req_from limit need : Z) (rows : list (list Z)) (obs : list Z) : bool :=
  match obs with
  | [] => true
  | o :: obs' =>
    (req_from <=? o) && (o <=? need) &&
    match rows with
    | [] => match obs' with [] => true | _ :: _ => false end
    | r :: rest => windows_ok req_from limit (next_need limit need r) rest obs'
    end
  end.
Definition spec_ok (req_from limit : Z) (rows : list (list Z)) (obs : list Z) : bool :=
  windows_ok req_from limit req_from rows obs.

(* ------------------------------------------------------------------ cases (harness readscan, endpoint
   tempo_search_traceql_portions_rows: the scripted database answers the search statement of every portion with rows) *)
Record portion_case := { pc_id : Z; pc_from : Z; pc_limit : Z; pc_rows : list (list Z); pc_obs : list Z }.
Fixpoint olist_eqb (a : list (option Z)) (b : list Z) : bool :=
  match a, b with
  | [], [] => true
  | Some x :: a', y :: b' => (x =? y) && olist_eqb a' b'
  | _, _ => false
  end.
(* model = implementation: the lower bounds of the recorded statements are the model's *)
Definition pc_mismatch (c : portion_case) : bool :=
  negb (olist_eqb (process_froms (pc_from c) (pc_limit c) (firstn (List.length (pc_obs c)) (pc_rows c))) (pc_obs c)).
(* the property's demand on the OBSERVED bounds *)
Definition pc_spec_violation (c : portion_case) : bool := negb (spec_ok (pc_from c) (pc_limit c) (pc_rows c) (pc_obs c)).
Definition pc_mismatches (cs : list portion_case) : list Z := map pc_id (filter pc_mismatch cs).
Definition pc_spec_violations (cs : list portion_case) : list Z := map pc_id (filter pc_spec_violation cs).
