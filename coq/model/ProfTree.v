(* Model of the flame-graph builder of the reader (property C16):
     reader/service/profTree.go   Tree.MergeTrie, Tree.Total, Tree.MaxSelf, Tree.BFS, findNode
   for a Tree with one sample type (the only way the service builds one: getTree sets
   SampleTypes = [sampleTypeUnit] and merges with the same string).
   Executable definitions only; proofs are in proofs/ProfTreeProofs.v.
   int64 arithmetic wraps (wrap64). *)
From Coq Require Import List NArith ZArith Bool.
From Qryn Require Import model.Pprof.
Import ListNotations.

(* one element of the `tree` array after the SQL projection on the selected sample type:
   (parent_id, function_id, node_id, self, total) *)
Record row := { r_parent : N; r_fn : N; r_id : N; r_self : Z; r_total : Z }.

(* TreeNodeV2 *)
Record tnode := { t_fn : N; t_id : N; t_self : Z; t_total : Z }.

(* Tree: Nodes map[parentID][]*TreeNodeV2 as an association list (key present iff it has a child:
   MergeTrie only ever appends), NodesNum, maxSelf[0], Names, NamesMap *)
Record mtree := { m_nodes : list (N * list tnode);
                  m_num : Z;
                  m_maxself : Z;
                  m_names : list Z;          (* name tokens: -1 = "total", 0 = "n/a" *)
                  m_namesmap : list (N * Z) }.

(* NewTree() *)
Definition new_tree : mtree :=
  {| m_nodes := []; m_num := 0; m_maxself := 0; m_names := [(-1)%Z; 0%Z]; m_namesmap := [] |}.

Fixpoint children (ns : list (N * list tnode)) (p : N) : list tnode :=
  match ns with
  | [] => []
  | (k, cs) :: r => if N.eqb k p then cs else children r p
  end.

(* findNode + the in-place update of the found child:
   node := children[pos].Clone(); node.Self[i] += self; node.Total[i] += total; children[pos] = node *)
Fixpoint add_existing (cs : list tnode) (r : row) : option (list tnode) :=
  match cs with
  | [] => None
  | c :: cs' =>
      if N.eqb (t_id c) (r_id r)
      then Some ({| t_fn := t_fn c; t_id := t_id c;
                    t_self := wrap64 (t_self c + r_self r); t_total := wrap64 (t_total c + r_total r) |} :: cs')
      else match add_existing cs' r with Some l => Some (c :: l) | None => None end
  end.

Fixpoint set_children (ns : list (N * list tnode)) (p : N) (cs : list tnode) : list (N * list tnode) :=
  match ns with
  | [] => [(p, cs)]
  | (k, old) :: r => if N.eqb k p then (k, cs) :: r else (k, old) :: set_children r p cs
  end.

Definition node_of_row (r : row) : tnode :=
  {| t_fn := r_fn r; t_id := r_id r; t_self := r_self r; t_total := r_total r |}.

(* the loop over the node rows; [limit] is the literal 2_000_000: reaching it RETURNS (the rest of
   the rows is ignored, including rows that would only add to existing nodes) *)
Fixpoint merge_rows (limit : Z) (t : mtree) (rows : list row) : mtree :=
  match rows with
  | [] => t
  | r :: rest =>
      let t1 := {| m_nodes := m_nodes t; m_num := m_num t;
                   m_maxself := if Z.ltb (m_maxself t) (r_self r) then r_self r else m_maxself t;
                   m_names := m_names t; m_namesmap := m_namesmap t |} in
      let cs := children (m_nodes t1) (r_parent r) in
      match add_existing cs r with
      | Some cs' =>
          merge_rows limit {| m_nodes := set_children (m_nodes t1) (r_parent r) cs'; m_num := m_num t1;
                              m_maxself := m_maxself t1; m_names := m_names t1; m_namesmap := m_namesmap t1 |} rest
      | None =>
          if Z.leb limit (m_num t1) then t1
          else merge_rows limit {| m_nodes := set_children (m_nodes t1) (r_parent r) (cs ++ [node_of_row r]);
                                   m_num := m_num t1 + 1;
                                   m_maxself := m_maxself t1; m_names := m_names t1; m_namesmap := m_namesmap t1 |} rest
      end
  end.

Fixpoint assocN {A} (m : list (N * A)) (k : N) : option A :=
  match m with
  | [] => None
  | (i, v) :: r => if N.eqb i k then Some v else assocN r k
  end.

(* the loop over the function rows *)
Fixpoint merge_funcs (limit : Z) (names : list Z) (nm : list (N * Z)) (fs : list (N * Z)) : list Z * list (N * Z) :=
  match fs with
  | [] => (names, nm)
  | (id, name) :: rest =>
      if Z.ltb (Z.of_nat (length nm)) limit then
        match assocN nm id with
        | Some _ => merge_funcs limit names nm rest
        | None => merge_funcs limit (names ++ [name]) (nm ++ [(id, Z.of_nat (length names))]) rest
        end
      else merge_funcs limit names nm rest
  end.

Definition merge_trie (limit : Z) (t : mtree) (rows : list row) (fs : list (N * Z)) : mtree :=
  let '(names, nm) := merge_funcs limit (m_names t) (m_namesmap t) fs in
  merge_rows limit {| m_nodes := m_nodes t; m_num := m_num t; m_maxself := m_maxself t;
                      m_names := names; m_namesmap := nm |} rows.

Definition the_limit : Z := 2000000.

(* Tree.Total()[0] *)
Definition total_of (t : mtree) : Z :=
  fold_left (fun acc c => wrap64 (acc + t_total c)) (children (m_nodes t) 0) 0%Z.

(* ------------------------------------------------------------------ BFS
   One bar of a level.  The Go code emits the four numbers (offset, total, self, name index); the
   node id and the parent's id are carried along in the model so that the nesting theorem can talk
   about "the parent's bar" ([level_values] erases them). The offset is RELATIVE: the gap between the
   end of the previous bar of the same level (or 0) and the start of this one. *)
Record bar := { b_off : Z; b_total : Z; b_self : Z; b_name : Z; b_id : N; b_parent : N }.

Definition bar_values (b : bar) : list Z := [b_off b; b_total b; b_self b; b_name b].
Definition level_values (l : list bar) : list Z := flat_map bar_values l.

Record bstate := { s_prepend : Z;
                   s_pm : list (N * Z);      (* prependMap, latest binding first *)
                   s_reviewed : list N;
                   s_next : list tnode;
                   s_lvl : list bar }.

Definition lookupZ (m : list (N * Z)) (k : N) : Z := match assocN m k with Some v => v | None => 0%Z end.
Definition memN (x : N) (l : list N) : bool := existsb (N.eqb x) l.

(* for _, child := range children { if reviewed[child.NodeID] { return res } ... } *)
Fixpoint visit_children (nm : list (N * Z)) (parent : N) (st : bstate) (cs : list tnode) : option bstate :=
  match cs with
  | [] => Some st
  | c :: cs' =>
      if memN (t_id c) (s_reviewed st) then None
      else visit_children nm parent
             {| s_prepend := 0;
                s_pm := (t_id c, s_prepend st) :: s_pm st;
                s_reviewed := t_id c :: s_reviewed st;
                s_next := s_next st ++ [c];
                s_lvl := s_lvl st ++ [ {| b_off := s_prepend st; b_total := t_total c; b_self := t_self c;
                                          b_name := lookupZ nm (t_fn c); b_id := t_id c; b_parent := parent |} ] |}
             cs'
  end.

Definition with_prepend (st : bstate) (p : Z) : bstate :=
  {| s_prepend := p; s_pm := s_pm st; s_reviewed := s_reviewed st; s_next := s_next st; s_lvl := s_lvl st |}.

(* for _, parent := range currentLevelNodes { ... } *)
Fixpoint visit_parents (t : mtree) (st : bstate) (ps : list tnode) : option bstate :=
  match ps with
  | [] => Some st
  | p :: ps' =>
      let st1 := with_prepend st (wrap64 (s_prepend st + lookupZ (s_pm st) (t_id p))) in
      match children (m_nodes t) (t_id p) with
      | [] => visit_parents t (with_prepend st1 (wrap64 (s_prepend st1 + t_total p))) ps'
      | cs =>
          match visit_children (m_namesmap t) (t_id p) st1 cs with
          | None => None
          | Some st2 => visit_parents t (with_prepend st2 (wrap64 (s_prepend st2 + t_self p))) ps'
          end
      end
  end.

(* for len(currentLevelNodes) > 0 { ... res = append(res, &lvl); currentLevelNodes = nextLevelNodes } *)
Fixpoint bfs_loop (fuel : nat) (t : mtree) (res : list (list bar)) (current : list tnode)
         (pm : list (N * Z)) (reviewed : list N) : list (list bar) :=
  match fuel with
  | O => res
  | S fuel' =>
      match current with
      | [] => res
      | _ =>
          match visit_parents t {| s_prepend := 0; s_pm := pm; s_reviewed := reviewed; s_next := []; s_lvl := [] |} current with
          | None => res
          | Some st => bfs_loop fuel' t (res ++ [s_lvl st]) (s_next st) (s_pm st) (s_reviewed st)
          end
      end
  end.

Definition count_nodes (t : mtree) : nat := fold_right (fun e acc => (length (snd e) + acc)%nat) O (m_nodes t).

Definition bfs (t : mtree) : list (list bar) :=
  let total := total_of t in
  let root := {| t_fn := 0; t_id := 0; t_self := 0; t_total := total |} in
  bfs_loop (count_nodes t + 2) t
           [[ {| b_off := 0; b_total := total; b_self := 0; b_name := 0; b_id := 0; b_parent := 0 |} ]]
           [root] [] [].

(* what Tree.BFS returns *)
Definition bfs_values (t : mtree) : list (list Z) := map level_values (bfs t).

(* ------------------------------------------------------------------ specification side
   rows as a multiset: sums per (parent, id) key *)
Definition key_eqb (r : row) (p i : N) : bool := N.eqb (r_parent r) p && N.eqb (r_id r) i.
Definition sum_self (rows : list row) (p i : N) : Z :=
  sumZ (map (fun r => if key_eqb r p i then r_self r else 0%Z) rows).
Definition sum_total (rows : list row) (p i : N) : Z :=
  sumZ (map (fun r => if key_eqb r p i then r_total r else 0%Z) rows).
Definition has_key (rows : list row) (p i : N) : bool := existsb (fun r => key_eqb r p i) rows.

Fixpoint find_tnode (cs : list tnode) (i : N) : option tnode :=
  match cs with
  | [] => None
  | c :: r => if N.eqb (t_id c) i then Some c else find_tnode r i
  end.
Definition node_at (ns : list (N * list tnode)) (p i : N) : option tnode := find_tnode (children ns p) i.

(* the merged tree as rows again (one row per node) *)
Definition rows_of (ns : list (N * list tnode)) : list row :=
  flat_map (fun e => map (fun c => {| r_parent := fst e; r_fn := t_fn c; r_id := t_id c;
                                       r_self := t_self c; r_total := t_total c |}) (snd e)) ns.

Fixpoint keys_distinct (l : list (N * N)) : bool :=
  match l with
  | [] => true
  | (p, i) :: r => negb (existsb (fun q => N.eqb (fst q) p && N.eqb (snd q) i) r) && keys_distinct r
  end.

(* boolean oracle on an OBSERVED merged tree [ns] for the input rows [rows]:
   every node of the tree carries the wrapped sums of the rows with its key, every key of the rows
   is a node of the tree, no (parent,id) occurs twice *)
(* has_key, sum_self and sum_total of one key in a single pass *)
Definition key_sums (rows : list row) (p i : N) : bool * Z * Z :=
  fold_right (fun r acc => if key_eqb r p i
                           then (true, (snd (fst acc) + r_self r)%Z, (snd acc + r_total r)%Z) else acc)
             (false, 0%Z, 0%Z) rows.
Definition merged_is_sum (rows : list row) (ns : list (N * list tnode)) : bool :=
  let out := rows_of ns in
  keys_distinct (map (fun r => (r_parent r, r_id r)) out) &&
  forallb (fun o => let '(b, s, t) := key_sums rows (r_parent o) (r_id o) in
                    b && Z.eqb (r_self o) (wrap64 s) && Z.eqb (r_total o) (wrap64 t)) out &&
  forallb (fun r => has_key out (r_parent r) (r_id r)) rows.

(* conservation over row multisets (same shape as in Pprof.v, one sample type) *)
Definition rtot_at (rows : list row) (x : N) : Z := sumZ (map (fun r => if N.eqb (r_id r) x then r_total r else 0%Z) rows).
Definition rself_at (rows : list row) (x : N) : Z := sumZ (map (fun r => if N.eqb (r_id r) x then r_self r else 0%Z) rows).
Definition rchild_tot (rows : list row) (x : N) : Z := sumZ (map (fun r => if N.eqb (r_parent r) x then r_total r else 0%Z) rows).

(* ------------------------------------------------------------------ a checkable form of the hypotheses of levels_nest
   on a tree [ns]: parent keys distinct, node ids distinct over the whole tree and non-zero, self and total
   non-negative, exact conservation (no overflow), every parent is the root or a node, root total below 2^63 *)
Definition tree_regular (ns : list (N * list tnode)) : bool :=
  let out := rows_of ns in
  ids_distinct (map fst ns) &&
  ids_distinct (map r_id out) &&
  forallb (fun o => negb (N.eqb (r_id o) 0) && Z.leb 0 (r_self o) && Z.leb 0 (r_total o) &&
                    Z.eqb (r_total o) (r_self o + rchild_tot out (r_id o)) &&
                    (N.eqb (r_parent o) 0 || existsb (fun q => N.eqb (r_id q) (r_parent o)) out)) out &&
  Z.ltb (rchild_tot out 0) two63.

(* projection of a stored row on sample type [k] (None: the profile lacks the selected type; the SQL
   arrayFirst then yields the default tuple, i.e. zeros) -- trusted model of the SQL of PlanMergeTraces *)
Definition project_row (k : option nat) (n : node) : row :=
  let v := match k with Some j => val_at j n | None => (0, 0)%Z end in
  {| r_parent := n_parent n; r_fn := n_fn n; r_id := n_id n; r_self := fst v; r_total := snd v |}.

(* ------------------------------------------------------------------ geometry of levels (oracle)
   absolute intervals from the relative offsets *)
Fixpoint abs_level (cursor : Z) (l : list bar) : list (Z * Z * bar) :=
  match l with
  | [] => []
  | b :: r => let s := (cursor + b_off b)%Z in (s, (s + b_total b)%Z, b) :: abs_level (s + b_total b)%Z r
  end.

Definition inside (x : Z * Z * bar) (ys : list (Z * Z * bar)) : bool :=
  let '(s, e, b) := x in
  existsb (fun y => let '(s', e', b') := y in N.eqb (b_id b') (b_parent b) && Z.leb s' s && Z.leb e e') ys.

Fixpoint levels_nest_b (prev : list (Z * Z * bar)) (ls : list (list bar)) : bool :=
  match ls with
  | [] => true
  | l :: r =>
      let a := abs_level 0 l in
      forallb (fun b => Z.leb 0 (b_off b) && Z.leb 0 (b_total b)) l &&
      forallb (fun x => inside x prev) a &&
      levels_nest_b a r
  end.

(* the same on the four observed numbers only (no ids): every bar lies inside SOME bar of the previous level *)
Fixpoint abs_values (cursor : Z) (l : list Z) : list (Z * Z) :=
  match l with
  | off :: tot :: _ :: _ :: r => let s := (cursor + off)%Z in (s, (s + tot)%Z) :: abs_values (s + tot)%Z r
  | _ => []
  end.
Fixpoint offsets_nonneg (l : list Z) : bool :=
  match l with
  | off :: tot :: _ :: _ :: r => Z.leb 0 off && Z.leb 0 tot && offsets_nonneg r
  | [] => true
  | _ => false
  end.
Fixpoint values_nest_b (prev : list (Z * Z)) (ls : list (list Z)) : bool :=
  match ls with
  | [] => true
  | l :: r =>
      let a := abs_values 0 l in
      offsets_nonneg l &&
      forallb (fun x => existsb (fun y => Z.leb (fst y) (fst x) && Z.leb (snd x) (snd y)) prev) a &&
      values_nest_b a r
  end.
