(* C15 — token/byte model of the hand-written streaming JSON encoders of the reader.

   Layers (executable definitions only; proofs are in proofs/JsonStreamProofs.v):
     json            documents (the specification side)
     token           what the jsoniter Stream API calls emit (WriteObjectStart, WriteObjectField, ...)
     render          tokens -> bytes exactly as jsoniter (ConfigFastest: no indention, no HTML escaping)
     lex / parse     an independent byte-level JSON reader (RFC 8259 lexer + LL(1) parser); this is the
                     specification oracle that is run on the bytes the implementation produced
     tokens_of       canonical serialisation of a document
     enc_*           one function per hand-written encoder, its flag variables transcribed literally
     doc_*           the document each encoder is meant to produce (grouping by contiguous fingerprint)

   Bytes are Coq strings; all byte classification goes through N_of_ascii (never a match on the 8 bits). *)
From Coq Require Import List NArith ZArith Bool Ascii String DecimalString.
From Qryn Require Import model.GoFloat.
Import ListNotations.
Open Scope string_scope.
Open Scope list_scope.

(* ------------------------------------------------------------------------------------------ *)
(* documents and tokens *)

Inductive json :=
| JNull | JBool (b : bool) | JNum (raw : string) | JStr (s : string)
| JArr (l : list json) | JObj (l : list (string * json)).

Inductive token :=
| TObjS | TObjE | TArrS | TArrE | TComma | TColon
| TStr (s : string)      (* a string value or an object key: s is the DECODED content (any bytes) *)
| TStrJ (s : string)     (* a string written by encoding/json.Marshal(s): s is the Go string (any bytes) *)
| TRaw (s : string)      (* a number written with WriteRaw/WriteFloat64/WriteInt64: s is the text *)
| TTrue | TFalse | TNull
| TWs (s : string).      (* insignificant white space of hand-written literal chunks *)

(* ------------------------------------------------------------------------------------------ *)
(* bytes *)

Definition code (c : ascii) : N := N_of_ascii c.
Definition chr (n : N) : ascii := ascii_of_N n.
Definition str1 (n : N) : string := String (chr n) EmptyString.

Definition is_ws (c : ascii) : bool :=
  let n := code c in (n =? 32)%N || (n =? 9)%N || (n =? 10)%N || (n =? 13)%N.
Definition is_digit (c : ascii) : bool := let n := code c in (48 <=? n)%N && (n <=? 57)%N.
(* characters a JSON number can consist of: - + . e E 0-9 *)
Definition is_numch (c : ascii) : bool :=
  let n := code c in is_digit c || (n =? 45)%N || (n =? 43)%N || (n =? 46)%N || (n =? 101)%N || (n =? 69)%N.

Fixpoint all_ws (s : string) : bool :=
  match s with EmptyString => true | String c r => is_ws c && all_ws r end.

(* jsoniter Stream.WriteString with escapeHTML = false (stream_str.go writeStringSlowPath):
   the double quote and the backslash get a backslash, LF CR TAB their short form, other bytes < 0x20 become \u00XY
   (lower-case hex), every other byte -- including all bytes >= 0x80 -- is copied. *)
Definition hexdig (n : N) : ascii := if (n <? 10)%N then chr (48 + n) else chr (87 + n).
Definition esc_char (c : ascii) : string :=
  let n := code c in
  if (n =? 34)%N then String (chr 92) (str1 34)
  else if (n =? 92)%N then String (chr 92) (str1 92)
  else if (n =? 10)%N then String (chr 92) (str1 110)
  else if (n =? 13)%N then String (chr 92) (str1 114)
  else if (n =? 9)%N then String (chr 92) (str1 116)
  else if (n <? 32)%N then
    String (chr 92) (String (chr 117) (String (chr 48) (String (chr 48)
      (String (hexdig (n / 16)) (String (hexdig (n mod 16)) EmptyString)))))
  else String c EmptyString.
Fixpoint quote_body (s : string) : string :=
  match s with EmptyString => EmptyString | String c r => (esc_char c ++ quote_body r)%string end.
Definition quote (s : string) : string := String (chr 34) (quote_body s ++ str1 34)%string.

(* encoding/json (encode.go appendString with escapeHTML = true), as used by json.Marshal(string):
   ASCII: the double quote and the backslash get a backslash, BS FF LF CR TAB their short form, other
   bytes < 0x20 and < > & become \u00XY; a byte that does not start a valid UTF-8 sequence becomes
   \ufffd; U+2028 / U+2029 become \u2028 / \u2029; every other valid sequence is copied. *)
Definition gj_esc (c : ascii) : string :=
  let n := code c in
  if (n =? 34)%N then String (chr 92) (str1 34)
  else if (n =? 92)%N then String (chr 92) (str1 92)
  else if (n =? 8)%N then String (chr 92) (str1 98)
  else if (n =? 12)%N then String (chr 92) (str1 102)
  else if (n =? 10)%N then String (chr 92) (str1 110)
  else if (n =? 13)%N then String (chr 92) (str1 114)
  else if (n =? 9)%N then String (chr 92) (str1 116)
  else if (n <? 32)%N || (n =? 60)%N || (n =? 62)%N || (n =? 38)%N then
    String (chr 92) (String (chr 117) (String (chr 48) (String (chr 48)
      (String (hexdig (n / 16)) (String (hexdig (n mod 16)) EmptyString)))))
  else String c EmptyString.
(* utf8.DecodeRuneInString: which byte sequences are one valid rune *)
Definition is_cont (y : N) : bool := (128 <=? y)%N && (y <=? 191)%N.
Definition utf8_two (x y : N) : bool := (194 <=? x)%N && (x <=? 223)%N && is_cont y.
Definition utf8_three (x y z : N) : bool :=
  (((x =? 224)%N && (160 <=? y)%N && (y <=? 191)%N) ||
   ((((225 <=? x)%N && (x <=? 236)%N) || ((238 <=? x)%N && (x <=? 239)%N)) && is_cont y) ||
   ((x =? 237)%N && (128 <=? y)%N && (y <=? 159)%N)) && is_cont z.
Definition utf8_four (x y z w : N) : bool :=
  (((x =? 240)%N && (144 <=? y)%N && (y <=? 191)%N) ||
   ((241 <=? x)%N && (x <=? 243)%N && is_cont y) ||
   ((x =? 244)%N && (128 <=? y)%N && (y <=? 143)%N)) && is_cont z && is_cont w.
Definition ufffd_esc : string :=
  String (chr 92) (String (chr 117) (String (chr 102) (String (chr 102) (String (chr 102) (str1 100))))).
Definition ufffd_bytes : string := String (chr 239) (String (chr 191) (str1 189)).
Definition u202x_esc (z : N) : string :=
  String (chr 92) (String (chr 117) (String (chr 50) (String (chr 48) (String (chr 50) (String (hexdig (z mod 16)) EmptyString))))).
Definition is_linesep (x y z : N) : bool := (x =? 226)%N && (y =? 128)%N && ((z =? 168)%N || (z =? 169)%N).

(* both at once: (what json.Marshal writes between the quotes, what a JSON reader decodes it to) *)
Fixpoint gj_walk (s : string) : string * string :=
  match s with
  | EmptyString => (EmptyString, EmptyString)
  | String a r =>
    let x := code a in
    let bad := let (e, d) := gj_walk r in ((ufffd_esc ++ e)%string, (ufffd_bytes ++ d)%string) in
    if (x <? 128)%N then let (e, d) := gj_walk r in ((gj_esc a ++ e)%string, String a d)
    else
      match r with
      | String b r2 =>
        let y := code b in
        if utf8_two x y then let (e, d) := gj_walk r2 in (String a (String b e), String a (String b d))
        else
          match r2 with
          | String c r3 =>
            let z := code c in
            if utf8_three x y z then
              let (e, d) := gj_walk r3 in
              ((if is_linesep x y z then (u202x_esc z ++ e)%string else String a (String b (String c e))),
               String a (String b (String c d)))
            else
              match r3 with
              | String g r4 =>
                if utf8_four x y z (code g) then
                  let (e, d) := gj_walk r4 in
                  (String a (String b (String c (String g e))), String a (String b (String c (String g d))))
                else bad
              | EmptyString => bad
              end
          | EmptyString => bad
          end
      | EmptyString => bad
      end
  end.
Definition gojson_body (s : string) : string := fst (gj_walk s).
Definition sanitize (s : string) : string := snd (gj_walk s).
Definition gojson_quote (s : string) : string := String (chr 34) (gojson_body s ++ str1 34)%string.

Definition render_tok (t : token) : string :=
  match t with
  | TObjS => str1 123 | TObjE => str1 125 | TArrS => str1 91 | TArrE => str1 93
  | TComma => str1 44 | TColon => str1 58
  | TStr s => quote s
  | TStrJ s => gojson_quote s
  | TRaw s => s
  | TTrue => "true" | TFalse => "false" | TNull => "null"
  | TWs s => s
  end.
Fixpoint render (ts : list token) : string :=
  match ts with [] => EmptyString | t :: r => (render_tok t ++ render r)%string end.

Definition is_ws_tok (t : token) : bool := match t with TWs _ => true | _ => false end.
Definition strip (ts : list token) : list token := filter (fun t => negb (is_ws_tok t)) ts.
(* what a reader sees: no white space; a json.Marshal-ed string is the string it decodes to *)
Definition norm_tok (t : token) : token := match t with TStrJ s => TStr (sanitize s) | _ => t end.
Definition prep (ts : list token) : list token := map norm_tok (strip ts).

(* ------------------------------------------------------------------------------------------ *)
(* the byte-level reader (specification oracle) *)

Definition hexval (c : ascii) : option N :=
  let n := code c in
  if is_digit c then Some (n - 48)%N
  else if (97 <=? n)%N && (n <=? 102)%N then Some (n - 87)%N
  else if (65 <=? n)%N && (n <=? 70)%N then Some (n - 55)%N
  else None.
Definition hex4 (a b c d : ascii) : option N :=
  match hexval a, hexval b, hexval c, hexval d with
  | Some x, Some y, Some z, Some w => Some (((x * 16 + y) * 16 + z) * 16 + w)%N
  | _, _, _, _ => None
  end.
(* UTF-8 encoding of a code point (surrogates never reach this function) *)
Definition utf8_enc (cp : N) : string :=
  if (cp <? 128)%N then str1 cp
  else if (cp <? 2048)%N then String (chr (192 + cp / 64)) (str1 (128 + cp mod 64))
  else if (cp <? 65536)%N then
    String (chr (224 + cp / 4096)) (String (chr (128 + (cp / 64) mod 64)) (str1 (128 + cp mod 64)))
  else String (chr (240 + cp / 262144)) (String (chr (128 + (cp / 4096) mod 64))
         (String (chr (128 + (cp / 64) mod 64)) (str1 (128 + cp mod 64)))).
Definition is_hi_sur (cp : N) : bool := (55296 <=? cp)%N && (cp <? 56320)%N.
Definition is_lo_sur (cp : N) : bool := (56320 <=? cp)%N && (cp <? 57344)%N.

Definition push (c : string) (r : option (string * string)) : option (string * string) :=
  match r with Some (x, rest) => Some ((c ++ x)%string, rest) | None => None end.

(* body of a string literal, after the opening quote: decoded bytes and the text after the closing
   quote. Strict: raw control bytes and unknown escapes are rejected. A lone surrogate escape decodes
   to U+FFFD (as every mainstream decoder does); a surrogate pair to the 4-byte sequence. *)
Fixpoint lex_str (s : string) : option (string * string) :=
  match s with
  | EmptyString => None
  | String c r =>
    let n := code c in
    if (n =? 34)%N then Some (EmptyString, r)
    else if (n =? 92)%N then
      match r with
      | EmptyString => None
      | String e r1 =>
        let m := code e in
        if (m =? 34)%N || (m =? 92)%N || (m =? 47)%N then push (String e EmptyString) (lex_str r1)
        else if (m =? 98)%N then push (str1 8) (lex_str r1)
        else if (m =? 102)%N then push (str1 12) (lex_str r1)
        else if (m =? 110)%N then push (str1 10) (lex_str r1)
        else if (m =? 114)%N then push (str1 13) (lex_str r1)
        else if (m =? 116)%N then push (str1 9) (lex_str r1)
        else if (m =? 117)%N then
          match r1 with
          | String h1 (String h2 (String h3 (String h4 r2))) =>
            match hex4 h1 h2 h3 h4 with
            | None => None
            | Some cp =>
              if is_hi_sur cp then
                match r2 with
                | String b (String u r2') =>
                  if (code b =? 92)%N && (code u =? 117)%N then
                    match r2' with
                    | String g1 (String g2 (String g3 (String g4 r3))) =>
                      match hex4 g1 g2 g3 g4 with
                      | Some lo =>
                        if is_lo_sur lo
                        then push (utf8_enc (65536 + (cp - 55296) * 1024 + (lo - 56320))) (lex_str r3)
                        else push (utf8_enc 65533) (lex_str r2)
                      | None => None
                      end
                    | _ => None        (* a truncated \u escape: no reading of r2 succeeds either *)
                    end
                  else push (utf8_enc 65533) (lex_str r2)
                | _ => push (utf8_enc 65533) (lex_str r2)
                end
              else if is_lo_sur cp then push (utf8_enc 65533) (lex_str r2)
              else push (utf8_enc cp) (lex_str r2)
            end
          | _ => None
          end
        else None
      end
    else if (n <? 32)%N then None
    else push (String c EmptyString) (lex_str r)
  end.

(* longest prefix made of number characters *)
Fixpoint span_num (s : string) : string * string :=
  match s with
  | EmptyString => (EmptyString, EmptyString)
  | String c r => if is_numch c then let (a, b) := span_num r in (String c a, b) else (EmptyString, s)
  end.

(* RFC 8259 number grammar  -? (0 | [1-9][0-9]* ) (. [0-9]+)? ([eE] [+-]? [0-9]+)?  as an automaton *)
Inductive nst := N0 | NMinus | NZero | NInt | NDot | NFrac | NE | NESign | NExp | NDead.
Definition nstep (st : nst) (c : ascii) : nst :=
  let n := code c in
  let d := is_digit c in
  match st with
  | N0 => if (n =? 45)%N then NMinus else if (n =? 48)%N then NZero else if d then NInt else NDead
  | NMinus => if (n =? 48)%N then NZero else if d then NInt else NDead
  | NZero => if (n =? 46)%N then NDot else if (n =? 101)%N || (n =? 69)%N then NE else NDead
  | NInt => if d then NInt else if (n =? 46)%N then NDot else if (n =? 101)%N || (n =? 69)%N then NE else NDead
  | NDot => if d then NFrac else NDead
  | NFrac => if d then NFrac else if (n =? 101)%N || (n =? 69)%N then NE else NDead
  | NE => if d then NExp else if (n =? 43)%N || (n =? 45)%N then NESign else NDead
  | NESign => if d then NExp else NDead
  | NExp => if d then NExp else NDead
  | NDead => NDead
  end.
Fixpoint nrun (st : nst) (s : string) : nst :=
  match s with EmptyString => st | String c r => nrun (nstep st c) r end.
Definition num_ok (s : string) : bool :=
  match nrun N0 s with NZero | NInt | NFrac | NExp => true | _ => false end.

Fixpoint strip_prefix (p s : string) : option string :=
  match p with
  | EmptyString => Some s
  | String a p' => match s with
                   | String b s' => if Ascii.eqb a b then strip_prefix p' s' else None
                   | EmptyString => None
                   end
  end.

Definition tcons (t : token) (r : option (list token)) : option (list token) :=
  match r with Some l => Some (t :: l) | None => None end.

(* the lexer; fuel: one unit per token or white-space byte (lex_bytes gives length + 1) *)
Fixpoint lex (f : nat) (s : string) : option (list token) :=
  match f with
  | O => None
  | S f =>
    match s with
    | EmptyString => Some []
    | String c r =>
      let n := code c in
      if is_ws c then lex f r
      else if (n =? 123)%N then tcons TObjS (lex f r)
      else if (n =? 125)%N then tcons TObjE (lex f r)
      else if (n =? 91)%N then tcons TArrS (lex f r)
      else if (n =? 93)%N then tcons TArrE (lex f r)
      else if (n =? 44)%N then tcons TComma (lex f r)
      else if (n =? 58)%N then tcons TColon (lex f r)
      else if (n =? 34)%N then
        match lex_str r with Some (x, r') => tcons (TStr x) (lex f r') | None => None end
      else if is_numch c then
        let (a, b) := span_num s in if num_ok a then tcons (TRaw a) (lex f b) else None
      else match strip_prefix "true" s with
           | Some r' => tcons TTrue (lex f r')
           | None =>
             match strip_prefix "false" s with
             | Some r' => tcons TFalse (lex f r')
             | None => match strip_prefix "null" s with
                       | Some r' => tcons TNull (lex f r')
                       | None => None
                       end
             end
           end
    end
  end.
Definition lex_bytes (s : string) : option (list token) := lex (S (String.length s)) s.

(* LL(1) parser over tokens (white-space tokens removed first); fuel bounds the call depth *)
Fixpoint parse_val (n : nat) (ts : list token) {struct n} : option (json * list token) :=
  match n with
  | O => None
  | S n =>
    match ts with
    | TStr s :: r => Some (JStr s, r)
    | TRaw s :: r => Some (JNum s, r)
    | TTrue :: r => Some (JBool true, r)
    | TFalse :: r => Some (JBool false, r)
    | TNull :: r => Some (JNull, r)
    | TArrS :: r =>
      match r with
      | TArrE :: r' => Some (JArr [], r')
      | _ => match parse_elems n r with Some (l, r') => Some (JArr l, r') | None => None end
      end
    | TObjS :: r =>
      match r with
      | TObjE :: r' => Some (JObj [], r')
      | _ => match parse_members n r with Some (l, r') => Some (JObj l, r') | None => None end
      end
    | _ => None
    end
  end
with parse_elems (n : nat) (ts : list token) {struct n} : option (list json * list token) :=
  match n with
  | O => None
  | S n =>
    match parse_val n ts with
    | Some (v, TComma :: r) =>
      match parse_elems n r with Some (l, r') => Some (v :: l, r') | None => None end
    | Some (v, TArrE :: r) => Some ([v], r)
    | _ => None
    end
  end
with parse_members (n : nat) (ts : list token) {struct n} : option (list (string * json) * list token) :=
  match n with
  | O => None
  | S n =>
    match ts with
    | TStr k :: TColon :: r =>
      match parse_val n r with
      | Some (v, TComma :: r') =>
        match parse_members n r' with Some (l, r'') => Some ((k, v) :: l, r'') | None => None end
      | Some (v, TObjE :: r') => Some ([(k, v)], r')
      | _ => None
      end
    | _ => None
    end
  end.

Definition parse (ts : list token) : option json :=
  let ts' := prep ts in
  match parse_val (S (List.length ts')) ts' with Some (d, []) => Some d | _ => None end.

Definition parse_bytes (s : string) : option json :=
  match lex_bytes s with Some ts => parse ts | None => None end.

(* ------------------------------------------------------------------------------------------ *)
(* canonical serialisation *)

Fixpoint join (xs : list (list token)) : list token :=
  match xs with
  | [] => []
  | x :: r => x ++ match r with [] => [] | _ => TComma :: join r end
  end.

Fixpoint tokens_of (d : json) : list token :=
  match d with
  | JNull => [TNull]
  | JBool true => [TTrue]
  | JBool false => [TFalse]
  | JNum s => [TRaw s]
  | JStr s => [TStr s]
  | JArr l => TArrS :: join (map tokens_of l) ++ [TArrE]
  | JObj l => TObjS :: join (map (fun kv => TStr (fst kv) :: TColon :: tokens_of (snd kv)) l) ++ [TObjE]
  end.

(* every number of the document is a JSON number *)
Fixpoint nums_ok (d : json) : bool :=
  match d with
  | JNum s => num_ok s
  | JArr l => forallb nums_ok l
  | JObj l => forallb (fun kv => nums_ok (snd kv)) l
  | _ => true
  end.

(* ------------------------------------------------------------------------------------------ *)
(* the jsoniter Stream API, as token emitters *)

Definition wObjectStart : list token := [TObjS].
Definition wObjectEnd : list token := [TObjE].
Definition wArrayStart : list token := [TArrS].
Definition wArrayEnd : list token := [TArrE].
Definition wMore : list token := [TComma].
Definition wObjectField (s : string) : list token := [TStr s; TColon].
Definition wString (s : string) : list token := [TStr s].
Definition wRaw (s : string) : list token := [TRaw s].

(* ------------------------------------------------------------------------------------------ *)
(* result rows (shared.LogEntry) *)

Inductive errk := ENone | EEOF | EFail.
Record entry := {
  e_fp : N;                           (* Fingerprint uint64 *)
  e_lbls : list (string * string);    (* Labels, in the order the Go map iteration delivered them *)
  e_ts : Z;                           (* TimestampNS int64 *)
  e_msg : string;                     (* Message *)
  e_tsf : string;                     (* fmt.Sprintf("%f", float64(TimestampNS)/1e9): text supplied by the float printer *)
  e_val : string;                     (* FormatFloat(Value,'f',-1,64) after the TrimSuffix calls: idem *)
  e_err : errk
}.

(* fmt.Sprintf("%d", int64) *)
Definition fmt_d (z : Z) : string := NilZero.string_of_int (Z.to_int z).

(* writeMap(stream, m) *)
Fixpoint write_map_loop (l : list (string * string)) (i : bool) : list token :=
  match l with
  | [] => []
  | (k, v) :: r => (if i then wMore else []) ++ wObjectField k ++ wString v ++ write_map_loop r true
  end.
Definition write_map (l : list (string * string)) : list token :=
  wObjectStart ++ write_map_loop l false ++ wObjectEnd.

(* the common opening chunk  {"status":"success","data":{"resultType":<t>,"result":[  *)
Definition open_response (rtype : string) : list token :=
  wObjectStart ++ wObjectField "status" ++ wString "success" ++ wMore ++
  wObjectField "data" ++ wObjectStart ++ wObjectField "resultType" ++ wString rtype ++ wMore ++
  wObjectField "result" ++ wArrayStart.
Definition close_response : list token := wArrayEnd ++ wObjectEnd ++ wObjectEnd.

(* loop variables of the three stream/matrix writers: lastFp, i (as "i > 0"), j (as "j > 0") *)
Record lstate := { lastFp : N; li : bool; lj : bool }.
Definition lstate0 : lstate := {| lastFp := 0; li := false; lj := false |}.

Inductive flow := Go (s : lstate) | BreakBatch (s : lstate) | Return.

Definition log_value (e : entry) : list token :=
  wArrayStart ++ wString (fmt_d (e_ts e)) ++ wMore ++ wString (e_msg e) ++ wArrayEnd.
Definition matrix_value (e : entry) : list token :=
  wArrayStart ++ wRaw (e_tsf e) ++ wMore ++ wString (e_val e) ++ wArrayEnd.

(* which test opens a new stream object *)
Inductive hdr_test := HdrFpOnly     (* if lastFp != e.Fingerprint          (exportStreamsValue, Tail before the fix) *)
                    | HdrFirstOrFp. (* if i == 0 || lastFp != e.Fingerprint *)
Definition hdr_fires (h : hdr_test) (s : lstate) (e : entry) : bool :=
  match h with
  | HdrFpOnly => negb (N.eqb (lastFp s) (e_fp e))
  | HdrFirstOrFp => negb (li s) || negb (N.eqb (lastFp s) (e_fp e))
  end.

(* body of the inner loop for one entry, after the error tests *)
Definition emit_entry (h : hdr_test) (key : string) (value : entry -> list token)
           (s : lstate) (e : entry) : list token * lstate :=
  if hdr_fires h s e then
    ((if li s then wArrayEnd ++ wObjectEnd ++ wMore else []) ++
     wObjectStart ++ wObjectField key ++ write_map (e_lbls e) ++ wMore ++ wObjectField "values" ++ wArrayStart ++
     value e,
     {| lastFp := e_fp e; li := true; lj := true |})
  else
    ((if lj s then wMore else []) ++ value e, {| lastFp := lastFp s; li := li s; lj := true |}).

(* how the loop treats an io.EOF entry *)
Inductive eof_mode := EofContinue (* exportStreamsValue, Tail *) | EofBreak (* matrix writer *).

Definition step_entry (h : hdr_test) (m : eof_mode) (key : string) (value : entry -> list token)
           (s : lstate) (e : entry) : list token * flow :=
  match e_err e with
  | EFail => ([], Return)                        (* onErr (see writer) and return *)
  | EEOF => ([], match m with EofContinue => Go s | EofBreak => BreakBatch s end)
  | ENone => let (o, s') := emit_entry h key value s e in (o, Go s')
  end.

(* for _, e := range entries *)
Fixpoint run_batch (h : hdr_test) (m : eof_mode) (key : string) (value : entry -> list token)
         (s : lstate) (es : list entry) : list token * option lstate :=
  match es with
  | [] => ([], Some s)
  | e :: r =>
    match step_entry h m key value s e with
    | (o, Go s') => let (o', x) := run_batch h m key value s' r in (o ++ o', x)
    | (o, BreakBatch s') => (o, Some s')
    | (o, Return) => (o, None)
    end
  end.
(* for entries := range out *)
Fixpoint run_batches (h : hdr_test) (m : eof_mode) (key : string) (value : entry -> list token)
         (s : lstate) (bs : list (list entry)) : list token * option lstate :=
  match bs with
  | [] => ([], Some s)
  | b :: r =>
    match run_batch h m key value s b with
    | (o, Some s') => let (o', x) := run_batches h m key value s' r in (o ++ o', x)
    | (o, None) => (o, None)
    end
  end.

(* buffered: Tail builds the whole frame in one buffer and sends it at the end, so nothing of it is
   sent when an error entry makes the goroutine return; the other two send chunk by chunk *)
Definition writer (h : hdr_test) (m : eof_mode) (buffered : bool) (key : string) (value : entry -> list token)
           (pre post : list token) (bs : list (list entry)) : list token :=
  match run_batches h m key value lstate0 bs with
  | (o, Some s) => pre ++ o ++ (if li s then wArrayEnd ++ wObjectEnd else []) ++ post
  | (o, None) => (if buffered then [] else pre ++ o) ++ [TArrE; TObjE; TObjE]   (* onErr sends "]}}" *)
  end.

(* QueryRangeService.exportStreamsValue *)
Definition enc_streams (h : hdr_test) (bs : list (list entry)) : list token :=
  writer h EofContinue false "stream" log_value (open_response "streams") close_response bs.
(* the matrix branch of QueryRangeService.QueryRange *)
Definition enc_matrix (bs : list (list entry)) : list token :=
  writer HdrFirstOrFp EofBreak false "metric" matrix_value (open_response "matrix") close_response bs.
(* one frame of QueryRangeService.Tail *)
Definition enc_tail (h : hdr_test) (bs : list (list entry)) : list token :=
  writer h EofContinue true "stream" log_value
         (wObjectStart ++ wObjectField "streams" ++ wArrayStart) (wArrayEnd ++ wObjectEnd) bs.

(* ------------------------------------------------------------------------------------------ *)
(* list endpoints: for x := range ch { if i != 0 { write "," }; write item; i++ } *)
Fixpoint list_loop (item : string -> list token) (xs : list string) (i : bool) : list token :=
  match xs with
  | [] => []
  | x :: r => (if i then [TComma] else []) ++ item x ++ list_loop item r true
  end.
Definition sp : token := TWs " ".
(* TempoController.Tags / Values (after fix #24: json.Marshal of every tag) *)
Definition enc_tempo_list (key : string) (xs : list string) : list token :=
  [TObjS; TStr key; TColon; sp; TArrS] ++ list_loop (fun x => [TStrJ x]) xs false ++ [TArrE; TObjE].
Definition enc_tempo_tags := enc_tempo_list "tagNames".
Definition enc_tempo_values := enc_tempo_list "tagValues".
(* QueryLabelsService.GenericLabelReq (labels, label values) *)
Definition enc_labels (xs : list string) : list token :=
  [TObjS; TStr "status"; TColon; sp; TStr "success"; TComma; TStr "data"; TColon; sp; TArrS] ++
  list_loop (fun x => [TStrJ x]) xs false ++ [TArrE; TObjE].
(* QueryLabelsService.Series splices the stored label documents verbatim: modelled on bytes *)
Fixpoint bytes_loop (xs : list string) (i : bool) : string :=
  match xs with
  | [] => EmptyString
  | x :: r => ((if i then "," else "") ++ x ++ bytes_loop r true)%string
  end.
Definition enc_series_bytes (xs : list string) : string :=
  ("{""status"":""success"", ""data"":[" ++ bytes_loop xs false ++ "]}")%string.

(* QueryLabelsService.Series after the repair: every stored text is decoded (storedLabels: encoding/json, or
   strconv.Unquote for rows written with Go escapes; a text that is neither is skipped) and the map is encoded
   again with json.Marshal (keys sorted). The model starts at the decoded maps. *)
Fixpoint sep_loop' {A : Type} (item : A -> list token) (xs : list A) (i : bool) : list token :=
  match xs with
  | [] => []
  | x :: r => (if i then [TComma] else []) ++ item x ++ sep_loop' item r true
  end.
Definition label_obj (l : list (string * string)) : list token :=
  [TObjS] ++ sep_loop' (fun kv => [TStrJ (fst kv); TColon; TStrJ (snd kv)]) l false ++ [TObjE].
Definition enc_series (ms : list (list (string * string))) : list token :=
  [TObjS; TStr "status"; TColon; TStr "success"; TComma; sp; TStr "data"; TColon; TArrS] ++
  sep_loop' label_obj ms false ++ [TArrE; TObjE].
Definition label_obj_doc (l : list (string * string)) : json :=
  JObj (map (fun kv => (sanitize (fst kv), JStr (sanitize (snd kv)))) l).
Definition doc_series (ms : list (list (string * string))) : json :=
  JObj [("status", JStr "success"); ("data", JArr (map label_obj_doc ms))].

(* TempoController.Trace (JSON branch) and Search splice what json.Marshal produced for every span /
   trace between hand-written chunks; the Trace header is a raw string literal with line breaks *)
Definition nl3 : string := String (chr 10) (String (chr 9) (String (chr 9) (String (chr 9) EmptyString))).
Definition trace_hdr : string :=
  ("{""resourceSpans"": [{ " ++ nl3 ++
   """resource"":{""attributes"":[{""key"":""collector"",""value"":{""stringValue"":""qryn""}}]}, " ++ nl3 ++
   """instrumentationLibrarySpans"": [{ ""spans"": [")%string.
Definition enc_trace_bytes (xs : list string) : string :=
  (trace_hdr ++ bytes_loop xs false ++ "]}]}]}")%string.
Definition enc_search_bytes (xs : list string) : string :=
  ("{""traces"": [" ++ bytes_loop xs false ++ "]}")%string.
Definition doc_series_of (ds : list json) : json := JObj [("status", JStr "success"); ("data", JArr ds)].
Definition doc_trace_of (ds : list json) : json :=
  JObj [("resourceSpans", JArr [JObj [
    ("resource", JObj [("attributes", JArr [JObj [("key", JStr "collector"); ("value", JObj [("stringValue", JStr "qryn")])]])]);
    ("instrumentationLibrarySpans", JArr [JObj [("spans", JArr ds)]])]])].
Definition doc_search_of (ds : list json) : json := JObj [("traces", JArr ds)].

Definition doc_tempo_list (key : string) (xs : list string) : json :=
  JObj [(key, JArr (map (fun x => JStr (sanitize x)) xs))].
Definition doc_labels (xs : list string) : json :=
  JObj [("status", JStr "success"); ("data", JArr (map (fun x => JStr (sanitize x)) xs))].

(* ------------------------------------------------------------------------------------------ *)
(* the intended documents *)

(* contiguous runs of equal fingerprint: (first entry of the run, the others) *)
Fixpoint group (es : list entry) : list (entry * list entry) :=
  match es with
  | [] => []
  | e :: r =>
    match group r with
    | (h, m) :: g => if N.eqb (e_fp e) (e_fp h) then (e, h :: m) :: g else (e, []) :: (h, m) :: g
    | [] => [(e, [])]
    end
  end.

Definition labels_doc (l : list (string * string)) : json :=
  JObj (map (fun kv => (fst kv, JStr (snd kv))) l).
Definition log_value_doc (e : entry) : json := JArr [JStr (fmt_d (e_ts e)); JStr (e_msg e)].
Definition matrix_value_doc (e : entry) : json := JArr [JNum (e_tsf e); JStr (e_val e)].
Definition series_doc (key : string) (vd : entry -> json) (g : entry * list entry) : json :=
  JObj [(key, labels_doc (e_lbls (fst g))); ("values", JArr (map vd (fst g :: snd g)))].
Definition response_doc (rtype : string) (result : list json) : json :=
  JObj [("status", JStr "success"); ("data", JObj [("resultType", JStr rtype); ("result", JArr result)])].

(* ------------------------------------------------------------------------------------------ *)
(* Prometheus responses (promQueryRangeController.go writeResponse -> writeMatrix / writeVector /
   writeScalar) and PromError. Label sets are slices here (labels.Labels), so their order is fixed.
   ps_t is the text of WriteFloat64(float64(T)/1000) (scalar: fmt %f), ps_v the text of
   FormatFloat(V,'f',-1,64) (scalar: fmt %f). *)
Record psample := { ps_t : string; ps_v : string }.
Record pseries := { pr_lbls : list (string * string); pr_pts : list psample }.

(* for i, x := range xs { if i > 0 { write "," }; item x } *)
Fixpoint sep_loop {A : Type} (item : A -> list token) (xs : list A) (i : bool) : list token :=
  match xs with
  | [] => []
  | x :: r => (if i then [TComma] else []) ++ item x ++ sep_loop item r true
  end.
Definition prom_point (p : psample) : list token :=
  wArrayStart ++ wRaw (ps_t p) ++ wMore ++ wString (ps_v p) ++ wArrayEnd.
Definition prom_series (s : pseries) : list token :=
  wObjectStart ++ wObjectField "metric" ++ write_map (pr_lbls s) ++ wMore ++
  wObjectField "values" ++ wArrayStart ++ sep_loop prom_point (pr_pts s) false ++ wArrayEnd ++ wObjectEnd.
(* a vector sample: the series carries exactly its one point *)
Definition prom_sample (s : pseries) : list token :=
  wObjectStart ++ wObjectField "metric" ++ write_map (pr_lbls s) ++ wMore ++
  wObjectField "value" ++ match pr_pts s with p :: _ => prom_point p | [] => wArrayStart ++ wArrayEnd end ++ wObjectEnd.
Definition enc_prom_matrix (ss : list pseries) : list token :=
  open_response "matrix" ++ sep_loop prom_series ss false ++ close_response.
Definition enc_prom_vector (ss : list pseries) : list token :=
  open_response "vector" ++ sep_loop prom_sample ss false ++ close_response.
Definition enc_prom_scalar (p : psample) : list token :=
  open_response "scalar" ++ [TRaw (ps_t p); TComma; TWs " "; TStr (ps_v p)] ++ close_response.
Definition enc_prom_error (msg : string) : list token :=
  wObjectStart ++ wObjectField "status" ++ wString "error" ++ wMore ++ wObjectField "errorType" ++ wString "error" ++
  wMore ++ wObjectField "error" ++ wString msg ++ wObjectEnd.

Definition point_doc (p : psample) : json := JArr [JNum (ps_t p); JStr (ps_v p)].
Definition prom_series_doc (s : pseries) : json :=
  JObj [("metric", labels_doc (pr_lbls s)); ("values", JArr (map point_doc (pr_pts s)))].
Definition prom_sample_doc (s : pseries) : json :=
  JObj [("metric", labels_doc (pr_lbls s)); ("value", match pr_pts s with p :: _ => point_doc p | [] => JArr [] end)].
Definition doc_prom_matrix (ss : list pseries) : json := response_doc "matrix" (map prom_series_doc ss).
Definition doc_prom_vector (ss : list pseries) : json := response_doc "vector" (map prom_sample_doc ss).
Definition doc_prom_scalar (p : psample) : json := response_doc "scalar" [JNum (ps_t p); JStr (ps_v p)].
Definition doc_prom_error (msg : string) : json :=
  JObj [("status", JStr "error"); ("errorType", JStr "error"); ("error", JStr msg)].
Definition series_nums_ok (ss : list pseries) : bool :=
  forallb (fun s => forallb (fun p => num_ok (ps_t p)) (pr_pts s)) ss.


Definition is_live (e : entry) : bool := match e_err e with ENone => true | _ => false end.
Definition no_fail (e : entry) : bool := match e_err e with EFail => false | _ => true end.
(* what a batch contributes: everything that is not EOF (continue) / everything before the first EOF (break) *)
Fixpoint until_eof (es : list entry) : list entry :=
  match es with [] => [] | e :: r => if is_live e then e :: until_eof r else [] end.
Definition rows_streams (bs : list (list entry)) : list entry := filter is_live (List.concat bs).
Definition rows_matrix (bs : list (list entry)) : list entry := List.concat (map until_eof bs).

(* ------------------------------------------------------------------------------------------ *)
(* QueryInstant, vector branch: lastValues map[fingerprint]entry keeps, per fingerprint, the entry with
   the greatest timestamp (the first one on ties); then one object per map entry, in map order.
   The map is an association list in first-seen order; [order] is the iteration order the runtime chose.
   e_tsf carries the text of WriteInt64(TimestampNS / 1000000000) for this encoder. *)
Fixpoint upd_last (m : list entry) (e : entry) : list entry :=
  match m with
  | [] => [e]
  | x :: r => if N.eqb (e_fp x) (e_fp e) then (if Z.ltb (e_ts x) (e_ts e) then e else x) :: r
              else x :: upd_last r e
  end.
Definition last_values (es : list entry) : list entry := fold_left upd_last es [].
Definition find_fp (f : N) (m : list entry) : option entry := find (fun e => N.eqb (e_fp e) f) m.
Fixpoint pick (order : list N) (m : list entry) : list entry :=
  match order with
  | [] => []
  | f :: r => match find_fp f m with Some e => e :: pick r m | None => pick r m end
  end.
(* does the loop reach an entry with a real error (an EOF entry ends its batch first) *)
Fixpoint batch_fails (es : list entry) : bool :=
  match es with
  | [] => false
  | e :: r => match e_err e with EFail => true | EEOF => false | ENone => batch_fails r end
  end.
Definition vector_obj (e : entry) : list token :=
  wObjectStart ++ wObjectField "metric" ++ write_map (e_lbls e) ++ wMore ++
  wObjectField "value" ++ wArrayStart ++ wRaw (e_tsf e) ++ wMore ++ wString (e_val e) ++ wArrayEnd ++ wObjectEnd.
Fixpoint vector_loop (es : list entry) (i : bool) : list token :=
  match es with
  | [] => []
  | e :: r => (if i then wMore else []) ++ vector_obj e ++ vector_loop r true
  end.
Definition enc_vector (order : list N) (bs : list (list entry)) : list token :=
  if existsb batch_fails bs then open_response "vector" ++ [TArrE; TObjE; TObjE]   (* onErr before anything else was sent *)
  else open_response "vector" ++
       vector_loop (pick order (last_values (List.concat (map until_eof bs)))) false ++ close_response.


Definition doc_streams (bs : list (list entry)) : json :=
  response_doc "streams" (map (series_doc "stream" log_value_doc) (group (rows_streams bs))).
Definition doc_matrix (bs : list (list entry)) : json :=
  response_doc "matrix" (map (series_doc "metric" matrix_value_doc) (group (rows_matrix bs))).
Definition doc_tail (bs : list (list entry)) : json :=
  JObj [("streams", JArr (map (series_doc "stream" log_value_doc) (group (rows_streams bs))))].

Definition vector_doc (e : entry) : json :=
  JObj [("metric", labels_doc (e_lbls e)); ("value", JArr [JNum (e_tsf e); JStr (e_val e)])].
Definition doc_vector (order : list N) (bs : list (list entry)) : json :=
  response_doc "vector" (map vector_doc (pick order (last_values (rows_matrix bs)))).
(* [order] names every fingerprint of the map exactly once *)
Fixpoint nodupb (l : list N) : bool :=
  match l with [] => true | x :: r => negb (existsb (N.eqb x) r) && nodupb r end.
Definition is_perm_of (order keys : list N) : bool :=
  Nat.eqb (List.length order) (List.length keys) && nodupb order &&
  forallb (fun k => existsb (N.eqb k) order) keys.

(* reading the rows back out of a streams/matrix document: (labels, value) pairs in document order *)
Definition rows_of_series (d : json) : list (json * json) :=
  match d with
  | JObj [(_, lbls); (_, JArr vals)] => map (fun v => (lbls, v)) vals
  | _ => []
  end.
Definition rows_of_result (l : list json) : list (json * json) := flat_map rows_of_series l.
Definition row_doc (vd : entry -> json) (e : entry) : json * json := (labels_doc (e_lbls e), vd e).

(* ------------------------------------------------------------------------------------------ *)
(* encoding/json.Marshal of the response structs of the tempo endpoints, as a field walk.
   A Go value is written as a [json] tree whose strings are the Go strings (any bytes) and whose numbers are the
   texts the encoder prints: [tokensJ_of] is what json.Marshal emits for it (names and strings through appendString
   with HTML escaping: TStrJ), [sanitize_doc] what a reader decodes (invalid UTF-8 replaced by U+FFFD).
   The walks [*_val] transcribe the struct declarations of reader/model (field order, json names, omitempty,
   nil slice = null, nil pointer with omitempty = absent). *)
Fixpoint tokensJ_of (d : json) : list token :=
  match d with
  | JNull => [TNull]
  | JBool true => [TTrue]
  | JBool false => [TFalse]
  | JNum s => [TRaw s]
  | JStr s => [TStrJ s]
  | JArr l => TArrS :: join (map tokensJ_of l) ++ [TArrE]
  | JObj l => TObjS :: join (map (fun kv => TStrJ (fst kv) :: TColon :: tokensJ_of (snd kv)) l) ++ [TObjE]
  end.
Fixpoint sanitize_doc (d : json) : json :=
  match d with
  | JStr s => JStr (sanitize s)
  | JArr l => JArr (map sanitize_doc l)
  | JObj l => JObj (map (fun kv => (sanitize (fst kv), sanitize_doc (snd kv))) l)
  | _ => d
  end.

(* encoding/json floatEncoder (bits 64): 'f' layout, 'e' below 1e-6 and from 1e21 with the exponent e-09 cleaned
   up to e-9; json.Marshal fails on NaN and infinities (UnsupportedValueError): no text *)
Definition gojson_exp_digits (x : Z) : string :=
  if ((x <? 0) && (Z.abs x <? 10))%Z then digits (Z.abs x) else exp_digits x.
Definition gojson_exp_text (neg : bool) (D P : Z) : string :=
  let ds := digits D in
  let x := (P + Z.of_nat (String.length ds) - 1)%Z in
  let esign := ascii_of_N (if (x <? 0)%Z then 45%N else 43%N) in
  (sign_text neg ++ mant_text ds ++ String (ascii_of_N 101) (String esign (gojson_exp_digits x)))%string.
Definition gojson_float_text (x : fl) : string :=
  match x with
  | FZero neg => fixed_text neg 0 0
  | FFin neg m e =>
    let (D, P) := shortest m e in
    if lt_1e_6 m e || ge_1e21 m e then gojson_exp_text neg D P else fixed_of_dec neg D P
  | _ => EmptyString
  end.

Definition jint (z : Z) : json := JNum (int_text z).
Definition jfloat (bits : N) : json := JNum (gojson_float_text (fl_of_bits bits)).
(* a slice: nil is null *)
Definition jslice {A : Type} (f : A -> json) (l : option (list A)) : json :=
  match l with Some xs => JArr (map f xs) | None => JNull end.
(* drop the members omitempty removes *)
Definition omit (l : list (string * option json)) : list (string * json) :=
  flat_map (fun kv => match snd kv with Some v => [(fst kv, v)] | None => [] end) l.
Definition keep (v : json) : option json := Some v.
Definition nonempty_str (s : string) : option json := match s with EmptyString => None | _ => Some (JStr s) end.
Definition nonzero_int (z : Z) : option json := if (z =? 0)%Z then None else Some (jint z).

(* model.TraceResponse (Search with tags) *)
Record trace_response := { tr_id : string; tr_svc : string; tr_name : string; tr_start : Z; tr_dur : Z }.
Definition trace_response_val (t : trace_response) : json :=
  JObj [("traceID", JStr (tr_id t)); ("rootServiceName", JStr (tr_svc t)); ("rootTraceName", JStr (tr_name t));
        ("startTimeUnixNano", jint (tr_start t)); ("durationMs", jint (tr_dur t))].

(* model.TraceInfo / SpanSet / SpanInfo / SpanAttr (Search with a TraceQL query) *)
Record span_attr := { sa_key : string; sa_val : string }.
Record span_info := { si_id : string; si_start : string; si_dur : string; si_attrs : option (list span_attr) }.
Record span_set := { ss_spans : option (list span_info); ss_matched : Z }.
Record trace_info := { ti_id : string; ti_svc : string; ti_name : string; ti_start : string; ti_dur : N;
                       ti_set : span_set; ti_sets : option (list span_set) }.
Definition span_attr_val (a : span_attr) : json :=
  JObj [("key", JStr (sa_key a)); ("value", JObj [("stringValue", JStr (sa_val a))])].
Definition span_info_val (s : span_info) : json :=
  JObj [("spanID", JStr (si_id s)); ("startTimeUnixNano", JStr (si_start s)); ("durationNanos", JStr (si_dur s));
        ("attributes", jslice span_attr_val (si_attrs s))].
Definition span_set_val (s : span_set) : json :=
  JObj [("spans", jslice span_info_val (ss_spans s)); ("matched", jint (ss_matched s))].
Definition trace_info_val (t : trace_info) : json :=
  JObj [("traceID", JStr (ti_id t)); ("rootServiceName", JStr (ti_svc t)); ("rootTraceName", JStr (ti_name t));
        ("startTimeUnixNano", JStr (ti_start t)); ("durationMs", jfloat (ti_dur t));
        ("spanSet", span_set_val (ti_set t)); ("spanSets", jslice span_set_val (ti_sets t))].

(* model.JSONSpan (Trace, JSON branch), as unmarshal.SpanToJSONSpan fills it: attributes and events are made
   slices (never nil), parentSpanId has omitempty, status is an omitempty pointer to the OTLP Status whose message and
   code (an int32 enum) both have omitempty *)
Record jstatus := { st_msg : string; st_code : Z }.
Record jspan := { js_traceID : string; js_traceId : string; js_spanID : string; js_spanId : string; js_name : string;
                  js_start : Z; js_end : Z; js_parent : string; js_svc : string;
                  js_attrs : list span_attr; js_events : list (Z * string); js_status : option jstatus }.
Definition jstatus_val (s : jstatus) : json :=
  JObj (omit [("message", nonempty_str (st_msg s)); ("code", nonzero_int (st_code s))]).
Definition jevent_val (e : Z * string) : json := JObj [("timeUnixNano", jint (fst e)); ("name", JStr (snd e))].
Definition jspan_val (s : jspan) : json :=
  JObj (omit [("traceID", keep (JStr (js_traceID s))); ("traceId", keep (JStr (js_traceId s)));
              ("spanID", keep (JStr (js_spanID s))); ("spanId", keep (JStr (js_spanId s))); ("name", keep (JStr (js_name s)));
              ("startTimeUnixNano", keep (jint (js_start s))); ("endTimeUnixNano", keep (jint (js_end s)));
              ("parentSpanId", nonempty_str (js_parent s)); ("serviceName", keep (JStr (js_svc s)));
              ("attributes", keep (JArr (map span_attr_val (js_attrs s))));
              ("events", keep (JArr (map jevent_val (js_events s))));
              ("status", option_map jstatus_val (js_status s))]).

(* TempoController.TagsV2 / ValuesV2: one json.Marshal of a map[string]any (encoding/json sorts the keys); the
   collected slice is nil when the service returned nothing *)
Definition opt_list {A : Type} (xs : list A) : option (list A) := match xs with [] => None | _ => Some xs end.
Definition tagsv2_val (xs : list string) : json :=
  JObj [("scopes", JArr [JObj [("name", JStr "unscoped"); ("tags", jslice JStr (opt_list xs))]])].
Definition valuesv2_val (xs : list string) : json :=
  JObj [("tagValues", jslice (fun v => JObj [("type", JStr "string"); ("value", JStr v)]) (opt_list xs))].

(* unmarshal.SpanToJSONSpan (reader/utils/unmarshal/convert.go): the OTLP span as the service hands it over *)
(* an attribute value (AnyValue) as proto.Unmarshal delivers it: one of the five scalar oneof members, no oneof at all,
   an array of values, or a key-value list whose pairs may lack the value (KeyValue.Value is a nil pointer) *)
Inductive oval :=
| OStr (s : string) | OBool (b : bool) | OInt (z : Z) | ODouble (bits : N) | OBytes (s : string)
| OUnset                                       (* an AnyValue whose oneof is not set *)
| OArr (vs : list oval)                        (* AnyValue_ArrayValue *)
| OKv (kvs : list (string * option oval)).     (* AnyValue_KvlistValue; None: a KeyValue without value *)
Record ospan := { o_trace : string; o_span : string; o_parent : string; o_name : string; o_start : Z; o_end : Z;
                  o_attrs : list (string * oval); o_events : list (Z * string); o_status : option jstatus }.

(* hex.EncodeToString *)
Fixpoint hex_enc (s : string) : string :=
  match s with
  | EmptyString => EmptyString
  | String c r => let n := code c in String (hexdig (n / 16)) (String (hexdig (n mod 16)) (hex_enc r))
  end.
(* base64.StdEncoding.EncodeToString *)
Definition b64chr (n : N) : ascii :=
  if (n <? 26)%N then chr (65 + n) else if (n <? 52)%N then chr (71 + n) else if (n <? 62)%N then chr (n - 4)
  else if (n =? 62)%N then chr 43 else chr 47.
Fixpoint b64_enc (s : string) : string :=
  match s with
  | String a (String b (String c r)) =>
    let x := code a in let y := code b in let z := code c in
    String (b64chr (x / 4)) (String (b64chr ((x mod 4) * 16 + y / 16)) (String (b64chr ((y mod 16) * 4 + z / 64))
      (String (b64chr (z mod 64)) (b64_enc r))))
  | String a (String b EmptyString) =>
    let x := code a in let y := code b in
    String (b64chr (x / 4)) (String (b64chr ((x mod 4) * 16 + y / 16)) (String (b64chr ((y mod 16) * 4)) (str1 61)))
  | String a EmptyString =>
    let x := code a in String (b64chr (x / 4)) (String (b64chr ((x mod 4) * 16)) (String (chr 61) (str1 61)))
  | EmptyString => EmptyString
  end.
(* fmt %v of a float64 = strconv 'g' -1: 'e' layout when the decimal exponent is below -4 or from 6 on *)
Definition g_text (x : fl) : string :=
  match x with
  | FZero neg => fixed_text neg 0 0
  | FFin neg m e =>
    let (D, P) := shortest m e in
    let ex := (P + Z.of_nat (String.length (digits D)) - 1)%Z in
    if ((ex <? -4) || (6 <=? ex))%Z then exp_text neg D P else fixed_of_dec neg D P
  | _ => special_text x
  end.
(* the default: branch of SpanToJSONSpan: json.Marshal(attr.Value.Value), encoding/json's reflection walk over the structs
   protoc-gen-go generated for opentelemetry/proto/common/v1. The oneof wrappers have no json tags (member = Go field name:
   StringValue, BoolValue, IntValue, DoubleValue, ArrayValue, KvlistValue, BytesValue), AnyValue.Value is an exported
   interface field (member "Value", null when no oneof is set), ArrayValue.Values / KeyValueList.Values / KeyValue.Key /
   KeyValue.Value carry `json:"...,omitempty"` (an empty list, an empty key, a nil value are left out), []byte is base64,
   the unexported state / sizeCache / unknownFields are skipped. [oval_json v] is the tree written for the wrapper of v. *)
Definition okv_member (any : oval -> json) (kv : string * option oval) : json :=
  JObj (omit [("key", nonempty_str (fst kv)); ("value", option_map any (snd kv))]).
Definition olist_val (items : list json) : json :=
  JObj (match items with [] => [] | _ => [("values", JArr items)] end).
Fixpoint oval_json (v : oval) : json :=
  match v with
  | OStr s => JObj [("StringValue", JStr s)]
  | OBool b => JObj [("BoolValue", JBool b)]
  | OInt z => JObj [("IntValue", jint z)]
  | ODouble bits => JObj [("DoubleValue", jfloat bits)]
  | OBytes s => JObj [("BytesValue", JStr (b64_enc s))]
  | OUnset => JNull
  | OArr vs => JObj [("ArrayValue", olist_val (map (fun x => JObj [("Value", oval_json x)]) vs))]
  | OKv kvs => JObj [("KvlistValue", olist_val (map (okv_member (fun x => JObj [("Value", oval_json x)])) kvs))]
  end.
(* json.Marshal fails (UnsupportedValueError) when a NaN or an infinity sits anywhere inside *)
Fixpoint oval_finite (v : oval) : bool :=
  match v with
  | ODouble bits => fl_finite (fl_of_bits bits)
  | OArr vs => forallb oval_finite vs
  | OKv kvs => forallb (fun kv => match snd kv with Some x => oval_finite x | None => true end) kvs
  | _ => true
  end.
(* the values the type switch of SpanToJSONSpan sends to its default: branch *)
Definition oval_default (v : oval) : bool := match v with OUnset | OArr _ | OKv _ => true | _ => false end.
(* bVal, _ := json.Marshal(...); string(bVal): the error is dropped, the text is empty then *)
Definition marshal_text (v : oval) : string :=
  if oval_finite v then render (tokensJ_of (oval_json v)) else EmptyString.
Definition oval_text (v : oval) : string :=
  match v with
  | OStr s => s
  | OBool true => "true"
  | OBool false => "false"
  | OInt z => int_text z
  | ODouble bits => g_text (fl_of_bits bits)
  | OBytes s => b64_enc s
  | OUnset | OArr _ | OKv _ => marshal_text v
  end.
(* the last service.name attribute with a non-empty string value *)
Fixpoint service_name (attrs : list (string * oval)) (cur : string) : string :=
  match attrs with
  | [] => cur
  | (k, v) :: r =>
    service_name r (if String.eqb k "service.name"
                    then match v with OStr EmptyString => cur | OStr s => s | _ => cur end else cur)
  end.
Definition span_to_jspan (s : ospan) : jspan :=
  let tid := hex_enc (o_trace s) in
  let sid := hex_enc (o_span s) in
  let pid := hex_enc (o_parent s) in
  {| js_traceID := tid; js_traceId := tid; js_spanID := sid; js_spanId := sid; js_name := o_name s;
     js_start := o_start s; js_end := o_end s;
     js_parent := match o_parent s with
                  | EmptyString => EmptyString
                  | _ => if String.eqb pid "0000000000000000" then EmptyString else pid
                  end;
     js_svc := service_name (o_attrs s) EmptyString;
     js_attrs := map (fun kv => {| sa_key := fst kv; sa_val := oval_text (snd kv) |}) (o_attrs s);
     js_events := o_events s; js_status := o_status s |}.

(* the handlers: marshalled values between the hand-written chunks and commas *)
Definition enc_search (vs : list json) : list token :=
  [TObjS; TStr "traces"; TColon; sp; TArrS] ++ sep_loop' tokensJ_of vs false ++ [TArrE; TObjE].
Definition nl3t : token := TWs nl3.
Definition enc_trace (vs : list json) : list token :=
  [TObjS; TStr "resourceSpans"; TColon; sp; TArrS; TObjS; sp; nl3t;
   TStr "resource"; TColon; TObjS; TStr "attributes"; TColon; TArrS; TObjS; TStr "key"; TColon; TStr "collector"; TComma;
   TStr "value"; TColon; TObjS; TStr "stringValue"; TColon; TStr "qryn"; TObjE; TObjE; TArrE; TObjE; TComma; sp; nl3t;
   TStr "instrumentationLibrarySpans"; TColon; sp; TArrS; TObjS; sp; TStr "spans"; TColon; sp; TArrS] ++
  sep_loop' tokensJ_of vs false ++ [TArrE; TObjE; TArrE; TObjE; TArrE; TObjE].

(* ------------------------------------------------------------------------------------------ *)
(* rows as the encoders receive them (shared.LogEntry / promql.Point): the number texts are no
   longer inputs, they are computed by the printers of model/GoFloat.v from TimestampNS and the
   bits of the float64 Value *)
Record rrow := {
  r_fp : N; r_lbls : list (string * string); r_ts : Z; r_msg : string;
  r_bits : N;                          (* math.Float64bits(Value) *)
  r_err : errk
}.
Definition row_with (tsf val : string) (r : rrow) : entry :=
  {| e_fp := r_fp r; e_lbls := r_lbls r; e_ts := r_ts r; e_msg := r_msg r; e_tsf := tsf; e_val := val; e_err := r_err r |}.
(* exportStreamsValue / Tail use neither text *)
Definition log_row (r : rrow) : entry := row_with EmptyString EmptyString r.
(* QueryRange matrix: fmt.Sprintf("%f", float64(e.TimestampNS)/1e9) and FormatFloat(e.Value,'f',-1,64) + the two TrimSuffix *)
Definition matrix_row (r : rrow) : entry :=
  row_with (f6_text (ts_seconds (r_ts r))) (matrix_val_text (r_bits r)) r.
(* QueryInstant vector: WriteInt64(e.TimestampNS / 1000000000) (Go's / truncates towards zero) and FormatFloat
   (the TrimSuffix results are assigned to a shadowed variable there) *)
Definition vector_row (r : rrow) : entry :=
  row_with (int_text (Z.quot (r_ts r) 1000000000)) (value_text (r_bits r)) r.
(* writeMatrix / writeVector: WriteFloat64(float64(T)/1000), FormatFloat(V,'f',-1,64); writeScalar: %f, %f *)
Definition prom_point_of (r : rrow) : psample :=
  {| ps_t := wfloat64_text (ms_seconds (r_ts r)); ps_v := value_text (r_bits r) |}.
Definition prom_scalar_of (r : rrow) : psample :=
  {| ps_t := f6_text (ms_seconds (r_ts r)); ps_v := f6_text (fl_of_bits (r_bits r)) |}.
Definition rows_with (f : rrow -> entry) (bs : list (list rrow)) : list (list entry) := map (map f) bs.

(* the printers on their own (kind numfmt of the correspondence): per row the texts of
   %f and 'f' -1 and WriteFloat64 of the value, %f of ts/1e9, WriteFloat64 of ts/1000, %d of ts, as strings of one array *)
Definition numfmt_row (r : rrow) : list string :=
  let x := fl_of_bits (r_bits r) in
  [f6_text x; shortest_text x; wfloat64_text x; f6_text (ts_seconds (r_ts r)); wfloat64_text (ms_seconds (r_ts r));
   int_text (r_ts r); int_text (Z.quot (r_ts r) 1000000000)].
Definition enc_numfmt (rs : list rrow) : list token :=
  [TArrS] ++ list_loop (fun x => [TStr x]) (flat_map numfmt_row rs) false ++ [TArrE].
Definition doc_numfmt (rs : list rrow) : json := JArr (map JStr (flat_map numfmt_row rs)).
(* Coq's IEEE 754 specification agrees with the rounding used for the two quotients *)
Definition row_sf_agrees (r : rrow) : bool := sf_agrees (r_ts r) 1000000000 && sf_agrees (r_ts r) 1000.

(* ------------------------------------------------------------------------------------------ *)
(* comparison helpers for generated case files *)

Definition tok_eqb (a b : token) : bool :=
  match a, b with
  | TObjS, TObjS | TObjE, TObjE | TArrS, TArrS | TArrE, TArrE | TComma, TComma | TColon, TColon
  | TTrue, TTrue | TFalse, TFalse | TNull, TNull => true
  | TStr x, TStr y | TStrJ x, TStrJ y | TRaw x, TRaw y | TWs x, TWs y => String.eqb x y
  | _, _ => false
  end.

(* equality of documents up to the order of object members (Go map iteration order is not fixed);
   fuel = nesting depth *)
Fixpoint json_eqb (n : nat) (a b : json) : bool :=
  match n with
  | O => false
  | S n =>
    match a, b with
    | JNull, JNull => true
    | JBool x, JBool y => Bool.eqb x y
    | JNum x, JNum y => String.eqb x y
    | JStr x, JStr y => String.eqb x y
    | JArr x, JArr y =>
      (fix go (x y : list json) : bool :=
         match x, y with
         | [], [] => true
         | u :: x', v :: y' => json_eqb n u v && go x' y'
         | _, _ => false
         end) x y
    | JObj x, JObj y =>
      Nat.eqb (List.length x) (List.length y) &&
      forallb (fun kv => existsb (fun kv' => String.eqb (fst kv) (fst kv') && json_eqb n (snd kv) (snd kv')) y) x &&
      forallb (fun kv => existsb (fun kv' => String.eqb (fst kv) (fst kv') && json_eqb n (snd kv) (snd kv')) x) y
    | _, _ => false
    end
  end.
Definition json_eq (a b : json) : bool := json_eqb 12 a b.

(* ------------------------------------------------------------------------------------------ *)
(* transport of generated cases (harness plumbing, not part of the model proper): one string
   literal per case, fields separated by "|", bytes outside printable ASCII and the three special
   characters written ~xx. A dedicated String Notation target keeps the case files cheap to check. *)
Inductive lbytes := LB (l : list Byte.byte).
Definition unLB (x : lbytes) : list Byte.byte := match x with LB l => l end.
Declare Scope lb_scope.
Delimit Scope lb_scope with lb.
String Notation lbytes LB unLB : lb_scope.

Fixpoint unesc (s : string) : string :=
  match s with
  | EmptyString => EmptyString
  | String c r =>
    if (code c =? 126)%N then
      match r with
      | String a (String b r') =>
        match hexval a, hexval b with
        | Some x, Some y => String (chr (x * 16 + y)) (unesc r')
        | _, _ => EmptyString
        end
      | _ => EmptyString
      end
    else String c (unesc r)
  end.
(* split at "|" (fields themselves never contain a raw bar) *)
Fixpoint split_bar (s : string) (cur : string -> string) : list string :=
  match s with
  | EmptyString => [cur EmptyString]
  | String c r => if (code c =? 124)%N then cur EmptyString :: split_bar r (fun x => x)
                  else split_bar r (fun x => cur (String c x))
  end.
Fixpoint dec_N (s : string) (acc : N) : N :=
  match s with
  | EmptyString => acc
  | String c r => dec_N r (acc * 10 + (code c - 48))%N
  end.
Definition dec_Z (s : string) : Z :=
  match s with
  | String c r => if (code c =? 45)%N then Z.opp (Z.of_N (dec_N r 0)) else Z.of_N (dec_N s 0)
  | EmptyString => 0%Z
  end.
Definition dec_nat (s : string) : nat := N.to_nat (dec_N s 0).

Inductive enc_kind := KStreams | KMatrix | KTail | KVector | KTags | KTagValues | KLabels | KSeries
                  | KPromMatrix | KPromVector | KPromScalar | KPromError | KTrace | KSearch | KSearchQL | KNumFmt | KTagsV2 | KValuesV2.
Record case := {
  c_id : Z;
  c_kind : enc_kind;
  c_rows : list (list rrow);       (* labels of each row in the order observed in the output (see harness) *)
  c_batches : list (list entry);   (* the rows with the number texts their encoder prints (computed once, at decoding) *)
  c_series : list pseries;         (* Prometheus kinds: batch = series, row = point (T in r_ts, V in r_bits) *)
  c_scalar : psample;
  c_blbls : list (list (string * string));  (* Prometheus kinds: one label set per batch (= series) *)
  c_items : list string;           (* list endpoints: tag names, label values, stored label documents *)
  c_order : list N;                (* vector: fingerprints in the order of the result array *)
  c_vals : list json;              (* tempo kinds: the struct values handed to json.Marshal (field walks of the decoded items) *)
  c_out : string                   (* concatenated chunks the implementation sent *)
}.

(* the header test of the code under /repo today (after fix #23) *)
Definition cur_hdr : hdr_test := HdrFirstOrFp.

Definition fill_rows (k : enc_kind) (bs : list (list rrow)) : list (list entry) :=
  match k with
  | KMatrix => rows_with matrix_row bs
  | KVector => rows_with vector_row bs
  | _ => rows_with log_row bs
  end.
Definition series_of (bs : list (list rrow)) (ls : list (list (string * string))) : list pseries :=
  map (fun bl => {| pr_lbls := snd bl; pr_pts := map prom_point_of (fst bl) |}) (combine bs ls).
Definition fill_series (k : enc_kind) (bs : list (list rrow)) (ls : list (list (string * string))) : list pseries :=
  match k with KPromMatrix | KPromVector => series_of bs ls | _ => [] end.
Definition fill_scalar (k : enc_kind) (bs : list (list rrow)) : psample :=
  match k, bs with KPromScalar, (r :: _) :: _ => prom_scalar_of r | _, _ => {| ps_t := ""; ps_v := "" |} end.
Definition case_series (c : case) : list pseries := c_series c.
Definition case_scalar (c : case) : psample := c_scalar c.
Definition case_msg (c : case) : string := match c_items c with m :: _ => m | [] => "" end.

Definition model_bytes (c : case) : string :=
  match c_kind c with
  | KStreams => render (enc_streams cur_hdr (c_batches c))
  | KMatrix => render (enc_matrix (c_batches c))
  | KTail => render (enc_tail cur_hdr (c_batches c))
  | KVector => render (enc_vector (c_order c) (c_batches c))
  | KNumFmt => render (enc_numfmt (List.concat (c_rows c)))
  | KTags => render (enc_tempo_tags (c_items c))
  | KTagValues => render (enc_tempo_values (c_items c))
  | KLabels => render (enc_labels (c_items c))
  | KSeries => render (enc_series (c_blbls c))
  | KPromMatrix => render (enc_prom_matrix (case_series c))
  | KPromVector => render (enc_prom_vector (case_series c))
  | KPromScalar => render (enc_prom_scalar (case_scalar c))
  | KPromError => render (enc_prom_error (case_msg c))
  | KTagsV2 => render (tokensJ_of (tagsv2_val (c_items c)))
  | KValuesV2 => render (tokensJ_of (valuesv2_val (c_items c)))
  | KTrace => render (enc_trace (c_vals c))
  | KSearch | KSearchQL => render (enc_search (c_vals c))
  end.
Fixpoint all_some {A} (l : list (option A)) : option (list A) :=
  match l with
  | [] => Some []
  | Some x :: r => match all_some r with Some r' => Some (x :: r') | None => None end
  | None :: _ => None
  end.
(* /series: what the body must hold. The Coq reader decodes every stored text that is a JSON object of strings on
   its own (duplicate names: the last one wins, as in a Go map); for the others (strconv.Quote escapes, garbage) the
   decoding reported by the implementation's storedLabels is taken, skipped texts are left out *)
Definition str_members (d : json) : option (list (string * string)) :=
  match d with
  | JObj l => all_some (map (fun kv => match snd kv with JStr v => Some (sanitize (fst kv), sanitize v) | _ => None end) l)
  | _ => None
  end.
Fixpoint last_wins (l : list (string * string)) : list (string * string) :=
  match l with
  | [] => []
  | kv :: r => if existsb (fun kv' => String.eqb (fst kv') (fst kv)) r then last_wins r else kv :: last_wins r
  end.
Definition coq_stored (item : string) : option (list (string * string)) :=
  match parse_bytes item with Some d => option_map last_wins (str_members d) | None => None end.
Fixpoint series_want (items : list string) (flags : list N) (sent : list (list (string * string)))
  : list (list (string * string)) :=
  match items, flags with
  | it :: ir, f :: fr =>
    let mine := if N.eqb f 1 then match sent with s :: _ => Some s | [] => None end else None in
    let rest := if N.eqb f 1 then tl sent else sent in
    match coq_stored it, mine with
    | Some l, _ => l :: series_want ir fr rest
    | None, Some s => s :: series_want ir fr rest
    | None, None => series_want ir fr rest
    end
  | _, _ => []
  end.

(* None: the property does not speak about this case (a stored label document that is not JSON) *)
Definition spec_doc (c : case) : option json :=
  match c_kind c with
  | KStreams => Some (doc_streams (c_batches c))
  | KMatrix => Some (doc_matrix (c_batches c))
  | KTail => Some (doc_tail (c_batches c))
  | KVector => if is_perm_of (c_order c) (map e_fp (last_values (rows_matrix (c_batches c))))
               then Some (doc_vector (c_order c) (c_batches c))
               else Some JNull      (* some series is missing or repeated: never equal to a body *)
  | KNumFmt => None   (* not a response: only the transcription of the printers is compared *)
  | KTags => Some (doc_tempo_list "tagNames" (c_items c))
  | KTagValues => Some (doc_tempo_list "tagValues" (c_items c))
  | KLabels => Some (doc_labels (c_items c))
  | KSeries => Some (doc_series (series_want (c_items c) (c_order c) (c_blbls c)))
  | KTagsV2 => Some (sanitize_doc (tagsv2_val (c_items c)))
  | KValuesV2 => Some (sanitize_doc (valuesv2_val (c_items c)))
  | KTrace => Some (doc_trace_of (map sanitize_doc (c_vals c)))
  | KSearch | KSearchQL => Some (doc_search_of (map sanitize_doc (c_vals c)))
  | KPromMatrix => Some (doc_prom_matrix (case_series c))
  | KPromVector => Some (doc_prom_vector (case_series c))
  | KPromScalar => Some (doc_prom_scalar (case_scalar c))
  | KPromError => Some (doc_prom_error (case_msg c))
  end.

Definition model_mismatch (c : case) : bool := negb (String.eqb (model_bytes c) (c_out c)).
(* the property itself, evaluated on what the implementation sent: one JSON document, equal (up to
   member order) to the intended document of the rows *)
Definition spec_violation (c : case) : bool :=
  if forallb (forallb no_fail) (c_batches c) then
    match spec_doc c with
    | Some want => match parse_bytes (c_out c) with
                   | Some d => negb (json_eq d want)
                   | None => true
                   end
    | None => false
    end
  else false.   (* a failing back-end is outside the property: only the transcription is compared *)
Definition unreadable_case (c : case) : bool :=
  match parse_bytes (c_out c) with Some _ => false | None => true end.
Definition mismatches (cs : list case) : list Z := map c_id (filter model_mismatch cs).
Definition spec_violations (cs : list case) : list Z := map c_id (filter spec_violation cs).
Definition unreadable (cs : list case) : list Z := map c_id (filter unreadable_case cs).
(* "rendered without loss", the part that is evaluated per case and not proved: a microsecond-aligned TimestampNS in
   [0, 2^61) (until the year 2043) printed by the matrix writer reads back as exactly that many microseconds; an int64
   millisecond timestamp in [0, 2^43 * 1000) printed by the Prometheus writers reads back as exactly that many milliseconds *)
Definition ts_us_exact (ts : Z) : bool :=
  if ((0 <=? ts) && (ts <? 2 ^ 61) && (ts mod 1000 =? 0))%Z then
    match read_fixed (f6_text (ts_seconds ts)) with
    | Some (false, n, 6%nat) => (n * 1000 =? ts)%Z
    | _ => false
    end
  else true.
Definition ms_exact_upto (bound t : Z) : bool :=
  if ((0 <=? t) && (t <? bound))%Z then
    match read_fixed (wfloat64_text (ms_seconds t)) with
    | Some (false, n, k) => (n * 1000 =? t * 10 ^ Z.of_nat k)%Z
    | _ => false
    end
  else true.
(* below 2^43 seconds (the year 280 700) neighbouring float64 values are less than a millisecond apart: every millisecond
   timestamp reads back exactly (proved: ms_exact_holds). From 2^43 s on they are 1/512 s apart and two millisecond
   timestamps can share one float64: the bound 2^53 claimed earlier is refuted by 8796093022208001 (printed ...208.002) *)
Definition ms_exact (t : Z) : bool := ms_exact_upto (2 ^ 43 * 1000) t.
Definition ms_exact_2p53 (t : Z) : bool := ms_exact_upto (2 ^ 53) t.
Definition case_lossless (c : case) : bool :=
  match c_kind c with
  | KMatrix | KNumFmt => forallb (forallb (fun r => ts_us_exact (r_ts r))) (c_rows c)
  | KPromMatrix | KPromVector => forallb (forallb (fun r => ms_exact (r_ts r))) (c_rows c)
  | _ => true
  end.
Definition number_losses (cs : list case) : list Z := map c_id (filter (fun c => negb (case_lossless c)) cs).
Definition float_disagreements (cs : list case) : list Z :=
  map c_id (filter (fun c => negb (forallb (forallb row_sf_agrees) (c_rows c))) cs).

(* decoding of a transported case:
   id | kind | #labelsets { #pairs { k | v } } | #batches { labelset | #entries { fp | labelset | ts | err | msg | bits } } | #items { item } | #order { fp } | out *)
Fixpoint take_pairs (n : nat) (fs : list string) : option (list (string * string) * list string) :=
  match n with
  | O => Some ([], fs)
  | S n => match fs with
           | k :: v :: r => match take_pairs n r with
                            | Some (l, r') => Some ((unesc k, unesc v) :: l, r')
                            | None => None
                            end
           | _ => None
           end
  end.
Fixpoint take_lsets (n : nat) (fs : list string) : option (list (list (string * string)) * list string) :=
  match n with
  | O => Some ([], fs)
  | S n => match fs with
           | c :: r => match take_pairs (dec_nat c) r with
                       | Some (p, r') => match take_lsets n r' with
                                         | Some (l, r'') => Some (p :: l, r'')
                                         | None => None
                                         end
                       | None => None
                       end
           | [] => None
           end
  end.
Definition dec_err (s : string) : errk :=
  match dec_nat s with O => ENone | S O => EEOF | _ => EFail end.
Fixpoint take_entries (ls : list (list (string * string))) (n : nat) (fs : list string)
  : option (list rrow * list string) :=
  match n with
  | O => Some ([], fs)
  | S n => match fs with
           | fp :: li :: ts :: er :: msg :: bits :: r =>
             match take_entries ls n r with
             | Some (l, r') =>
               Some ({| r_fp := dec_N fp 0; r_lbls := nth (dec_nat li) ls []; r_ts := dec_Z ts; r_msg := unesc msg;
                        r_bits := dec_N bits 0; r_err := dec_err er |} :: l, r')
             | None => None
             end
           | _ => None
           end
  end.
Fixpoint take_batches (ls : list (list (string * string))) (n : nat) (fs : list string)
  : option (list (list rrow * list (string * string)) * list string) :=
  match n with
  | O => Some ([], fs)
  | S n => match fs with
           | li :: c :: r => match take_entries ls (dec_nat c) r with
                             | Some (b, r') => match take_batches ls n r' with
                                               | Some (l, r'') => Some ((b, nth (dec_nat li) ls []) :: l, r'')
                                               | None => None
                                               end
                             | None => None
                             end
           | _ => None
           end
  end.
Fixpoint take_items (n : nat) (fs : list string) : option (list string * list string) :=
  match n with
  | O => Some ([], fs)
  | S n => match fs with
           | x :: r => match take_items n r with Some (l, r') => Some (unesc x :: l, r') | None => None end
           | [] => None
           end
  end.
Definition dec_kind (s : string) : option enc_kind :=
  if String.eqb s "streams" then Some KStreams
  else if String.eqb s "matrix" then Some KMatrix
  else if String.eqb s "tail" then Some KTail
  else if String.eqb s "vector" then Some KVector
  else if String.eqb s "tags" then Some KTags
  else if String.eqb s "tagvalues" then Some KTagValues
  else if String.eqb s "labels" then Some KLabels
  else if String.eqb s "series" then Some KSeries
  else if String.eqb s "prommatrix" then Some KPromMatrix
  else if String.eqb s "promvector" then Some KPromVector
  else if String.eqb s "promscalar" then Some KPromScalar
  else if String.eqb s "promerror" then Some KPromError
  else if String.eqb s "trace" then Some KTrace
  else if String.eqb s "search" then Some KSearch
  else if String.eqb s "searchql" then Some KSearchQL
  else if String.eqb s "numfmt" then Some KNumFmt
  else if String.eqb s "tagsv2" then Some KTagsV2
  else if String.eqb s "valuesv2" then Some KValuesV2 else None.
(* tempo kinds: the field values travel as a flat list of items.
   search: 5 per trace (traceID, rootServiceName, rootTraceName, startTimeUnixNano, durationMs)
   searchql: 9 per trace (traceID, service, name, start text, float bits of durationMs, spanID, duration text, flags:
             bit 0 attributes nil, bit 1 spans nil, bit 2 spanSets nil) - the TraceInfo the harness builds from them
   trace: per OTLP span, see dec_ospans below *)
Fixpoint dec_trace_responses (f : nat) (l : list string) : list trace_response :=
  match f, l with
  | S f, a :: b :: c :: d :: e :: r =>
    {| tr_id := a; tr_svc := b; tr_name := c; tr_start := dec_Z d; tr_dur := dec_Z e |} :: dec_trace_responses f r
  | _, _ => []
  end.
Definition mk_trace_info (tid svc name st : string) (bits : N) (sid du : string) (fl : N) : trace_info :=
  let attrs := if N.testbit fl 0 then None else Some [{| sa_key := name; sa_val := svc |}] in
  let si := {| si_id := sid; si_start := st; si_dur := du; si_attrs := attrs |} in
  let set := {| ss_spans := if N.testbit fl 1 then None else Some [si]; ss_matched := 1 |} in
  {| ti_id := tid; ti_svc := svc; ti_name := name; ti_start := st; ti_dur := bits; ti_set := set;
     ti_sets := if N.testbit fl 2 then None else Some [set] |}.
Fixpoint dec_trace_infos (f : nat) (l : list string) : list trace_info :=
  match f, l with
  | S f, a :: b :: c :: d :: e :: g :: h :: i :: r =>
    mk_trace_info a b c d (dec_N e 0) g h (dec_N i 0) :: dec_trace_infos f r
  | _, _ => []
  end.
Fixpoint take_attrs (n : nat) (l : list string) : list span_attr * list string :=
  match n, l with
  | S n, k :: v :: r => let (a, r') := take_attrs n r in ({| sa_key := k; sa_val := v |} :: a, r')
  | _, _ => ([], l)
  end.
Fixpoint take_events (n : nat) (l : list string) : list (Z * string) * list string :=
  match n, l with
  | S n, t :: nm :: r => let (a, r') := take_events n r in ((dec_Z t, nm) :: a, r')
  | _, _ => ([], l)
  end.
Fixpoint dec_jspans (f : nat) (l : list string) : list jspan :=
  match f, l with
  | S f, a :: b :: c :: d :: nm :: st :: en :: par :: svc :: na :: r =>
    let (attrs, r1) := take_attrs (dec_nat na) r in
    match r1 with
    | ne :: r2 =>
      let (evs, r3) := take_events (dec_nat ne) r2 in
      match r3 with
      | hs :: code :: msg :: r4 =>
        {| js_traceID := a; js_traceId := b; js_spanID := c; js_spanId := d; js_name := nm; js_start := dec_Z st;
           js_end := dec_Z en; js_parent := par; js_svc := svc; js_attrs := attrs; js_events := evs;
           js_status := match dec_nat hs with O => None | _ => Some {| st_msg := msg; st_code := dec_Z code |} end |}
        :: dec_jspans f r4
      | _ => []
      end
    | [] => []
    end
  | _, _ => []
  end.
(* trace: per span  trace span parent name start end #attrs {key V} #events {time name} hasStatus code message
   V ::= kind payload          kind s y b i d as before (two items); u: no oneof set, n: no value at all (payload empty)
       | "a" count V*          array
       | "k" count {key V}*    key-value list
   fuel: the number of items *)
Definition dec_oval (kind v : string) : oval :=
  if String.eqb kind "s" then OStr v
  else if String.eqb kind "y" then OBytes v
  else if String.eqb kind "b" then OBool (String.eqb v "true")
  else if String.eqb kind "i" then OInt (dec_Z v)
  else ODouble (dec_N v 0).
Definition take_n {A : Type} (one : list string -> A * list string) : nat -> list string -> list A * list string :=
  fix go (n : nat) (l : list string) : list A * list string :=
    match n with
    | O => ([], l)
    | S n => let (x, l1) := one l in let (xs, l2) := go n l1 in (x :: xs, l2)
    end.
Definition or_unset (o : option oval) : oval := match o with Some v => v | None => OUnset end.
Fixpoint take_oval (f : nat) (l : list string) {struct f} : option oval * list string :=
  match f with
  | O => (None, l)
  | S f =>
    match l with
    | kind :: v :: r =>
      if String.eqb kind "a" then
        let (vs, r') := take_n (fun l => let (o, l') := take_oval f l in (or_unset o, l')) (dec_nat v) r in (Some (OArr vs), r')
      else if String.eqb kind "k" then
        let (kvs, r') := take_n (fun l => match l with
                                          | k :: l0 => let (o, l') := take_oval f l0 in ((k, o), l')
                                          | [] => ((EmptyString, None), [])
                                          end) (dec_nat v) r in (Some (OKv kvs), r')
      else if String.eqb kind "u" then (Some OUnset, r)
      else if String.eqb kind "n" then (None, r)
      else (Some (dec_oval kind v), r)
    | _ => (None, [])
    end
  end.
Fixpoint take_oattrs (n : nat) (l : list string) : list (string * oval) * list string :=
  match n, l with
  | S n, k :: r0 => let (o, r) := take_oval (List.length r0) r0 in
                    let (a, r') := take_oattrs n r in ((k, or_unset o) :: a, r')
  | _, _ => ([], l)
  end.

Fixpoint dec_ospans (f : nat) (l : list string) : list ospan :=
  match f, l with
  | S f, tid :: sid :: pid :: nm :: st :: en :: na :: r =>
    let (attrs, r1) := take_oattrs (dec_nat na) r in
    match r1 with
    | ne :: r2 =>
      let (evs, r3) := take_events (dec_nat ne) r2 in
      match r3 with
      | hs :: cd :: msg :: r4 =>
        {| o_trace := tid; o_span := sid; o_parent := pid; o_name := nm; o_start := dec_Z st; o_end := dec_Z en;
           o_attrs := attrs; o_events := evs;
           o_status := match dec_nat hs with O => None | _ => Some {| st_msg := msg; st_code := dec_Z cd |} end |}
        :: dec_ospans f r4
      | _ => []
      end
    | [] => []
    end
  | _, _ => []
  end.
Definition fill_vals (k : enc_kind) (its : list string) : list json :=
  match k with
  | KSearch => map trace_response_val (dec_trace_responses (List.length its) its)
  | KSearchQL => map trace_info_val (dec_trace_infos (List.length its) its)
  | KTrace => map (fun o => jspan_val (span_to_jspan o)) (dec_ospans (List.length its) its)
  | _ => []
  end.
Definition decode_case (x : lbytes) : option case :=
  match split_bar (string_of_list_byte (unLB x)) (fun y => y) with
  | id :: kind :: nls :: r =>
    match dec_kind kind, take_lsets (dec_nat nls) r with
    | Some k, Some (ls, nb :: r') =>
      match take_batches ls (dec_nat nb) r' with
      | Some (bs, ni :: r'') =>
        match take_items (dec_nat ni) r'' with
        | Some (its, no :: r3) =>
          match take_items (dec_nat no) r3 with
          | Some (ord, [o]) => Some {| c_id := dec_Z id; c_kind := k; c_rows := map fst bs; c_batches := fill_rows k (map fst bs);
                                       c_series := fill_series k (map fst bs) (map snd bs); c_scalar := fill_scalar k (map fst bs);
                                       c_blbls := map snd bs; c_items := its; c_vals := fill_vals k its;
                                       c_order := map (fun x => dec_N x 0) ord; c_out := unesc o |}
          | _ => None
          end
        | _ => None
        end
      | _ => None
      end
    | _, _ => None
    end
  | _ => None
  end.
Fixpoint decode_cases (xs : list lbytes) : list case :=
  match xs with
  | [] => []
  | x :: r => match decode_case x with Some c => c :: decode_cases r | None => decode_cases r end
  end.
Definition undecodable (xs : list lbytes) : nat :=
  List.length (filter (fun x => match decode_case x with Some _ => false | None => true end) xs).
