(* C13, round 8: from the REQUEST to the hint window of a Prometheus Select.

   So far the hint record (hints.Start / hints.End) of the Prometheus theorems was a free variable: prom_every_scan_bounded
   says that the statement of a Select reads [Start, End], and the harness computed Start / End of every selector in Go
   (readscan.promHint) to judge the recorded statements.  This file models the glue in front of Select:

   * reader/controller/promQueryRangeController.go QueryRange
       req.Start = time.Unix(req.Start.Unix()/15*15, 0)
       req.End   = time.Unix(int64(math.Ceil(float64(req.End.Unix())/15)*15), 0)
     (Go's integer division truncates toward zero; time.Time.Unix() is the floor of the instant to whole seconds; the
     float64 quotient is the exact ceiling for every |seconds| < 2^50 - trusted reading of math.Ceil);
   * reader/controller/promQueryInstantController.go: the evaluation instant is req.Time as parsed;
   * promql.Engine.getTimeRangesForSelector + subqueryTimes of the vendored Prometheus (v0.37 line, b41e0750abf5), with the
     engine options of reader/router/prometheusQueryRangeRouter.go: LookbackDelta 0 (= the default of 5 minutes),
     EnableAtModifier false and EnableNegativeOffset false (no @ timestamps, offsets are not negative):
       start, end = timestamp.FromTime(s.Start), timestamp.FromTime(s.End)            (milliseconds, floor)
       start = start - sum of the offsets of the enclosing subqueries - sum of their ranges ; end = end - those offsets
       start = start - (lookback delta | range of the matrix selector)
       start, end = start - offset of the selector, end - offset of the selector
     The result is what storage.SelectHints carries into CLokiQuerier.Select (hints.Start, hints.End).

   Times of the request are nanoseconds since the epoch (the time.Time the parameter parser returned), durations of the
   query text are milliseconds (the PromQL lexer has no finer unit; durationMilliseconds is exact on them). *)
From Coq Require Import List ZArith Bool String.
From Qryn Require Import model.PromSel.
Import ListNotations.
Open Scope Z_scope.

(* time.Time.Unix(): whole seconds, floor *)
Definition unix_s (t_ns : Z) : Z := t_ns / 1000000000.
(* timestamp.FromTime: t.Unix()*1000 + t.Nanosecond()/1e6 = floor to milliseconds *)
Definition unix_ms (t_ns : Z) : Z := t_ns / 1000000.

(* req.Start.Unix()/15*15 - Go's `/` is Z.quot *)
Definition snap_start (start_ns : Z) : Z := Z.quot (unix_s start_ns) 15 * 15.
(* int64(math.Ceil(float64(req.End.Unix())/15)*15) *)
Definition snap_end (end_ns : Z) : Z := - ((- unix_s end_ns) / 15) * 15.

Inductive preq :=
| PRange (start_ns end_ns : Z)      (* /api/v1/query_range *)
| PInstant (t_ns : Z).              (* /api/v1/query *)

(* s.Start / s.End of the EvalStmt in milliseconds *)
Definition eval_window (r : preq) : Z * Z :=
  match r with
  | PRange s e => (snap_start s * 1000, snap_end e * 1000)
  | PInstant t => (unix_ms t, unix_ms t)
  end.

(* a vector selector in its query: the subqueries around it (offset, range; outermost first), the range of its matrix
   selector (0 = an instant vector selector) and its own offset, all in ms *)
Record subq := { sq_offset : Z; sq_range : Z }.
Record psel := { ps_path : list subq; ps_range : Z; ps_offset : Z }.

Definition lookback_ms : Z := 300000.

(* subqueryTimes without @: the loop over the path *)
Definition subq_times (path : list subq) : Z * Z :=
  fold_left (fun acc q => (fst acc + sq_offset q, snd acc + sq_range q)) path (0, 0).

(* getTimeRangesForSelector *)
Definition sel_window (lookback : Z) (w : Z * Z) (p : psel) : Z * Z :=
  let '(so, sr) := subq_times (ps_path p) in
  let start := fst w - so - sr in
  let end_ := snd w - so in
  let start := if ps_range p =? 0 then start - lookback else start - ps_range p in
  (start - ps_offset p, end_ - ps_offset p).

(* hints.Start / hints.End of selector p of request r *)
Definition req_hint (r : preq) (p : psel) : Z * Z := sel_window lookback_ms (eval_window r) p.

(* the hint record Select receives: Start / End from the request, the rest (step, function, range) as the engine fills it *)
Definition req_hints (r : preq) (p : psel) (step : Z) (func : string) : hints :=
  {| h_start := fst (req_hint r p); h_end := snd (req_hint r p); h_step := step; h_func := func; h_range := ps_range p |}.

(* how far the selector reaches back / how far its window is shifted (ms) *)
Definition zsum (l : list Z) : Z := fold_right Z.add 0 l.
Definition back_ms (p : psel) : Z :=
  zsum (map sq_range (ps_path p)) + (if ps_range p =? 0 then lookback_ms else ps_range p).
Definition shift_ms (p : psel) : Z := zsum (map sq_offset (ps_path p)) + ps_offset p.

(* the window the REQUEST asks selector p to see, in ns: a sample may be used by an evaluation step between start and end
   (end cut to the whole second the API keeps) iff it lies at most back_ms before the step, shifted by the offsets *)
Definition req_from_ns (r : preq) (p : psel) : Z :=
  match r with PRange s _ => s | PInstant t => unix_ms t * 1000000 end - (back_ms p + shift_ms p) * 1000000.
Definition req_to_ns (r : preq) (p : psel) : Z :=
  match r with PRange _ e => unix_s e * 1000000000 | PInstant t => unix_ms t * 1000000 end - shift_ms p * 1000000.

(* ---------------------------------------------------------------- correspondence cases
   one case per recorded Select statement: the request as sent (start / end / time in ns as the parameter parser reads them),
   the selector's place in the query text, and Start / End read from the two timestamp literals of the statement; pw_h* is
   what the harness (readscan.promHint) judged the statement against *)
Record pw_case := { pw_id : Z; pw_req : preq; pw_sel : psel; pw_start : Z; pw_end : Z; pw_hstart : Z; pw_hend : Z }.

Definition pw_agree (c : pw_case) : bool :=
  let '(s, e) := req_hint (pw_req c) (pw_sel c) in
  (s =? pw_start c) && (e =? pw_end c) && (s =? pw_hstart c) && (e =? pw_hend c).
Definition pw_mismatches (cs : list pw_case) : list Z := map pw_id (filter (fun c => negb (pw_agree c)) cs).
