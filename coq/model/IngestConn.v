(* C05, round 6: the ClickHouse CONNECTION of an insert service misbehaves with requests in flight.

   "For any body ... the server returns an HTTP response in bounded time ... never leaves a goroutine ... blocked forever":
   a request's handler waits in doParse on the promises of its doPush goroutines, each of which waits in promise.Get() on the
   promise InsertServiceV2.Request put into svc.results.  Whoever takes a promise out of svc.results (swapBuffers) owes it a
   Done(): a code path that returns between the two leaves the request without an answer for the life of the process
   (seeded change C05-f: the connect step of fetchLoopIteration moved behind swapBuffers, its error path "log, sleep, return"
   unchanged).

   Modelled here (executable definitions only; proofs in proofs/IngestConnProofs.v, statements in props/C05.v):
   - fetchLoopIteration and ping as step programs REGENERATED from the source (translate/goroutines_writer_src/service.go:
     gen_fetch_loop, gen_ping_prog); `run_iter` / `run_ping` interpret them over the connection state, the waiting promises and
     the outcome of the dial / the INSERT / the ping chosen by the environment;
   - the events of one insert service (`cev`): a request appended under the mutex, a request answered at once, the insert
     context falling due (timer, PlanFlush, queue limit), an iteration of the Run loop, a watchdog tick;
   - doPush's retry loop around it and the scripted scenarios of harness conndown (`conn_expected`). *)
From Coq Require Import List String ZArith NArith Bool.
Import ListNotations.
Open Scope N_scope.

(* ---------------------------------------------------------------- 1. the regenerated programs *)
Inductive cstep :=
| CConnect      (* if svc.client == nil { svc.client, err = svc.V3Session(); if err != nil { <no send, no Done>; return } } *)
| CSwap         (* portion, err := svc.swapBuffers(); if portion == nil { return } *)
| CCapture      (* waiting := append([]*promise.Promise[uint32]{}, portion.res...) *)
| CDefRelease   (* releaseWaiting := func(err error) { for _, w := range waiting { w.Done(0, err) } } *)
| CDo           (* err = svc.client.Do(..) *)
| CRelease      (* releaseWaiting(err) *)
| CCloseOnErr   (* if err != nil { svc.client.Close(); svc.client = nil } *)
| CPlain        (* a statement without return / go / panic that mentions none of client, V3Session, swapBuffers, results, portion.res,
                   waiting, releaseWaiting and assigns neither portion nor err *)
| CUnknown (text : string).

Inductive pstep :=
| PNoClientReturn   (* if svc.client == nil { return } *)
| PRecentReturn     (* if svc.lastRequest.Add(time.Second).After(time.Now()) { return } *)
| PPing             (* err := svc.client.Ping(to) *)
| PCloseOnErr       (* if err != nil { svc.client.Close(); svc.client = nil; ..; return } *)
| PPlain
| PUnknown (text : string).

Definition cstep_eqb (a b : cstep) : bool :=
  match a, b with
  | CConnect, CConnect | CSwap, CSwap | CCapture, CCapture | CDefRelease, CDefRelease | CDo, CDo | CRelease, CRelease
  | CCloseOnErr, CCloseOnErr | CPlain, CPlain => true
  | CUnknown s, CUnknown t => String.eqb s t
  | _, _ => false
  end.
Definition pstep_eqb (a b : pstep) : bool :=
  match a, b with
  | PNoClientReturn, PNoClientReturn | PRecentReturn, PRecentReturn | PPing, PPing | PCloseOnErr, PCloseOnErr | PPlain, PPlain => true
  | PUnknown s, PUnknown t => String.eqb s t
  | _, _ => false
  end.

Definition is_cplain (s : cstep) : bool := match s with CPlain => true | _ => false end.
Definition is_pplain (s : pstep) : bool := match s with PPlain => true | _ => false end.
Definition strip_plain (p : list cstep) : list cstep := filter (fun s => negb (is_cplain s)) p.
Definition strip_pplain (p : list pstep) : list pstep := filter (fun s => negb (is_pplain s)) p.

(* the programs as modelled: what the regenerated ones must be once the plain statements are left out *)
Definition fli_core : list cstep := [CConnect; CSwap; CCapture; CDefRelease; CDo; CRelease; CCloseOnErr].
Definition ping_core : list pstep := [PNoClientReturn; PRecentReturn; PPing; PCloseOnErr].
(* seeded C05-f: "connect lazily, only when there is something to send" *)
Definition fli_swapped : list cstep := [CSwap; CConnect; CCapture; CDefRelease; CDo; CRelease; CCloseOnErr].

Fixpoint list_eqb {A} (eqb : A -> A -> bool) (a b : list A) : bool :=
  match a, b with
  | [], [] => true
  | x :: a', y :: b' => eqb x y && list_eqb eqb a' b'
  | _, _ => false
  end.
Definition fetch_loop_ok (p : list cstep) : bool := list_eqb cstep_eqb (strip_plain p) fli_core.
Definition ping_ok (p : list pstep) : bool := list_eqb pstep_eqb (strip_pplain p) ping_core.

(* Run: the select of the loop as (channel, what the case does); swapBuffers / Init are the only functions that renew insertCtx *)
Definition run_cases_model : list (string * string) :=
  [("svc.watchdog.C", "svc.ping()"); ("svc.ctx.Done()", "return"); ("svc.insertCtx.Done()", "svc.fetchLoopIteration()")]%string.
Definition insert_ctx_writers_model : list string := ["Init"; "swapBuffers"]%string.

(* ---------------------------------------------------------------- 2. one insert service *)
Record cstate := {
  cs_client  : bool;               (* svc.client != nil *)
  cs_due     : bool;               (* svc.insertCtx is done: Run's select calls fetchLoopIteration (again) *)
  cs_waiting : list N;             (* svc.results: promises of requests whose rows are in svc.columns *)
  cs_done    : list (N * bool);    (* completed promises with their verdict (true: err == nil) *)
  cs_lost    : list N;             (* promises taken out of svc.results by an iteration that returned without completing them *)
  cs_crash   : bool                (* nil dereference in the Run goroutine (no recover: the process dies) *)
}.
Definition cs_init : cstate := {| cs_client := false; cs_due := false; cs_waiting := []; cs_done := []; cs_lost := []; cs_crash := false |}.

Record ienv := { dial_ok : bool; do_ok : bool }.

Record iloc := {
  il_portion  : option (list N);
  il_captured : option (list N);
  il_defrel   : bool;
  il_err      : option bool;    (* Some true: Do returned an error *)
  il_dialed   : bool;           (* V3Session was called *)
  il_did      : bool            (* client.Do was called *)
}.
Definition il_init : iloc := {| il_portion := None; il_captured := None; il_defrel := false; il_err := None; il_dialed := false; il_did := false |}.

Definition set_client (st : cstate) (b : bool) : cstate :=
  {| cs_client := b; cs_due := cs_due st; cs_waiting := cs_waiting st; cs_done := cs_done st; cs_lost := cs_lost st; cs_crash := cs_crash st |}.
Definition set_crash (st : cstate) : cstate :=
  {| cs_client := cs_client st; cs_due := cs_due st; cs_waiting := cs_waiting st; cs_done := cs_done st; cs_lost := cs_lost st; cs_crash := true |}.
Definition complete (ids : list N) (verdict : bool) (st : cstate) : cstate :=
  {| cs_client := cs_client st; cs_due := cs_due st; cs_waiting := cs_waiting st;
     cs_done := (map (fun i => (i, verdict)) ids ++ cs_done st)%list; cs_lost := cs_lost st; cs_crash := cs_crash st |}.

Definition is_done (st : cstate) (i : N) : bool := existsb (fun d => N.eqb (fst d) i) (cs_done st).

(* steps of an iteration; None in the second component = the function returned *)
Definition step_iter (s : cstep) (e : ienv) (st : cstate) (l : iloc) : cstate * option iloc :=
  match s with
  | CConnect =>
      if cs_client st then (st, Some l)
      else
        let l' := {| il_portion := il_portion l; il_captured := il_captured l; il_defrel := il_defrel l; il_err := il_err l; il_dialed := true; il_did := il_did l |} in
        if dial_ok e then (set_client st true, Some l') else (st, None) (* log, sleep a second, return *)
  | CSwap =>
      (* swapBuffers renews insertCtx whatever it finds *)
      let st1 := {| cs_client := cs_client st; cs_due := false; cs_waiting := cs_waiting st; cs_done := cs_done st; cs_lost := cs_lost st; cs_crash := cs_crash st |} in
      match cs_waiting st with
      | [] => (st1, None)
      | w => ({| cs_client := cs_client st; cs_due := false; cs_waiting := []; cs_done := cs_done st; cs_lost := cs_lost st; cs_crash := cs_crash st |},
              Some {| il_portion := Some w; il_captured := il_captured l; il_defrel := il_defrel l; il_err := il_err l; il_dialed := il_dialed l; il_did := il_did l |})
      end
  | CCapture =>
      match il_portion l with
      | Some w => (st, Some {| il_portion := il_portion l; il_captured := Some w; il_defrel := il_defrel l; il_err := il_err l; il_dialed := il_dialed l; il_did := il_did l |})
      | None => (set_crash st, None)
      end
  | CDefRelease =>
      (st, Some {| il_portion := il_portion l; il_captured := il_captured l; il_defrel := true; il_err := il_err l; il_dialed := il_dialed l; il_did := il_did l |})
  | CDo =>
      match cs_client st, il_portion l with
      | true, Some _ => (st, Some {| il_portion := il_portion l; il_captured := il_captured l; il_defrel := il_defrel l; il_err := Some (negb (do_ok e)); il_dialed := il_dialed l; il_did := true |})
      | _, _ => (set_crash st, None)
      end
  | CRelease =>
      match il_defrel l, il_captured l, il_err l with
      | true, Some ids, Some err => (complete ids (negb err) st, Some l)
      | _, _, _ => (set_crash st, None)
      end
  | CCloseOnErr =>
      match il_err l with
      | Some true => (set_client st false, Some l)
      | _ => (st, Some l)
      end
  | CPlain => (st, Some l)
  | CUnknown _ => (st, None)
  end.

(* the portion's promises that were not completed when the function returned *)
Definition settle (st : cstate) (l : iloc) : cstate :=
  match il_portion l with
  | None => st
  | Some w =>
      {| cs_client := cs_client st; cs_due := cs_due st; cs_waiting := cs_waiting st; cs_done := cs_done st;
         cs_lost := (filter (fun i => negb (is_done st i)) w ++ cs_lost st)%list; cs_crash := cs_crash st |}
  end.

Fixpoint run_steps (p : list cstep) (e : ienv) (st : cstate) (l : iloc) : cstate * iloc :=
  match p with
  | [] => (settle st l, l)
  | s :: p' =>
      match step_iter s e st l with
      | (st', Some l') => run_steps p' e st' l'
      | (st', None) =>
          (* the flags of the step that returned (a refused dial was a dial) *)
          let l' := match s with
                    | CConnect => {| il_portion := il_portion l; il_captured := il_captured l; il_defrel := il_defrel l; il_err := il_err l;
                                     il_dialed := negb (cs_client st) || il_dialed l; il_did := il_did l |}
                    | _ => l
                    end in
          (settle st' l', l')
      end
  end.
Definition run_iter (p : list cstep) (e : ienv) (st : cstate) : cstate * iloc := run_steps p e st il_init.

(* the watchdog: recent = lastRequest less than a second ago *)
Fixpoint run_ping (p : list pstep) (recent ok : bool) (pinged : bool) (st : cstate) : cstate * bool :=
  match p with
  | [] => (st, pinged)
  | PNoClientReturn :: p' => if cs_client st then run_ping p' recent ok pinged st else (st, pinged)
  | PRecentReturn :: p' => if recent then (st, pinged) else run_ping p' recent ok pinged st
  | PPing :: p' => if cs_client st then run_ping p' recent ok true st else (set_crash st, pinged)
  | PCloseOnErr :: p' => if pinged && negb ok then (set_client st false, pinged) else run_ping p' recent ok pinged st
  | PPlain :: p' => run_ping p' recent ok pinged st
  | PUnknown _ :: _ => (st, pinged)
  end.

Inductive cev :=
| ERequest (id : N)                 (* Request: rows appended, promise put into svc.results *)
| EImmediate (id : N) (ok : bool)   (* Request: nothing inserted or processRequest failed: p.Done at once *)
| EDue                              (* insertCtx done: interval elapsed, PlanFlush, queue limit *)
| ETick (e : ienv)                  (* Run: case <-svc.insertCtx.Done(): fetchLoopIteration() -- only while the context is done *)
| EPing (recent ok : bool).         (* Run: case <-svc.watchdog.C: ping() *)

Definition add_waiting (st : cstate) (id : N) : cstate :=
  {| cs_client := cs_client st; cs_due := cs_due st; cs_waiting := (cs_waiting st ++ [id])%list; cs_done := cs_done st; cs_lost := cs_lost st; cs_crash := cs_crash st |}.
Definition set_due (st : cstate) : cstate :=
  {| cs_client := cs_client st; cs_due := true; cs_waiting := cs_waiting st; cs_done := cs_done st; cs_lost := cs_lost st; cs_crash := cs_crash st |}.

Definition cstep_ev (prog : list cstep) (pprog : list pstep) (st : cstate) (ev : cev) : cstate :=
  if cs_crash st then st else
  match ev with
  | ERequest id => add_waiting st id
  | EImmediate id ok => complete [id] ok st
  | EDue => set_due st
  | ETick e => if cs_due st then fst (run_iter prog e st) else st
  | EPing recent ok => fst (run_ping pprog recent ok false st)
  end.
Definition crun (prog : list cstep) (pprog : list pstep) (evs : list cev) (st : cstate) : cstate :=
  fold_left (cstep_ev prog pprog) evs st.

Definition requested (evs : list cev) : list N :=
  flat_map (fun ev => match ev with ERequest id => [id] | EImmediate id _ => [id] | _ => [] end) evs.

(* every promise handed out is either still in svc.results or completed *)
Definition accounted (st : cstate) (id : N) : bool := existsb (N.eqb id) (cs_waiting st) || is_done st id.

(* ---------------------------------------------------------------- 3. the scenarios of harness conndown *)
(* scripts: 0 = success, anything else = failure (refused dial, failed or timed-out INSERT / ping) *)
Definition pop (s : list N) : bool * list N :=
  match s with [] => (true, []) | x :: s' => (N.eqb x 0, s') end.

Record cobs := {
  co_status : list N;           (* per push: 0 unanswered, 2 / 4 / 5 status class *)
  co_all_completed : bool;      (* promises issued = promises completed *)
  co_dial_ok : N; co_dial_refused : N; co_do_ok : N; co_do_fail : N;
  co_rows_sent : N; co_rows_stored : N;
  co_goroutines : Z             (* goroutines in request code beyond the baseline; -1 = not measured *)
}.
Record ccase := {
  cc_id : Z; cc_pushes : N; cc_warm : bool; cc_dial : list N; cc_do : list N; cc_ping : list N;
  cc_hold : N;                  (* 0 none, 1 ping before the pushes, 2 ping with the pushes waiting *)
  cc_attempts : N;
  cc_obs : cobs
}.

Record push := { pu_tries : N; pu_status : N; pu_id : option N }.

Record sim := {
  sm_st : cstate; sm_dial : list N; sm_do : list N;
  sm_pushes : list push; sm_next : N;
  sm_dial_ok : N; sm_dial_refused : N; sm_do_ok : N; sm_do_fail : N
}.

(* doPush: a push without a pending promise and without a status calls Request again *)
Fixpoint issue (ps : list push) (next : N) (st : cstate) : list push * N * cstate :=
  match ps with
  | [] => ([], next, st)
  | p :: ps' =>
      match pu_status p, pu_id p with
      | 0, None =>
          let '(r, n, st') := issue ps' (next + 1) (add_waiting st next) in
          ({| pu_tries := pu_tries p; pu_status := 0; pu_id := Some next |} :: r, n, st')
      | _, _ => let '(r, n, st') := issue ps' next st in (p :: r, n, st')
      end
  end.

Definition verdict_of (st : cstate) (i : N) : option bool :=
  match find (fun d => N.eqb (fst d) i) (cs_done st) with Some d => Some (snd d) | None => None end.

(* retry.Do: success -> 2xx; the attempts used up -> 5xx; else Request again (after RetryTimeoutS) *)
Definition resolve (attempts : N) (st : cstate) (p : push) : push :=
  match pu_status p, pu_id p with
  | 0, Some i =>
      match verdict_of st i with
      | Some true => {| pu_tries := pu_tries p; pu_status := 2; pu_id := None |}
      | Some false =>
          if N.leb attempts (pu_tries p + 1) then {| pu_tries := pu_tries p + 1; pu_status := 5; pu_id := None |}
          else {| pu_tries := pu_tries p + 1; pu_status := 0; pu_id := None |}
      | None => p   (* still waiting -- or lost *)
      end
  | _, _ => p
  end.

Definition unresolved (ps : list push) : bool := existsb (fun p => N.eqb (pu_status p) 0) ps.

Definition sim_round (prog : list cstep) (attempts : N) (s : sim) : sim :=
  let '(ps, next, st) := issue (sm_pushes s) (sm_next s) (sm_st s) in
  let '(dok, dial') := pop (sm_dial s) in
  let '(iok, do') := pop (sm_do s) in
  let '(st', l) := run_iter prog {| dial_ok := dok; do_ok := iok |} (set_due st) in
  {| sm_st := st';
     sm_dial := if il_dialed l then dial' else sm_dial s;
     sm_do := if il_did l then do' else sm_do s;
     sm_pushes := map (resolve attempts st') ps; sm_next := next;
     sm_dial_ok := if il_dialed l && dok then sm_dial_ok s + 1 else sm_dial_ok s;
     sm_dial_refused := if il_dialed l && negb dok then sm_dial_refused s + 1 else sm_dial_refused s;
     sm_do_ok := if il_did l && iok then sm_do_ok s + 1 else sm_do_ok s;
     sm_do_fail := if il_did l && negb iok then sm_do_fail s + 1 else sm_do_fail s |}.

Fixpoint sim_loop (prog : list cstep) (attempts : N) (fuel : nat) (s : sim) : sim :=
  match fuel with
  | O => s
  | S f =>
      if unresolved (sm_pushes s) && negb (cs_crash (sm_st s)) && match cs_lost (sm_st s) with [] => true | _ => false end
      then sim_loop prog attempts f (sim_round prog attempts s) else s
  end.

Definition sim_start (prog : list cstep) (pprog : list pstep) (c : ccase) : sim :=
  let st0 := set_client cs_init (cc_warm c) in
  let fresh := repeat {| pu_tries := 0; pu_status := 0; pu_id := None |} (N.to_nat (cc_pushes c)) in
  let pok := fst (pop (cc_ping c)) in
  let '(ps, next, st1) :=
    match cc_hold c with
    | 1 => issue fresh 1 (fst (run_ping pprog false pok false st0))
    | 2 => let '(ps, next, st) := issue fresh 1 st0 in (ps, next, fst (run_ping pprog false pok false st))
    | _ => (fresh, 1, st0)
    end in
  {| sm_st := st1; sm_dial := cc_dial c; sm_do := cc_do c; sm_pushes := ps; sm_next := next;
     sm_dial_ok := 0; sm_dial_refused := 0; sm_do_ok := 0; sm_do_fail := 0 |}.

Definition sim_fuel (c : ccase) : nat := N.to_nat (cc_attempts c) + List.length (cc_dial c) + List.length (cc_do c) + 3.
Definition conn_sim (prog : list cstep) (pprog : list pstep) (c : ccase) : sim :=
  sim_loop prog (cc_attempts c) (sim_fuel c) (sim_start prog pprog c).

(* the model over the REGENERATED programs predicts a dropped promise / a crash of the Run goroutine / an unanswered push *)
Definition conn_predicts_wedge (prog : list cstep) (pprog : list pstep) (c : ccase) : bool :=
  let s := conn_sim prog pprog c in
  cs_crash (sm_st s) || match cs_lost (sm_st s) with [] => false | _ => true end || unresolved (sm_pushes s).

Fixpoint nlist_eqb (a b : list N) : bool :=
  match a, b with
  | [], [] => true
  | x :: a', y :: b' => N.eqb x y && nlist_eqb a' b'
  | _, _ => false
  end.

Definition all_status (v : N) (l : list N) : bool := forallb (N.eqb v) l.

(* what the real code must show on a scenario: statuses, the calls its main service made, rows stored *)
Definition conn_agrees (prog : list cstep) (pprog : list pstep) (c : ccase) : bool :=
  let s := conn_sim prog pprog c in
  let o := cc_obs c in
  let exp_status := map pu_status (sm_pushes s) in
  nlist_eqb exp_status (co_status o)
  (* after a push has been given up (5xx) the service is left without a connection: an idle iteration may dial once more *)
  && (if all_status 2 exp_status then N.eqb (sm_dial_refused s) (co_dial_refused o) else N.leb (sm_dial_refused s) (co_dial_refused o))
  && N.eqb (sm_do_fail s) (co_do_fail o)
  && (negb (N.eqb (cc_pushes c) 1) || N.eqb (sm_do_ok s) (co_do_ok o))
  && N.eqb (co_rows_stored o) (if all_status 2 exp_status then co_rows_sent o else 0).

Definition conn_mismatches (prog : list cstep) (pprog : list pstep) (cs : list ccase) : list Z :=
  map cc_id (filter (fun c => negb (conn_agrees prog pprog c)) cs).
Definition conn_wedges (prog : list cstep) (pprog : list pstep) (cs : list ccase) : list Z :=
  map cc_id (filter (conn_predicts_wedge prog pprog) cs).

(* the oracle, on the observation alone: every push answered (bounded time), every promise completed and no goroutine left in
   request code (nothing blocked for ever), an acknowledged push stored exactly once, a push is acknowledged when the database
   accepts one of the configured attempts *)
Definition failures_in (k : N) (s : list N) : N :=
  N.of_nat (List.length (filter (fun x => negb (N.eqb x 0)) (firstn (N.to_nat k) s))).
Definition conn_spec_ok (c : ccase) : bool :=
  let o := cc_obs c in
  forallb (fun s => negb (N.eqb s 0)) (co_status o)
  && N.eqb (N.of_nat (List.length (co_status o))) (cc_pushes c)
  && co_all_completed o
  && Z.leb (co_goroutines o) 0
  && (negb (all_status 2 (co_status o)) || N.eqb (co_rows_stored o) (co_rows_sent o))
  && (negb (N.ltb (failures_in (cc_attempts c) (cc_do c)) (cc_attempts c)) || negb (N.eqb (cc_pushes c) 1) || all_status 2 (co_status o))
  && (negb (nlist_eqb (cc_do c) []) || all_status 2 (co_status o)).
Definition conn_spec_violations (cs : list ccase) : list Z := map cc_id (filter (fun c => negb (conn_spec_ok c)) cs).

(* ---------------------------------------------------------------- 5. what runs while the service mutex is held (round 8) *)
(* sync.Mutex is not re-entrant: a goroutine that calls Lock() on a mutex it holds blocks for ever, holding it -- every other
   user of the mutex (Request of later pushes, swapBuffers of the Run goroutine, PlanFlush) blocks behind it.  Seeded change C05-h:
   Request, inside its locked region, asked for the size-triggered flush (maxQueueSize > 0, i.e. BULK_MAX_SIZE_BYTES set) through
   PlanFlush(), which locks svc.mtx itself.  The branch is dead with the shipped default, so no default-configuration run meets it;
   the obligation below is about the SOURCE and does not depend on the configuration.

   translate/goroutines_writer_src/locks.go regenerates, for every method of the three service types (each owns a `mtx`), what it
   calls while its receiver's mutex is held (lexical over-approximation) and whether it locks that mutex itself:
     mm_self_calls   every method of the same type called on the receiver, anywhere in the body (the edges of "may lock")
     mm_held_self    those called while the mutex is held
     mm_held_fields  function-valued fields of the receiver called while held;  mm_held_other  any other callee text while held
     mm_relock       R.mtx.Lock() written inside a held region *)
Record mtx_method := {
  mm_type : string; mm_name : string; mm_locks : bool; mm_relock : bool;
  mm_self_calls : list string; mm_held_self : list string; mm_held_fields : list string; mm_held_other : list string
}.

Definition find_mm (tbl : list mtx_method) (T m : string) : option mtx_method :=
  find (fun x => String.eqb (mm_type x) T && String.eqb (mm_name x) m) tbl.

(* method m of type T, called on the receiver, may reach R.mtx.Lock() through calls on the same receiver (out of fuel: yes) *)
Fixpoint may_lock (fuel : nat) (tbl : list mtx_method) (T : string) (seen : list string) (m : string) : bool :=
  match fuel with
  | O => true
  | S f =>
      if existsb (String.eqb m) seen then false
      else match find_mm tbl T m with
           | None => false
           | Some x => mm_locks x || existsb (may_lock f tbl T (m :: seen)) (mm_self_calls x)
           end
  end.

Definition lock_fuel (tbl : list mtx_method) : nat := S (List.length tbl).
Definition relocking_calls (tbl : list mtx_method) (x : mtx_method) : list string :=
  filter (may_lock (lock_fuel tbl) tbl (mm_type x) []) (mm_held_self x).
Definition mm_ok (tbl : list mtx_method) (x : mtx_method) : bool :=
  negb (mm_relock x) && match relocking_calls tbl x with [] => true | _ => false end.
Definition lock_order_ok (tbl : list mtx_method) : bool := forallb (mm_ok tbl) tbl.
Definition lock_order_offenders (tbl : list mtx_method) : list (string * string * bool * list string) :=
  map (fun x => (mm_type x, mm_name x, mm_relock x, relocking_calls tbl x)) (filter (fun x => negb (mm_ok tbl x)) tbl).

(* everything else met under a service mutex is on these lists; by reading, none of them can reach the service (processRequest /
   acquireColumns are closures of service/impl/*.go over the column pools, insertCancel is a context.CancelFunc) *)
Definition held_fields_allowed : list string := ["processRequest"; "insertCancel"; "acquireColumns"]%string.
Definition held_other_allowed : list string :=
  ["append"; "len"; "p.Done"; "context.Background"; "context.WithCancel"; "context.WithTimeout"; "time.NewTicker"; "time.Now";
   "svc.watchdog.Stop"; "logger.Info"; "wg.Add"; "svc.rand.Float64"]%string.
Definition strs_in (allowed l : list string) : bool := forallb (fun s => existsb (String.eqb s) allowed) l.
Definition held_calls_unknown (tbl : list mtx_method) : list (string * string * list string) :=
  filter (fun r => match snd r with [] => false | _ => true end)
    (map (fun x => (mm_type x, mm_name x,
                    filter (fun s => negb (existsb (String.eqb s) held_fields_allowed)) (mm_held_fields x)
                    ++ filter (fun s => negb (existsb (String.eqb s) held_other_allowed)) (mm_held_other x))) tbl).
Definition held_calls_known (tbl : list mtx_method) : bool := match held_calls_unknown tbl with [] => true | _ => false end.

(* the methods whose locked regions the slice relies on must be there, locking *)
Definition lockers_present (tbl : list mtx_method) : bool :=
  forallb (fun m => match find_mm tbl "InsertServiceV2" m with Some x => mm_locks x | None => false end)
          ["Request"; "swapBuffers"; "PlanFlush"; "Init"]%string.

(* hand-written tables for the examples: the shipped shape, the seeded one, and one that re-enters through a helper *)
Definition mm (T m : string) (locks : bool) (calls held : list string) : mtx_method :=
  {| mm_type := T; mm_name := m; mm_locks := locks; mm_relock := false; mm_self_calls := calls; mm_held_self := held;
     mm_held_fields := []; mm_held_other := [] |}.
Definition mtx_core : list mtx_method :=
  [mm "InsertServiceV2" "PlanFlush" true [] []; mm "InsertServiceV2" "Init" true [] [];
   mm "InsertServiceV2" "Request" true [] []; mm "InsertServiceV2" "swapBuffers" true [] [];
   mm "InsertServiceV2" "fetchLoopIteration" false ["swapBuffers"] []; mm "InsertServiceV2" "Run" true ["ping"; "fetchLoopIteration"] []]%string.
Definition mtx_seeded_h : list mtx_method :=
  [mm "InsertServiceV2" "PlanFlush" true [] []; mm "InsertServiceV2" "Init" true [] [];
   mm "InsertServiceV2" "Request" true ["PlanFlush"] ["PlanFlush"]; mm "InsertServiceV2" "swapBuffers" true [] []]%string.
Definition mtx_through_helper : list mtx_method :=
  [mm "InsertServiceV2" "PlanFlush" true [] []; mm "InsertServiceV2" "flushNow" false ["flushNow"; "PlanFlush"] [];
   mm "InsertServiceV2" "Request" true ["flushNow"] ["flushNow"]]%string.
