(* The Zipkin payload as a JSON TOKEN STREAM (property C06).

   model/Spans.v reads a Zipkin span from an abstract JSON value [jv] (numbers already classified, member
   lists already built).  Here the text -> fields walk is made concrete one level further down: the input is
   the stream of tokens a JSON tokenizer delivers (strings with their escapes decoded, numbers as their
   LEXICAL text, structural tokens), and

     [w_step] / [zt_span]   = writer/utils/unmarshal/zipkinJsonUnmarshal.go decodeSpan as the streaming walk it is
                              (jx.Decoder.Obj callbacks, StrBytes / stringOrInt64 = strconv.ParseInt on the raw
                              number text / parseEndpoint / parseTags / Skip), one token at a time;
     [parse]                = the read side's fastjson.Parser.Parse as a stack machine building the tree [jt]
                              (whole input = exactly one value, otherwise "unexpected tail" = no span);
     [abs]                  = the abstraction to Spans.jv (integer literals -> JInt, every other number -> JFloat);
     [read_row_tok]         = OutputQuery on a row whose payload column holds the token stream;
     [read_events]          = parseZipkinJSON's annotations -> events (GetUint64 on the raw number text * 1000).

   The tokenizer itself (bytes -> tokens: whitespace, escapes, number scanning) stays an oracle: the harness
   tokenizes every element text with jx (write side) and every stored payload with fastjson (read side) and the
   check compares the two streams.  Executable definitions only. *)
From Coq Require Import List ZArith NArith Bool String Ascii.
From Qryn Require Import model.Spans.
Import ListNotations.
Open Scope string_scope.
Open Scope Z_scope.

Inductive tok :=
| TObjS | TObjE | TArrS | TArrE
| TKey (s : string)          (* a member name, escapes decoded *)
| TStr (s : string)          (* a string value, escapes decoded *)
| TNum (raw : string)        (* a number: its text as written (-0, 1E2, 1.50 ...) *)
| TTrue | TFalse | TNull
| TBad.                      (* the tokenizer gave up here (the rest of the text is not JSON) *)

(* a JSON value with lexical numbers *)
Inductive jt :=
| TS (s : string) | TN (raw : string) | TB (b : bool) | TZ
| TO (l : list (string * jt)) | TA (l : list jt).

Fixpoint toks_of (t : jt) : list tok :=
  match t with
  | TS s => [TStr s]
  | TN r => [TNum r]
  | TB b => [if b then TTrue else TFalse]
  | TZ => [TNull]
  | TO l => TObjS :: (fix go (l : list (string * jt)) : list tok :=
                        match l with [] => [TObjE] | p :: r => ((TKey (fst p) :: toks_of (snd p)) ++ go r)%list end) l
  | TA l => TArrS :: (fix go (l : list jt) : list tok :=
                        match l with [] => [TArrE] | v :: r => (toks_of v ++ go r)%list end) l
  end.
Definition toks_members (l : list (string * jt)) : list tok := flat_map (fun p => TKey (fst p) :: toks_of (snd p)) l.
Definition toks_elems (l : list jt) : list tok := flat_map toks_of l.

(* ------------------------------------------------------------------ numbers: lexical text -> value *)
(* -?digits+ : the integer literals (leading zeros are not JSON; jx refuses them before this point) *)
Definition int_text (raw : string) : option Z :=
  match raw with
  | EmptyString => None
  | String c r =>
      if Ascii.eqb c "-" then (if String.eqb r "" then None else option_map Z.opp (digits r 0))
      else if Ascii.eqb c "+" then None
      else digits raw 0
  end.
Definition num_abs (raw : string) : jv := match int_text raw with Some z => JInt z | None => JFloat end.
(* JSON numbers never start with '+' (strconv.ParseInt would accept it) *)
Definition num_ok (raw : string) : bool := match raw with String c _ => negb (Ascii.eqb c "+") | EmptyString => false end.

Fixpoint abs (t : jt) : jv :=
  match t with
  | TS s => JStr s
  | TN r => num_abs r
  | TB b => JBool b
  | TZ => JNull
  | TO l => JObj ((fix go (l : list (string * jt)) : list (string * jv) :=
                     match l with [] => [] | p :: r => (fst p, abs (snd p)) :: go r end) l)
  | TA l => JArr ((fix go (l : list jt) : list jv := match l with [] => [] | v :: r => abs v :: go r end) l)
  end.
Definition abs_members (l : list (string * jt)) : list (string * jv) := map (fun p => (fst p, abs (snd p))) l.

Fixpoint jt_ok (t : jt) : bool :=
  match t with
  | TN r => num_ok r
  | TO l => (fix go (l : list (string * jt)) : bool := match l with [] => true | p :: r => jt_ok (snd p) && go r end) l
  | TA l => (fix go (l : list jt) : bool := match l with [] => true | v :: r => jt_ok v && go r end) l
  | _ => true
  end.

(* ------------------------------------------------------------------ read side: tokens -> tree (fastjson Parse) *)
Inductive frame := FObj (done : list (string * jt)) (key : option string) | FArr (done : list jt).   (* done: reversed *)
Record pstate := { p_stack : list frame; p_res : option jt }.

Definition push_val (s : pstate) (v : jt) : option pstate :=
  match p_stack s with
  | [] => match p_res s with None => Some {| p_stack := []; p_res := Some v |} | Some _ => None end   (* unexpected tail *)
  | FObj done (Some k) :: r => Some {| p_stack := FObj ((k, v) :: done) None :: r; p_res := p_res s |}
  | FObj _ None :: _ => None
  | FArr done :: r => Some {| p_stack := FArr (v :: done) :: r; p_res := p_res s |}
  end.
Definition p_step (s : option pstate) (t : tok) : option pstate :=
  match s with
  | None => None
  | Some s =>
      match t with
      | TStr x => push_val s (TS x)
      | TNum x => push_val s (TN x)
      | TTrue => push_val s (TB true)
      | TFalse => push_val s (TB false)
      | TNull => push_val s TZ
      | TObjS => Some {| p_stack := FObj [] None :: p_stack s; p_res := p_res s |}
      | TArrS => Some {| p_stack := FArr [] :: p_stack s; p_res := p_res s |}
      | TKey k => match p_stack s with
                  | FObj done None :: r => Some {| p_stack := FObj done (Some k) :: r; p_res := p_res s |}
                  | _ => None
                  end
      | TObjE => match p_stack s with
                 | FObj done None :: r => push_val {| p_stack := r; p_res := p_res s |} (TO (rev done))
                 | _ => None
                 end
      | TArrE => match p_stack s with
                 | FArr done :: r => push_val {| p_stack := r; p_res := p_res s |} (TA (rev done))
                 | _ => None
                 end
      | TBad => None
      end
  end.
Definition p_init : option pstate := Some {| p_stack := []; p_res := None |}.
Definition parse (ts : list tok) : option jt :=
  match fold_left p_step ts p_init with
  | Some s => match p_stack s with [] => p_res s | _ => None end
  | None => None
  end.

(* ------------------------------------------------------------------ write side: decodeSpan, token by token *)
Inductive zret := RTop | REp (remote : bool) (svc : string) | RTags.
Inductive zmode :=
| MStart                                              (* rawSpan.Type() must be Object *)
| MTop                                                (* in the span object: a member name or the closing brace *)
| MVal (k : zkey)                                     (* the value of a top-level member *)
| MSkip (d : nat) (r : zret)                          (* jx Skip: d brackets are open; d = 0: the value starts here *)
| MEp (remote : bool) (svc : string)                  (* parseEndpoint: in the object; svc = last serviceName seen *)
| MEpVal (remote : bool) (svc : string) (sn : bool)   (* value of an endpoint member (sn: it is serviceName) *)
| MTags
| MTagVal (k : string)
| MDone                                               (* the span object is closed *)
| MFail.
Definition ret_mode (r : zret) : zmode := match r with RTop => MTop | REp rm s => MEp rm s | RTags => MTags end.
Definition skip_step (d : nat) (r : zret) (t : tok) : zmode :=
  match t with
  | TObjS | TArrS => MSkip (S d) r
  | TObjE | TArrE => match d with O => MFail | S O => ret_mode r | S d' => MSkip d' r end
  | TKey _ => match d with O => MFail | _ => MSkip d r end
  | TBad => MFail
  | _ => match d with O => ret_mode r | _ => MSkip d r end
  end.

Definition add_kv (st : zst) (k v : string) : zst := set_svc st (z_svc st) (z_kv st ++ [(k, v)])%list.
Definition ep_prefix (remote : bool) : string := if remote then "remote_endpoint_" else "local_endpoint_".
(* the caller's use of parseEndpoint's result *)
Definition ep_close (q : quirks) (remote : bool) (svc : string) (st : zst) : zst :=
  if remote then
    let cond := if q_remote_inverted q then negb (String.eqb (z_svc st) "") else String.eqb (z_svc st) "" in
    set_svc st (if cond then svc else z_svc st) (z_kv st)
  else set_svc st (if q_remote_inverted q then svc else if String.eqb svc "" then z_svc st else svc) (z_kv st).

(* stringOrInt64 + usToNs on one token: a number goes to strconv.ParseInt as its raw text *)
Definition time_tok (q : quirks) (t : tok) : option Z :=
  match t with
  | TNum raw => match parse_int64 raw with Some x => us_to_ns q x | None => None end
  | TStr s => match parse_int64 s with Some x => us_to_ns q x | None => None end
  | _ => None
  end.
Definition hex_tok (leng : nat) (t : tok) : option string := match t with TStr s => decode_hex_str s leng | _ => None end.
Definition ok_or_fail (o : option zst) (st : zst) : zmode * zst := match o with Some st' => (MTop, st') | None => (MFail, st) end.

(* [tail_ok]: what follows the span object on an NDJSON line is ignored (the behaviour before the repair) *)
Definition w_step (q : quirks) (tail_ok : bool) (w : zmode * zst) (t : tok) : zmode * zst :=
  let '(m, st) := w in
  match m with
  | MStart => match t with TObjS => (MTop, st) | _ => (MFail, st) end
  | MTop => match t with
            | TKey k => (match zkey_of k with KOther => MSkip 0 RTop | K => MVal K end, st)
            | TObjE => (MDone, st)
            | _ => (MFail, st)
            end
  | MVal k =>
      match k with
      | KTrace => ok_or_fail (option_map (set_tid st) (hex_tok 32 t)) st
      | KId => ok_or_fail (option_map (set_sid st) (hex_tok 16 t)) st
      | KParent => ok_or_fail (option_map (set_parent st) (hex_tok 16 t)) st
      | KTimestamp => ok_or_fail (option_map (set_ts st) (time_tok q t)) st
      | KDuration => ok_or_fail (option_map (set_dur st) (time_tok q t)) st
      | KName => ok_or_fail (match t with TStr s => Some (set_name st s (z_kv st ++ [(k_name, s)])%list) | _ => None end) st
      | KLocal => match t with TObjS => (MEp false "", st) | _ => (MFail, st) end
      | KRemote => match t with TObjS => (MEp true "", st) | _ => (MFail, st) end
      | KTags => match t with TObjS => (MTags, st) | _ => (MFail, st) end
      | KOther => (skip_step 0 RTop t, st)
      end
  | MSkip d r => (skip_step d r t, st)
  | MEp rm svc => match t with
                  | TKey k => (MEpVal rm svc (String.eqb k "serviceName"), st)
                  | TObjE => (MTop, ep_close q rm svc st)
                  | _ => (MFail, st)
                  end
  | MEpVal rm svc sn =>
      if sn then match t with TStr s => (MEp rm s, add_kv st (ep_prefix rm ++ "service_name") s) | _ => (MFail, st) end
      else (skip_step 0 (REp rm svc) t, st)
  | MTags => match t with
             | TKey k => (MTagVal k, st)
             | TObjE => (MTop, set_svc st (z_svc st) (z_kv st))
             | _ => (MFail, st)
             end
  | MTagVal k => match t with TStr s => (MTags, add_kv st k s) | _ => (skip_step 0 RTags t, st) end
  | MDone => if tail_ok then (MDone, st) else (MFail, st)
  | MFail => (MFail, st)
  end.
Definition w_run (q : quirks) (tail_ok : bool) (w : zmode * zst) (ts : list tok) : zmode * zst := fold_left (w_step q tail_ok) ts w.
Definition w_finish (w : zmode * zst) : option zst := match fst w with MDone => Some (snd w) | _ => None end.
Definition zt_span (q : quirks) (tail_ok : bool) (st : zst) (ts : list tok) : option zst := w_finish (w_run q tail_ok (MStart, st) ts).

(* the rest of decodeSpan: service.name appended, onSpan *)
Definition span_tail (st' : zst) : option (span_rows * zst) :=
  let kv := (z_kv st' ++ [(k_service, z_svc st')])%list in
  let st'' := set_svc st' (z_svc st') kv in
  option_map (fun rows => (rows, st''))
    (on_span 1 (z_tid st') (z_sid st') (z_ts st') (z_dur st') (z_parent st') (z_name st') (z_svc st') (z_payload st') kv).
Definition decode_span_t (q : quirks) (tail_ok : bool) (st : zst) (ts : list tok) : option (span_rows * zst) :=
  match zt_span q tail_ok st ts with Some st' => span_tail st' | None => None end.
(* Decode in either framing over the token streams of the elements / lines.  In the array framing jx.Raw hands decodeSpan exactly
   one value, so nothing can follow it whatever [tail_ok] says. *)
Fixpoint zt_from (q : quirks) (tail_ok nd : bool) (i : N) (st : zst) (tss : list (list tok)) : option (list span_rows) :=
  match tss with
  | [] => Some []
  | ts :: r =>
      let st0 := if nd && q_nd_stateful q then st else set_payload z_init (PRef i) in
      match decode_span_t q (tail_ok && nd) st0 ts with
      | None => None
      | Some (rows, st') =>
          match zt_from q tail_ok nd (i + 1)%N st' r with None => None | Some rs => Some (rows :: rs) end
      end
  end.
Definition zt_decode (q : quirks) (tail_ok nd : bool) (tss : list (list tok)) : option (list span_rows) :=
  zt_from q tail_ok nd 0%N z_init tss.

(* ------------------------------------------------------------------ read side on tokens *)
Fixpoint jt_get (k : string) (fs : list (string * jt)) : option jt :=
  match fs with
  | [] => None
  | (k', v) :: r => if String.eqb k k' then Some v else jt_get k r
  end.
(* fastfloat.ParseUint64BestEffort: all digits and below 2^64, else 0 *)
Definition fj_uint64 (raw : string) : Z :=
  match raw with
  | EmptyString => 0
  | _ => match digits raw 0 with Some v => if v <? two64 then v else 0 | None => 0 end
  end.
(* annotations -> events: (timestamp * 1000 as uint64, value); an annotation whose product is 0 is dropped *)
Definition anno_event (a : jt) : list (Z * string) :=
  match a with
  | TO m =>
      let ts := match jt_get "timestamp" m with Some (TN raw) => (fj_uint64 raw * 1000) mod two64 | _ => 0 end in
      if ts =? 0 then [] else [(ts, match jt_get "value" m with Some (TS s) => s | _ => "" end)]
  | _ => []
  end.
Definition read_events (t : jt) : list (Z * string) :=
  match t with
  | TO fs => match jt_get "annotations" fs with Some (TA l) => flat_map anno_event l | _ => [] end
  | _ => []
  end.

(* the stored payload of a Zipkin row as tokens *)
Definition payload_toks (tss : list (list tok)) (row : trow) : option (list tok) :=
  match t_payload row with PRef i => nth_error tss (N.to_nat i) | _ => None end.
(* OutputQuery on a stored row whose payload column holds the text with these tokens *)
Definition read_row_tok (q : quirks) (tss : list (list tok)) (row : trow) : option rspan :=
  if t_ptype row =? 1 then
    match payload_toks tss row with
    | Some ts => match parse ts with Some t => parse_zipkin q row (abs t) | None => None end
    | None => None
    end
  else None.
Definition read_events_tok (tss : list (list tok)) (row : trow) : option (list (Z * string)) :=
  match payload_toks tss row with
  | Some ts => match parse ts with Some t => Some (read_events t) | None => None end
  | None => None
  end.

(* ------------------------------------------------------------------ the request a token-level input denotes *)
(* an element / line that is not exactly one JSON value denotes nothing: as a tree-level input it is a non-object (refused) *)
Definition elem_of_toks (ts : list tok) : jv := match parse ts with Some t => abs t | None => JNull end.
Definition es_of_toks (tss : list (list tok)) : list jv := map elem_of_toks tss.
Definition zin (nd : bool) (tss : list (list tok)) : input := InZipkin nd (es_of_toks tss).
(* every element is one well-formed value whose numbers are JSON numbers, and its tokens are those of its tree *)
Definition tok_eqb (a b : tok) : bool :=
  match a, b with
  | TObjS, TObjS | TObjE, TObjE | TArrS, TArrS | TArrE, TArrE | TTrue, TTrue | TFalse, TFalse | TNull, TNull | TBad, TBad => true
  | TKey x, TKey y | TStr x, TStr y | TNum x, TNum y => String.eqb x y
  | _, _ => false
  end.
Definition stream_wf (ts : list tok) : bool :=
  match parse ts with Some t => jt_ok t && list_eqb tok_eqb (toks_of t) ts | None => false end.

(* the same without the re-serialisation test: implied (proofs/SpansJsonProofs.v parse_only_toks_of: what parse accepts IS the token list of its tree) *)
Definition stream_ok (ts : list tok) : bool := match parse ts with Some t => jt_ok t | None => false end.

(* ------------------------------------------------------------------ what the text demands of kind and events (independent of the read path's code) *)
Definition nodup_names {A} (fs : list (string * A)) : bool :=
  (fix go (l : list string) : bool := match l with [] => true | k :: r => negb (existsb (String.eqb k) r) && go r end) (map fst fs).
(* an annotation {"timestamp": us, "value": text} with 0 < us, an integer literal, whose nanoseconds fit uint64 *)
Definition anno_spec (a : jt) : option (Z * string) :=
  match a with
  | TO m =>
      if nodup_names m then
        match jt_get "timestamp" m, jt_get "value" m with
        | Some (TN raw), Some (TS v) =>
            match raw with
            | EmptyString => None
            | _ => match digits raw 0 with
                   | Some us => if (0 <? us) && (us * 1000 <? two64) then Some (us * 1000, v) else None
                   | None => None
                   end
            end
        | _, _ => None
        end
      else None
  | _ => None
  end.
(* Some evs: every annotation denotes an event and the span must read back with exactly these; None: no demand *)
Definition events_spec (t : jt) : option (list (Z * string)) :=
  match t with
  | TO fs => if nodup_names fs then
               match jt_get "annotations" fs with
               | Some (TA l) => mapM anno_spec l
               | None => Some []
               | Some _ => None
               end
             else None
  | _ => None
  end.
Definition kind_spec (t : jt) : option Z :=
  match t with
  | TO fs => if nodup_names fs then
               match jt_get "kind" fs with
               | Some (TS s) => Some (if String.eqb s "CLIENT" then 3 else if String.eqb s "SERVER" then 2
                                      else if String.eqb s "PRODUCER" then 4 else if String.eqb s "CONSUMER" then 5 else 0)
               | None => Some 0
               | Some _ => None
               end
             else None
  | _ => None
  end.

(* ------------------------------------------------------------------ cases *)
(* per Zipkin request: the jx token streams of its elements / lines, and per stored row the events OutputQuery returned *)
Record tcase := {
  tc_case : case;
  tc_nd : bool;
  tc_toks : list (list tok);
  tc_events : list (option (list (Z * string)))
}.
Definition ev_eqb (a b : Z * string) : bool := (fst a =? fst b) && String.eqb (snd a) (snd b).
Definition tok_matches (c : tcase) : bool :=
  let cc := tc_case c in
  (* the streaming walk = the tree-level decoder on what the tokens denote (both are compared with the implementation through
     write_matches on [zin]; here the two models are compared with each other on the observed streams, well formed or not) *)
  opt_eqb (list_eqb (fun a b => trow_eqb (fst a) (fst b) && list_eqb arow_eqb (snd a) (snd b)))
          (zt_decode fixed false (tc_nd c) (tc_toks c)) (decode fixed (c_in cc))
  (* the read path on the stored token streams = what OutputQuery returned, row by row, events included *)
  && list_eqb (opt_eqb (rspan_eqb true)) (map (read_row_tok fixed (tc_toks c)) (c_rows cc)) (c_read cc)
  && list_eqb (opt_eqb (list_eqb ev_eqb))
              (map (fun r => match read_row_tok fixed (tc_toks c) r with Some _ => read_events_tok (tc_toks c) r | None => None end) (c_rows cc))
              (tc_events c).
Definition tok_mismatches (cs : list tcase) : list Z := map (fun c => c_id (tc_case c)) (filter (fun c => negb (tok_matches c)) cs).
(* streams that are not the tokens of one JSON value (trailing text on an NDJSON line, a text the tokenizer refuses) *)
Definition tok_illformed (cs : list tcase) : list Z :=
  map (fun c => c_id (tc_case c)) (filter (fun c => negb (forallb stream_wf (tc_toks c))) cs).
(* the oracle on the OBSERVED kind and events of every stored row whose payload is one JSON value *)
Definition row_extras_ok (tss : list (list tok)) (row : trow) (o : option rspan) (ev : option (list (Z * string))) : bool :=
  match payload_toks tss row with
  | Some ts =>
      match parse ts with
      | Some t =>
          match o with
          | Some r => match kind_spec t with Some k => rs_kind r =? k | None => true end
          | None => true       (* the missing span is reads_ok's matter *)
          end
          && match ev, events_spec t with
             | Some e, Some want => list_eqb ev_eqb e want
             | _, _ => true
             end
      | None => true
      end
  | None => true
  end.
Fixpoint rows_extras_ok (tss : list (list tok)) (rows : list trow) (os : list (option rspan)) (evs : list (option (list (Z * string)))) : bool :=
  match rows, os, evs with
  | r :: rows', o :: os', e :: evs' => row_extras_ok tss r o e && rows_extras_ok tss rows' os' evs'
  | _, _, _ => true
  end.
Definition tok_spec_violations (cs : list tcase) : list Z :=
  map (fun c => c_id (tc_case c))
      (filter (fun c => negb (c_err (tc_case c)) && negb (rows_extras_ok (tc_toks c) (c_rows (tc_case c)) (c_read (tc_case c)) (tc_events c))) cs).

(* which requests the pre-repair tail tolerance would explain *)
Definition tok_tail_explains (c : tcase) : bool :=
  let cc := tc_case c in
  match zt_decode fixed true (tc_nd c) (tc_toks c) with
  | Some rs => negb (c_err cc) && list_eqb trow_eqb (map fst rs) (c_rows cc)
  | None => c_err cc
  end.
