(* C12 -- the remaining streaming read endpoints as instances of the LTS of model/Pipeline.v:

     Loki   /loki/api/v1/label(s), /label/{name}/values, /series
     Prom   /api/v1/labels, /label/{name}/values, /series
     Tempo  /api/search/tags, /api/search/tag/{tag}/values, /api/v2/search/tags, /api/v2/search/tag/{tag}/values,
            /api/search?tags=..., /api/search?q=<TraceQL>

   Each of them answers from goroutines that forward database rows (or an already collected batch) over
   unbuffered channels to the handler loop `for x := range ch { w.Write }`:

     QueryLabelsService.GenericLabelReq / Series      header, [","] value ..., "]}"          lbl_node
     TempoService.Tags / Values / Search              one value per row                      bare_node
     TraceQLRequestProcessor.Process                  one TraceInfo per row, NO recover      tq_node
     TempoService.TagsV2 / ValuesV2 / SearchTraceQL   for b := range in { res <- ... }       fwd_node
     allTagsV2 / SimpleTagsV2 / ComplexRequestProcessor (read synchronously, then one batch on a channel that a
       goroutine closes): the source cell `cursor_cell [FBatch n]`

   plus the controller / service prelude that decides between 4xx, 5xx and "start streaming", the number of SQL
   statements a request issues (version bootstrap excluded), and the portion loop of ComplexRequestProcessor.

   Transcribed from reader/controller/{queryLabelsController,promQueryLabelsController,tempoController}.go,
   reader/service/{queryLabelsService,tempoService,tempoServiceTraceQL}.go, reader/traceql/transpiler/*.go. *)
From Coq Require Import List ZArith Bool.
From Qryn Require Import model.Pipeline model.ReadPath.
Import ListNotations.
Open Scope Z_scope.

(* ------------------------------------------------------------------ messages *)
(* a row as the scanner of the endpoint sees it *)
Inductive frow :=
| FOk                          (* converts *)
| FBad                         (* a cell rows.Scan cannot convert (NULL into a string / int64) *)
| FTrace (ns nd nt : Z).       (* TraceQL result row: len(span_ids), len(durations), len(timestamps) *)

Inductive fmsg :=
| FRow (r : frow)              (* cursor -> row goroutine *)
| FStr                         (* chan string / chan of one trace *)
| FBatch (n : Z).              (* chan []string / chan []model.TraceInfo: a slice of n elements *)

Notation fnode := (node Z fmsg).
Notation fcell := (cell Z fmsg).

Definition yes (i : Z) : bool := true.

(* ------------------------------------------------------------------ GenericLabelReq / Series: state = i, values sent so far *)
Definition lbl_on_msg (canc : bool) (i : Z) (m : fmsg) : rr Z fmsg :=
  match m with
  | FRow FOk => mkRR (if Z.eqb i 0 then [FStr] else [FStr; FStr]) false (NCont (i + 1))   (* [","] value *)
  | FRow _ => mkRR [FStr] false (NStop true)       (* Scan error: break; res <- "]}"; return (defer rows.Close()) *)
  | _ => mkRR [] false (NCont i)
  end.
Definition lbl_node : fnode := mkNode lbl_on_msg (fun _ _ => mkCR [FStr] false) yes.
(* the goroutine sends the header before it reads *)
Definition lbl_cell : fcell := mkCell lbl_node (CSend [FStr] (ACont 0)).

(* ------------------------------------------------------------------ Tempo Tags / Values / Search *)
(* a Scan error returns without rows.Close(): the result set is released by database/sql itself (Rows.awaitDone)
   when the request context ends, which net/http does as soon as the handler returned -- a drainer *)
Definition bare_on_msg (canc : bool) (i : Z) (m : fmsg) : rr Z fmsg :=
  match m with
  | FRow FOk => mkRR [FStr] false (NCont i)
  | FRow _ => mkRR [] false (NStop true)
  | _ => mkRR [] false (NCont i)
  end.
Definition bare_node : fnode := mkNode bare_on_msg (fun _ _ => mkCR [] false) yes.

(* ------------------------------------------------------------------ TraceQLRequestProcessor.Process (goroutine WITHOUT recover) *)
(* for i := range durationsNs { durationsNs[i] == timestampsNs[i] }      needs nd <= nt
   for i, id := range spanIds { durationsNs[i]; timestampsNs[i] }        needs ns <= nd (and ns <= nt)
   Since 51fb0f7 the body first compares the three lengths and ends the result (logger.Error; return, rows closed by
   the defer) when they differ; checked = false is the code before. *)
Definition trace_row_safe (ns nd nt : Z) : bool := (nd <=? nt) && (ns <=? nd).
Definition trace_row_consistent (ns nd nt : Z) : bool := Z.eqb nd ns && Z.eqb nt ns.
Definition tq_on_msg (checked : bool) (canc : bool) (i : Z) (m : fmsg) : rr Z fmsg :=
  match m with
  | FRow FBad => mkRR [] false (NStop true)                  (* logger.Error; return (defer rows.Close()) *)
  | FRow FOk => mkRR [FBatch 1] false (NCont i)
  | FRow (FTrace ns nd nt) =>
    if checked && negb (trace_row_consistent ns nd nt) then mkRR [] false (NStop true)
    else if trace_row_safe ns nd nt then mkRR [FBatch 1] false (NCont i)
    else mkRR [] false NFault                                (* index out of range: the process exits *)
  | _ => mkRR [] false (NCont i)
  end.
Definition tq_node_gen (checked : bool) : fnode := mkNode (tq_on_msg checked) (fun _ _ => mkCR [] false) yes.
Definition tq_node : fnode := tq_node_gen true.

(* ------------------------------------------------------------------ forwarders *)
(* flatten: for tags := range req { for _, v := range tags { res <- v } }   (TagsV2, ValuesV2)
   else:    for ch := range ch { res <- ch }                                (SearchTraceQL) *)
Definition fwd_on_msg (flatten : bool) (canc : bool) (i : Z) (m : fmsg) : rr Z fmsg :=
  match m with
  | FBatch n => mkRR (if flatten then repeat FStr (Z.to_nat n) else [FBatch n]) false (NCont i)
  | _ => mkRR [] false (NCont i)
  end.
Definition fwd_node (flatten : bool) : fnode := mkNode (fwd_on_msg flatten) (fun _ _ => mkCR [] false) yes.

(* the consumer inside ComplexRequestProcessor.ProcessComplexReqIteration: `for info := range _res` (leaves early only
   if strconv.ParseInt fails on a text produced by fmt.Sprintf("%d")) and the handler loops of the controllers *)
Definition sink_node : fnode := handler_node true.

Definition rcell (n : fnode) : fcell := mkCell n (CRecv 0).

(* ------------------------------------------------------------------ chains *)
Inductive fchain := ChLabel | ChBare | ChTraceQL | ChIter | ChSource (flatten : bool).

Definition fstages_gen (checked : bool) (c : fchain) : list fcell :=
  match c with
  | ChLabel => [lbl_cell; rcell sink_node]
  | ChBare => [rcell bare_node; rcell sink_node]
  | ChTraceQL => [rcell (tq_node_gen checked); rcell (fwd_node false); rcell sink_node]
  | ChIter => [rcell (tq_node_gen checked); rcell sink_node]
  | ChSource fl => [rcell (fwd_node fl); rcell sink_node]
  end.
Definition fstages : fchain -> list fcell := fstages_gen true.

(* messages on which no body faulted before 51fb0f7: everything but a ragged TraceQL row *)
Definition fmsg_ok (m : fmsg) : bool :=
  match m with FRow (FTrace ns nd nt) => trace_row_safe ns nd nt | _ => true end.

(* ------------------------------------------------------------------ requests *)
Inductive fep := FLokiLabels | FLokiValues | FLokiSeries | FPromLabels | FPromValues | FPromSeries
               | FTempoTags | FTempoValues | FTempoTagsV2 | FTempoValuesV2 | FTempoSearchTags | FTempoTraceQL.

Inductive selk := SelNone | SelOk | SelBad.   (* match[] / q / tags: absent, parses and plans, does not parse *)

Record frequest := mkF {
  f_ep : fep;
  f_start : param; f_end : param;
  f_aux_bad : bool;                       (* /api/search: limit, minDuration or maxDuration malformed *)
  f_sel : selk;
  f_rows : list frow; f_fail_after : Z (* <0: never *); f_query_err : bool;       (* the main statement *)
  f_cx : list (option Z); f_cx_err : bool;      (* the TraceQL complexity statement: its rows (None = a bad cell), failing *)
  f_boot_fail : bool }.                   (* cold version cache and one of GetVersionInfo's statements fails *)

Definition is_bad (p : param) : bool := match p with PBad => true | _ => false end.
Definition times_bad (q : frequest) : bool := is_bad (f_start q) || is_bad (f_end q).

(* what the scanner gets: rows.Next() turns false at a connection error (rows.Err is not looked at) *)
Definition served (q : frequest) : list frow :=
  if f_fail_after q <? 0 then f_rows q else firstn (Z.to_nat (f_fail_after q)) (f_rows q).

Definition row_bad (r : frow) : bool := match r with FBad => true | _ => false end.
(* rows at which the TraceQL row goroutine ends the result *)
Definition row_ends (r : frow) : bool :=
  match r with FBad => true | FTrace ns nd nt => negb (trace_row_consistent ns nd nt) | FOk => false end.
Fixpoint good_prefix (rs : list frow) : Z :=
  match rs with [] => 0 | r :: tl => if row_ends r then 0 else 1 + good_prefix tl end.

Definition run_fchain (rows : list fmsg) (c : fchain) : oclass :=
  class_of_run (fst (run run_fuel false (cells (init_config rows (fstages c))))).

(* a handler-side `for rows.Next() { if Scan fails { return err } ... }` followed by one batch on a channel *)
Definition sync_then_source (q : frequest) (stmts : Z) (fl : bool) : oclass * Z :=
  if f_query_err q then (O5xx, stmts)
  else if existsb row_bad (served q) then (O5xx, stmts)
  else (run_fchain [FBatch (Z.of_nat (length (served q)))] (ChSource fl), stmts).

Definition stream (q : frequest) (stmts : Z) (err : oclass) (c : fchain) : oclass * Z :=
  if f_query_err q then (err, stmts) else (run_fchain (map FRow (served q)) c, stmts).

(* TraceQLComplexityEvaluator.Process: the maximum of the rows, starting from 0 *)
Definition complexity_threshold : Z := 10000000.
Fixpoint cx_max (l : list (option Z)) (acc : Z) : option Z :=
  match l with
  | [] => Some acc
  | None :: _ => None
  | Some v :: tl => cx_max tl (Z.max acc v)
  end.
Definition portions_of (cx : Z) : Z := Z.quot (cx + complexity_threshold - 1) complexity_threshold.

(* ComplexRequestProcessor.Process: for i := 0; i < portions; i++ { one statement; read it to the end }.
   `left` = portions - i, the measure of the loop; every iteration sees the same scripted result set *)
Fixpoint portion_loop (left : nat) (q : frequest) (stmts : Z) : oclass * Z :=
  match left with
  | O => (run_fchain [FBatch (good_prefix (served q))] (ChSource false), stmts)
  | Datatypes.S left' =>
    if f_query_err q then (O5xx, stmts + 1)
    else match run_fchain (map FRow (served q)) ChIter with
         | O2xx => portion_loop left' q (stmts + 1)
         | c => (c, stmts + 1)
         end
  end.

Definition traceql (q : frequest) (k : Z -> oclass * Z) : oclass * Z :=
  if f_cx_err q then (O5xx, 1) else
  match cx_max (f_cx q) 0 with
  | None => (O5xx, 1)
  | Some cx => k cx
  end.

Definition tags_path (q : frequest) : oclass * Z := stream q 1 O5xx ChBare.

(* outcome class and number of SQL statements issued (GetVersionInfo's bootstrap statements not counted) *)
Definition fwd_outcome (q : frequest) : oclass * Z :=
  match f_ep q with
  | FLokiLabels => if times_bad q then (O5xx, 0) else stream q 1 O5xx ChLabel
  | FLokiValues =>
    if times_bad q then (O5xx, 0) else
    match f_sel q with SelBad => (O5xx, 0) | _ =>
      if f_boot_fail q then (O5xx, 0) else stream q 1 O5xx ChLabel end
  | FLokiSeries =>
    if times_bad q then (O4xx, 0) else
    match f_sel q with SelNone | SelBad => (O4xx, 0) | SelOk =>
      if f_boot_fail q then (O4xx, 0) else stream q 1 O4xx ChLabel end
  | FPromLabels => stream q 1 O5xx ChLabel
  | FPromValues =>
    match (if times_bad q then SelNone else f_sel q) with SelBad => (O5xx, 0) (* panic(err), tamed by the handler *) | _ =>
      if f_boot_fail q then (O5xx, 0) else stream q 1 O5xx ChLabel end
  | FPromSeries =>
    match f_sel q with
    | SelNone => (run_fchain [FStr] (ChSource false), 0)
    | SelBad => (O5xx, 0)
    | SelOk => if f_boot_fail q then (O5xx, 0) else stream q 1 O5xx ChLabel
    end
  | FTempoTags | FTempoValues => tags_path q
  | FTempoTagsV2 | FTempoValuesV2 =>
    if times_bad q then (O4xx, 0) else
    if (match f_start q with PAbsent => true | PNum v => Z.eqb v 0 | PBad => false end) then tags_path q else
    match f_sel q with
    | SelBad => (O5xx, 0)
    | SelNone => sync_then_source q 1 true
    | SelOk => traceql q (fun _ => sync_then_source q 2 true)
    end
  | FTempoSearchTags =>
    if f_aux_bad q || times_bad q then (O4xx, 0) else
    match f_sel q with
    | SelOk => if f_boot_fail q then (O5xx, 0) else tags_path q
    | _ => tags_path q
    end
  | FTempoTraceQL =>
    if f_aux_bad q || times_bad q then (O4xx, 0) else
    match f_sel q with
    | SelBad | SelNone => (O5xx, 0)
    | SelOk =>
      if f_boot_fail q then (O5xx, 0) else
      traceql q (fun cx =>
        if cx <? complexity_threshold then stream q 2 O5xx ChTraceQL
        else portion_loop (Z.to_nat (portions_of cx)) q 1)
    end
  end.

(* ------------------------------------------------------------------ correspondence cases *)
(* c_obs: the class code of model/ReadPath.v; f_stmts: statements observed, -1 = not compared (client gone) *)
Record fcase := mkFC { fc_id : Z; fc_req : frequest; fc_obs : Z; fc_stmts : Z }.

Definition fpredicted (c : fcase) : Z * Z := let '(o, n) := fwd_outcome (fc_req c) in (code_of o, n).

Definition fcase_ok (c : fcase) : bool :=
  let '(o, n) := fpredicted c in Z.eqb o (fc_obs c) && ((fc_stmts c <? 0) || Z.eqb n (fc_stmts c)).

Definition fmismatches (cs : list fcase) : list Z := map fc_id (filter (fun c => negb (fcase_ok c)) cs).
Definition fspec_violations (cs : list fcase) : list Z := map fc_id (filter (fun c => negb (spec_ok (fc_obs c))) cs).
