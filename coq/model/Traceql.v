(* AST of reader/traceql/parser/model_v2.go (what participle builds from the grammar tags),
   plus the few pure string functions of the Go standard library that the planners apply to
   the captured tokens (time.ParseDuration, strconv.ParseFloat + FormatFloat, json unquoting).

   The parser itself (participle, lexer_rules v2.go) is not modelled: the correspondence
   harness runs the real parser and hands the resulting tree to the model.  Every captured
   token is kept as the raw text the parser captured.  Three library functions are modelled
   on a stated domain and taken from the harness (fields v_unq / v_ffmt / v_dur, computed there
   by calling the Go library directly) outside it; inside the domain the check compares both.

   Executable definitions only. *)
From Coq Require Import List ZArith String Ascii Bool.
Import ListNotations.
Open Scope string_scope.

(* operators of AttrSelector.Op and Aggregator.Cmp *)
Inductive cmp := CEq | CNeq | CLt | CLe | CGt | CGe | CRe | CNre.
Definition cmp_str (c : cmp) : string :=
  match c with CEq => "=" | CNeq => "!=" | CLt => "<" | CLe => "<=" | CGt => ">" | CGe => ">=" | CRe => "=~" | CNre => "!~" end.

(* the optional And/Or token between two operands; AONone = no token captured *)
Inductive andor := AONone | AOAnd | AOOr.
Definition andor_str (a : andor) : string := match a with AONone => "" | AOAnd => "&&" | AOOr => "||" end.

(* Value: exactly one of TimeVal / FVal / StrVal is set by the grammar *)
Record value := {
  v_time : string;            (* TimeVal: Integer Dot? Integer? unit *)
  v_f : string;               (* FVal: Minus? Integer Dot? Integer? *)
  v_str : option string;      (* StrVal.Str: the token including its quotes *)
  v_unq : option string;      (* QuotedString.Unquote(): None = error *)
  v_ffmt : option string;     (* sql.FloatVal.String of strconv.ParseFloat(FVal): None = error *)
  v_dur : option Z            (* time.ParseDuration(TimeVal) in ns: None = error *)
}.
Definition val_string (v : value) : string :=       (* Value.String() *)
  match v_str v with
  | Some s => s
  | None => if negb (String.eqb (v_f v) "") then v_f v else v_time v   (* "" when neither is set *)
  end.

Record attr_sel := { a_label : string; a_op : cmp; a_val : value }.
Definition attr_sel_string (a : attr_sel) : string :=   (* AttrSelector.String() *)
  a_label a ++ " " ++ cmp_str (a_op a) ++ " " ++ val_string (a_val a).

(* AttrSelectorExp: (Head | "(" ComplexHead ")") AndOr? Tail? *)
Inductive attr_exp :=
 | AExp (head : attr_head) (ao : andor) (tail : option attr_exp)
with attr_head := HTerm (t : attr_sel) | HParen (e : attr_exp).

Inductive aggfn := AgCount | AgSum | AgMin | AgMax | AgAvg.
Record aggregator := {
  g_fn : aggfn; g_attr : string; g_cmp : cmp; g_num : string; g_meas : string;
  g_ffmt : option string;   (* FloatVal text of ParseFloat(Num+Measurement) *)
  g_durf : option string    (* FloatVal text of float64(ParseDuration(Num+Measurement).Nanoseconds()) *)
}.
Record selector := { sel_attr : option attr_exp; sel_agg : option aggregator }.
Inductive script := Script (head : selector) (ao : andor) (tail : option script).
Definition sc_head (s : script) := match s with Script h _ _ => h end.
Definition sc_ao (s : script) := match s with Script _ a _ => a end.
Definition sc_tail (s : script) := match s with Script _ _ t => t end.

(* ---------- string helpers ---------- *)
Fixpoint has_prefix (p s : string) : bool :=
  match p, s with
  | EmptyString, _ => true
  | String a p', String b s' => Ascii.eqb a b && has_prefix p' s'
  | _, _ => false
  end.
Fixpoint drop (n : nat) (s : string) : string :=
  match n, s with O, _ => s | S n', String _ r => drop n' r | _, EmptyString => EmptyString end.

Definition is_digit (c : ascii) : bool := let n := N_of_ascii c in (48 <=? n)%N && (n <=? 57)%N.
Definition digit_val (c : ascii) : N := (N_of_ascii c - 48)%N.
(* longest prefix of decimal digits: value, number of digits, rest *)
Fixpoint take_digits (s : string) (acc : N) (n : nat) : N * nat * string :=
  match s with
  | String c r => if is_digit c then take_digits r (acc * 10 + digit_val c)%N (S n) else (acc, n, s)
  | EmptyString => (acc, n, s)
  end.

(* ---------- decimal tokens: Minus? Integer Dot? Integer? ---------- *)
(* sign, integer digits, fraction digits (value and count) *)
Record dec := { d_neg : bool; d_int : N; d_frac : N; d_flen : nat; d_ilen : nat }.
Definition parse_dec (s : string) : option dec :=
  let '(neg, s1) := match s with String "-" r => (true, r) | _ => (false, s) end in
  let '(i, il, s2) := take_digits s1 0%N 0 in
  match il with
  | O => None
  | _ =>
    match s2 with
    | EmptyString => Some {| d_neg := neg; d_int := i; d_frac := 0; d_flen := 0; d_ilen := il |}
    | String "." s3 =>
        let '(f, fl, s4) := take_digits s3 0%N 0 in
        match s4 with
        | EmptyString => Some {| d_neg := neg; d_int := i; d_frac := f; d_flen := fl; d_ilen := il |}
        | _ => None
        end
    | _ => None
    end
  end.

Fixpoint zeros (n : nat) : string := match n with O => "" | S k => "0" ++ zeros k end.
(* decimal printing, shared shape with TqSql.string_of_N but kept local: no dependency *)
Fixpoint pos_dec' (fuel : nat) (n : N) (acc : string) : string :=
  match fuel with
  | O => acc
  | S f => let q := N.div n 10 in let r := N.modulo n 10 in
           let acc' := String (ascii_of_N (48 + r)) acc in
           if N.eqb q 0 then acc' else pos_dec' f q acc'
  end.
Definition str_of_N (n : N) : string := pos_dec' (S (N.to_nat (N.log2 n))) n "".

(* sql.FloatVal.String of strconv.ParseFloat(s, 64), i.e. strconv.FormatFloat(v, 'f', -1, 64): the shortest
   decimal that parses back to the same float64, without exponent.  For a decimal token with at most 15
   significant digits that is the token itself in normal form: no leading zeros, no trailing zeros in the
   fraction, no point when the fraction is empty (two decimals of at most 15 digits never share a float64).
   Outside that domain: None (the harness value is used). *)
Fixpoint strip_zeros (fuel : nat) (f : N) (fl : nat) : N * nat :=
  match fuel, fl with
  | S k, S fl' => if N.eqb (N.modulo f 10) 0 then strip_zeros k (N.div f 10) fl' else (f, fl)
  | _, _ => (f, fl)
  end.
Definition fmt_f_dec (s : string) : option string :=
  match parse_dec s with
  | Some d =>
    if Nat.leb (d_ilen d + d_flen d) 15 then
      let '(f, fl) := strip_zeros (d_flen d) (d_frac d) (d_flen d) in
      let fr := str_of_N f in
      Some ((if d_neg d then "-" else "") ++ str_of_N (d_int d)
            ++ (if Nat.eqb fl 0 then "" else "." ++ zeros (fl - String.length fr) ++ fr))
    else None
  | None => None
  end.

(* time.ParseDuration for one "<decimal><unit>" group (the grammar captures exactly one group),
   units ns us ms s m h; result in ns.  Go computes  v*unit + uint64(float64(f) * (float64(unit)/scale));
   for at most 15 digits in total that float expression is the floor of the exact rational. *)
Definition unit_ns (u : string) : option N :=
  if String.eqb u "ns" then Some 1%N else if String.eqb u "us" then Some 1000%N
  else if String.eqb u "ms" then Some 1000000%N else if String.eqb u "s" then Some 1000000000%N
  else if String.eqb u "m" then Some 60000000000%N else if String.eqb u "h" then Some 3600000000000%N
  else None.
Definition parse_duration_dec (s : string) : option (option Z) :=   (* None = outside the modelled domain; Some None = error *)
  let '(i, il, s2) := take_digits s 0%N 0 in
  match il with
  | O => None
  | _ =>
    let '(f, fl, s3) := match s2 with String "." r => take_digits r 0%N 0 | _ => (0%N, O, s2) end in
    if Nat.leb (il + fl) 15 then
      match unit_ns s3 with
      | Some u => Some (Some (Z.of_N (i * u + (f * u) / (10 ^ N.of_nat fl))))
      | None => if String.eqb s3 "d" then Some None else None
      end
    else None
  end.

(* QuotedString.Unquote on the domain: no backslash, printable ASCII only; result: the token without its quotes *)
Fixpoint plain (s : string) : bool :=
  match s with
  | EmptyString => true
  | String c r => let n := N_of_ascii c in (32 <=? n)%N && (n <? 127)%N && negb (Ascii.eqb c "\") && plain r
  end.
Fixpoint drop_last (s : string) : string :=
  match s with EmptyString => EmptyString | String c EmptyString => EmptyString | String c r => String c (drop_last r) end.
Definition unquote_plain (s : string) : option string :=
  match s with
  | String q r =>
      let body := drop_last r in
      if (Ascii.eqb q """" || Ascii.eqb q "`") && plain body && (1 <=? String.length r)%nat then
        (* a double quote inside a ticked string is escaped by Unquote before decoding and comes back unchanged *)
        Some body
      else None
  | EmptyString => None
  end.

(* the values the planners use *)
Definition num_text (v : value) : option string :=
  match fmt_f_dec (v_f v) with Some s => Some s | None => v_ffmt v end.
Definition dur_ns (v : value) : option Z :=
  match parse_duration_dec (v_time v) with Some r => r | None => v_dur v end.
Definition unquoted (v : value) : option string :=
  match v_str v with
  | Some s => match unquote_plain s with Some u => Some u | None => v_unq v end
  | None => None
  end.

(* consistency of the harness-supplied library values with the modelled domain *)
Definition value_oracles_ok (v : value) : bool :=
  (match fmt_f_dec (v_f v) with Some s => match v_ffmt v with Some s' => String.eqb s s' | None => false end | None => true end) &&
  (match parse_duration_dec (v_time v) with
   | Some r => match r, v_dur v with Some a, Some b => Z.eqb a b | None, None => true | _, _ => false end
   | None => true end) &&
  (match v_str v with
   | Some s => match unquote_plain s with Some u => match v_unq v with Some u' => String.eqb u u' | None => false end | None => true end
   | None => true end).

(* ---------- the de-duplication key of analyzeCond is AttrSelector.String(); two terms of one
   selector with the same key must be the same term for the shared bit to mean the same thing.
   True of every tree the parser builds (the token texts determine all fields); checked on
   every harness case. ---------- *)
Definition opt_eqb {A} (eq : A -> A -> bool) (a b : option A) : bool :=
  match a, b with Some x, Some y => eq x y | None, None => true | _, _ => false end.
Definition cmp_eqb (a b : cmp) : bool :=
  match a, b with
  | CEq, CEq | CNeq, CNeq | CLt, CLt | CLe, CLe | CGt, CGt | CGe, CGe | CRe, CRe | CNre, CNre => true
  | _, _ => false
  end.
Definition value_eqb (a b : value) : bool :=
  String.eqb (v_time a) (v_time b) && String.eqb (v_f a) (v_f b) && opt_eqb String.eqb (v_str a) (v_str b)
  && opt_eqb String.eqb (v_unq a) (v_unq b) && opt_eqb String.eqb (v_ffmt a) (v_ffmt b) && opt_eqb Z.eqb (v_dur a) (v_dur b).
Definition attr_sel_eqb (a b : attr_sel) : bool :=
  String.eqb (a_label a) (a_label b) && cmp_eqb (a_op a) (a_op b) && value_eqb (a_val a) (a_val b).

Fixpoint exp_terms (e : attr_exp) : list attr_sel :=
  match e with
  | AExp h _ tl =>
      (match h with HTerm t => [t] | HParen e' => exp_terms e' end ++
       match tl with Some t' => exp_terms t' | None => [] end)%list
  end.
Definition keys_ok (e : attr_exp) : bool :=
  let ts := exp_terms e in
  forallb (fun a => forallb (fun b => negb (String.eqb (attr_sel_string a) (attr_sel_string b)) || attr_sel_eqb a b) ts) ts.
