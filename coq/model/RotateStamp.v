(* Rotate over the settings table AS CLICKHOUSE KEEPS IT (property C19): every putSetting appends a row stamped with
   the server clock (now64(9)), getSetting's argMax(value, inserted_at) answers the value of SOME row of the
   fingerprint whose stamp is maximal -- which one among equal stamps is up to the server and may differ from query to
   query.  Same program as model/Rotate.v (exec / forget / alter_and_record / group_op / seq_ops, faults at any call),
   but the database holds the rows, the read goes through an answer oracle `pick` (constrained by
   RotateClock.may_read) and every statement takes the time the oracle `dur` says (index of the statement in the whole
   history, the call, whether it succeeded).  Runs of a history are separated by a gap.
   proofs/RotateStampProofs.v: when the clock never goes back and advances over every successful SELECT and ALTER,
   this program and Rotate.run do the same thing, whatever the server answers among ties; when the clock is merely
   non-decreasing they do not (witnesses below).  Executable definitions only. *)
From Coq Require Import List ZArith Bool String Ascii.
From Qryn Require Import model.Rotate model.RotateClock.
Import ListNotations.
Open Scope string_scope.
Open Scope Z_scope.

Record sdb := { sd_ttl : table -> string; sd_policy : table -> string; sd_rows : list row }.

(* what model/Rotate.v sees of it: the settings map is "the value of the row inserted last" *)
Definition abs (s : sdb) : db := {| d_ttl := sd_ttl s; d_policy := sd_policy s; d_settings := latest (sd_rows s) |}.

(* the database of model/Rotate.v that goes with a database of rows: same tables, same "value inserted last" *)
Definition same_db (s : sdb) (d : db) : Prop :=
  (forall t, sd_ttl s t = d_ttl d t) /\ (forall t, sd_policy s t = d_policy d t) /\
  (forall k, latest (sd_rows s) k = d_settings d k).

Definition is_put (c : call) : bool := match c with CPut _ _ => true | _ => false end.

Definition sapply (s : sdb) (now : Z) (c : call) : sdb :=
  match c with
  | CGet _ | CTune _ => s
  | CTtl t c ts dd =>
    let v := ttl_text c ts dd in
    {| sd_ttl := fun t' => if table_beq t' t then v else sd_ttl s t'; sd_policy := sd_policy s; sd_rows := sd_rows s |}
  | CPolicy t p =>
    {| sd_ttl := sd_ttl s; sd_policy := fun t' => if table_beq t' t then p else sd_policy s t'; sd_rows := sd_rows s |}
  | CPut g v =>
    {| sd_ttl := sd_ttl s; sd_policy := sd_policy s;
       sd_rows := (sd_rows s ++ [{| r_key := key g; r_val := v; r_ts := now |}])%list |}
  end.

(* sw_n: statements issued so far in the whole history; sw_now: the server clock when the next statement executes *)
Record sworld := { sw_db : sdb; sw_log : list (call * bool); sw_fault : fault; sw_n : nat; sw_now : Z }.

Section Stamped.
Variable pick : nat -> list row -> Z -> string.     (* the answer of the n-th statement, a settings query, for a fingerprint *)
Variable dur : nat -> call -> bool -> Z.            (* by how much the server clock advances over the n-th statement *)

Definition sexec (w : sworld) (c : call) : sworld * bool :=
  match sw_fault w with
  | Some (O, eff) =>
    ({| sw_db := if eff then sapply (sw_db w) (sw_now w) c else sw_db w; sw_log := (c, false) :: sw_log w;
        sw_fault := None; sw_n := S (sw_n w); sw_now := sw_now w + dur (sw_n w) c false |}, false)
  | Some (S k, eff) =>
    ({| sw_db := sapply (sw_db w) (sw_now w) c; sw_log := (c, true) :: sw_log w;
        sw_fault := Some (k, eff); sw_n := S (sw_n w); sw_now := sw_now w + dur (sw_n w) c true |}, true)
  | None =>
    ({| sw_db := sapply (sw_db w) (sw_now w) c; sw_log := (c, true) :: sw_log w;
        sw_fault := None; sw_n := S (sw_n w); sw_now := sw_now w + dur (sw_n w) c true |}, true)
  end.

Fixpoint sexec_all (w : sworld) (cs : list call) : sworld * bool :=
  match cs with
  | [] => (w, true)
  | c :: r => let '(w1, ok) := sexec w c in if ok then sexec_all w1 r else (w1, false)
  end.

Definition sforget (g : group) (v : string) (w : sworld) : sworld * bool :=
  if String.eqb v "" then (w, true) else sexec w (CPut g "").

Definition salter_and_record (cfg : config) (g : group) (w : sworld) : sworld * bool :=
  let '(w3, ok3) := sexec_all w (alters cfg g) in
  if ok3 then sexec w3 (CPut g (desired cfg g)) else (w3, false).

(* the value the run goes on with is what the server answered to THIS query *)
Definition sgroup_op (cfg : config) (g : group) (w : sworld) : sworld * bool :=
  let '(w1, ok1) := sexec w (CGet g) in
  if ok1 then
    let v := pick (sw_n w) (sd_rows (sw_db w)) (key g) in
    if skip cfg g v then (w1, true) else
    let '(w2, ok2) := sforget g v w1 in
    if ok2 then salter_and_record cfg g w2 else (w2, false)
  else (w1, false).

Fixpoint sseq_ops (cfg : config) (gs : list group) (w : sworld) : sworld * bool :=
  match gs with
  | [] => (w, true)
  | g :: r => let '(w1, ok) := sgroup_op cfg g w in if ok then sseq_ops cfg r w1 else (w1, false)
  end.

(* the state between runs: database, statements so far, clock *)
Record sstate := { st_db : sdb; st_n : nat; st_now : Z }.

(* one Rotate started `gap` after the previous run's last statement *)
Definition srun (cfg : config) (f : fault) (gap : Z) (st : sstate) : sworld * bool :=
  sseq_ops cfg groups {| sw_db := st_db st; sw_log := []; sw_fault := f; sw_n := st_n st; sw_now := st_now st + gap |}.
Definition state_of (w : sworld) : sstate := {| st_db := sw_db w; st_n := sw_n w; st_now := sw_now w |}.
Definition srun_st (cfg : config) (f : fault) (gap : Z) (st : sstate) : sstate := state_of (fst (srun cfg f gap st)).
Definition srun_hist (h : list (config * fault * Z)) (st : sstate) : sstate :=
  fold_left (fun st x => srun_st (fst (fst x)) (snd (fst x)) (snd x) st) h st.
End Stamped.

(* ------------------------------------------------------------------ what is assumed of the server *)
(* every answer is one ClickHouse may give *)
Definition pick_ok (pick : nat -> list row -> Z -> string) : Prop := forall n rows k, may_read rows k (pick n rows k).
(* the clock never goes back ... *)
Definition clock_mono (dur : nat -> call -> bool -> Z) : Prop := forall n c b, 0 <= dur n c b.
(* ... and a SELECT or an ALTER that was executed took time; nothing is asked of an INSERT, nor of a failed statement *)
Definition clock_advances (dur : nat -> call -> bool -> Z) : Prop := forall n c, is_put c = false -> 0 < dur n c true.

(* the state a history may start from: no row is stamped in the future, the stamps of every fingerprint strictly
   increase in insertion order *)
Definition stamps_past (s : sdb) (now : Z) : Prop := forall r, In r (sd_rows s) -> r_ts r <= now.
Definition well_stamped (st : sstate) : Prop := strict (sd_rows (st_db st)) /\ stamps_past (st_db st) (st_now st).

(* every value the server may answer for a configured group is the desired one, and the tables carry it *)
Definition sconverged (cfg : config) (s : sdb) : Prop :=
  forall g, wanted cfg g = true ->
    (forall v, may_read (sd_rows s) (key g) v -> v = desired cfg g) /\
    forall t, In t (tables_of g) -> val (abs s) g t = desired cfg g.

(* ------------------------------------------------------------------ particular servers, for the witnesses *)
(* among the rows with the greatest stamp the one inserted first (what the fake ClickHouse of the harness does) *)
Definition pick_first (rows : list row) (k : Z) : string :=
  match rows_of rows k with
  | [] => ""
  | r :: l => r_val (fold_left (fun best x => if r_ts best <? r_ts x then x else best) l r)
  end.
(* ... the one inserted last *)
Definition pick_last (rows : list row) (k : Z) : string :=
  match rows_of rows k with
  | [] => ""
  | r :: l => r_val (fold_left (fun best x => if r_ts best <=? r_ts x then x else best) l r)
  end.

Definition sfresh : sdb := {| sd_ttl := fun _ => "<initial>"; sd_policy := fun _ => "<initial>"; sd_rows := [] |}.
Definition st0 : sstate := {| st_db := sfresh; st_n := 0; st_now := 1790000000000000000 |}.

Definition wt_a : config := {| cluster := ""; distributed := false; days := []; drop_days := 30; storage_policy := "" |}.
Definition wt_b : config := {| cluster := ""; distributed := false; days := []; drop_days := 60; storage_policy := "" |}.

(* witness 1: the clock advances by a millisecond over every ALTER but not over a SELECT or an INSERT, runs follow each
   other at once; the first-inserted row wins a tie.  B applied; A interrupted right after it recorded the samples_v3
   group; B again: the row emptying that record ties with the record; interrupted after the MODIFY TTL of samples_v3;
   A again: the server still answers A's record, the group is skipped, samples_v3 keeps B's TTL. *)
Definition is_alter (c : call) : bool := match c with CTune _ | CTtl _ _ _ _ | CPolicy _ _ => true | _ => false end.
Definition wt1_dur (n : nat) (c : call) (b : bool) : Z := if is_alter c then 1000000 else 0.
Definition wt1_pick (n : nat) : list row -> Z -> string := pick_first.
Definition wt1_hist : list (config * fault * Z) :=
  [(wt_b, None, 0); (wt_a, Some (8%nat, false), 0); (wt_b, Some (6%nat, true), 0)].
Definition wt1_final : sstate := srun_st wt1_pick wt1_dur wt_a None 0 (srun_hist wt1_pick wt1_dur wt1_hist st0).

(* witness 2: the clock advances by a millisecond over every SELECT but not over an ALTER or an INSERT, runs are five
   seconds apart (so only the row emptying a record and the row recording the applied value of the same group tie); the
   server answers the row inserted first up to statement 64 and the one inserted last afterwards.  A applied, B applied
   (rows of a group: A, "", B with "" and B tied), C interrupted after its first MODIFY TTL (the query answered "":
   nothing was emptied), B again: the query answers B, the group is skipped, samples_v3 keeps C's TTL. *)
Definition wt_c : config := {| cluster := ""; distributed := false; days := []; drop_days := 90; storage_policy := "" |}.
Definition wt2_dur (n : nat) (c : call) (b : bool) : Z := match c with CGet _ => 1000000 | _ => 0 end.
Definition wt2_pick (n : nat) : list row -> Z -> string := if (n <? 65)%nat then pick_first else pick_last.
Definition wt2_hist : list (config * fault * Z) :=
  [(wt_a, None, 0); (wt_b, None, 5000000000); (wt_c, Some (5%nat, true), 5000000000)].
Definition wt2_final : sstate := srun_st wt2_pick wt2_dur wt_b None 5000000000 (srun_hist wt2_pick wt2_dur wt2_hist st0).
