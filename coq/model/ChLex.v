(* C10 — the ClickHouse lexer restricted to what decides the token structure of a statement
   (src/Parsers/Lexer.cpp nextTokenImpl, ReadHelpers.cpp readAnyQuotedStringInto /
   parseComplexEscapeSequence), transcribed from the ClickHouse sources/documentation: TRUSTED.
   String literals are scanned and decoded in one pass; whitespace and comments are dropped
   (the parser never sees them).  Executable definitions only. *)
From Coq Require Import List String Ascii Bool NArith.
Import ListNotations.
Open Scope string_scope.

Definition app1 (acc : string) (c : ascii) : string := acc ++ String c EmptyString.
Definition cN (c : ascii) : N := N_of_ascii c.
Definition in_rangeN (n lo hi : N) : bool := (lo <=? n)%N && (n <=? hi)%N.
Definition in_range (c : ascii) (lo hi : N) : bool := in_rangeN (cN c) lo hi.
Definition is_digit (c : ascii) : bool := in_range c 48 57.
(* isWordCharASCII, plus '$' which ClickHouse accepts inside bare words (heredocs are not modelled) *)
Definition is_word (c : ascii) : bool :=
  let n := cN c in
  in_rangeN n 97 122 || in_rangeN n 65 90 || in_rangeN n 48 57 || (n =? 95)%N || (n =? 36)%N.
Definition is_space (c : ascii) : bool := let n := cN c in (n =? 32)%N || in_rangeN n 9 13.
Definition is_control (c : ascii) : bool := (cN c <=? 31)%N.

(* unhex2 of ReadHelpers: table lookup, 0xff for a non-hex byte, result truncated to 8 bits *)
Definition hexval (c : ascii) : N :=
  if is_digit c then (cN c - 48)%N
  else if in_range c 97 102 then (cN c - 87)%N
  else if in_range c 65 70 then (cN c - 55)%N
  else 255%N.
Definition hex_byte (h1 h2 : ascii) : ascii := ascii_of_N ((hexval h1 * 16 + hexval h2) mod 256)%N.

(* parseEscapeSequence + the "keep the backslash" rule of parseComplexEscapeSequence for the
   byte [e] that follows a backslash (\x and \N are handled by the caller) *)
Definition unescape (e : ascii) : string :=
  if Ascii.eqb e "a" then String "007" EmptyString
  else if Ascii.eqb e "b" then String "008" EmptyString
  else if Ascii.eqb e "e" then String "027" EmptyString
  else if Ascii.eqb e "f" then String "012" EmptyString
  else if Ascii.eqb e "n" then String "010" EmptyString
  else if Ascii.eqb e "r" then String "013" EmptyString
  else if Ascii.eqb e "t" then String "009" EmptyString
  else if Ascii.eqb e "v" then String "011" EmptyString
  else if Ascii.eqb e "0" then String "000" EmptyString
  else if Ascii.eqb e "\" || Ascii.eqb e "'" || Ascii.eqb e """" || Ascii.eqb e "`"
          || Ascii.eqb e "/" || Ascii.eqb e "=" || is_control e then String e EmptyString
  else String "\" (String e EmptyString).

(* body of a '...' literal: (decoded value, text after the closing quote); None = not closed *)
Fixpoint lex_body (s acc : string) : option (string * string) :=
  match s with
  | EmptyString => None
  | String c r =>
    if Ascii.eqb c "'" then
      match r with
      | String c2 r2 => if Ascii.eqb c2 "'" then lex_body r2 (app1 acc "'") else Some (acc, r)
      | EmptyString => Some (acc, r)
      end
    else if Ascii.eqb c "\" then
      match r with
      | EmptyString => None
      | String e r2 =>
        if Ascii.eqb e "x" then
          match r2 with
          | String h1 (String h2 r3) => lex_body r3 (app1 acc (hex_byte h1 h2))
          | _ => None
          end
        else if Ascii.eqb e "N" then lex_body r2 acc
        else lex_body r2 (acc ++ unescape e)
      end
    else lex_body r (app1 acc c)
  end.

Definition lex_string (s : string) : option (string * string) :=
  match s with String c r => if Ascii.eqb c "'" then lex_body r "" else None | _ => None end.

(* `...` and "..." identifiers: same scanning rules (backslash skips a byte, doubled quote), raw text kept *)
Fixpoint qid_body (q : ascii) (s acc : string) : option (string * string) :=
  match s with
  | EmptyString => None
  | String c r =>
    if Ascii.eqb c q then
      match r with
      | String c2 r2 => if Ascii.eqb c2 q then qid_body q r2 (app1 (app1 acc q) q) else Some (acc, r)
      | EmptyString => Some (acc, r)
      end
    else if Ascii.eqb c "\" then
      match r with
      | EmptyString => None
      | String e r2 => qid_body q r2 (app1 (app1 acc c) e)
      end
    else qid_body q r (app1 acc c)
  end.

Inductive tok : Type :=
| TStr (decoded : string)
| TQId (raw : string)
| TWord (w : string)
| TNum (n : string)
| TPunct (p : string)
| TErr.

Definition one (c : ascii) : string := String c EmptyString.
Definition two (c d : ascii) : string := String c (String d EmptyString).

(* operators of two bytes *)
Definition punct2 (c d : ascii) : bool :=
  (Ascii.eqb c "-" && Ascii.eqb d ">") || (Ascii.eqb c "=" && Ascii.eqb d "=")
  || (Ascii.eqb c "!" && Ascii.eqb d "=") || (Ascii.eqb c "<" && Ascii.eqb d "=")
  || (Ascii.eqb c "<" && Ascii.eqb d ">") || (Ascii.eqb c ">" && Ascii.eqb d "=")
  || (Ascii.eqb c ":" && Ascii.eqb d ":") || (Ascii.eqb c "|" && Ascii.eqb d "|")
  || (Ascii.eqb c "@" && Ascii.eqb d "@").

Definition punct1 (c : ascii) : bool :=
  existsb (Ascii.eqb c)
    ["("; ")"; "["; "]"; "{"; "}"; ","; ";"; "."; "+"; "-"; "*"; "/"; "%"; "="; "<"; ">"; "?"; ":"; "|"; "@"; "^"]%char.

(* The lexer as a byte-at-a-time machine (no look-ahead: every look-ahead of Lexer.cpp is a state). *)
Inductive st : Type :=
| QN                                   (* between tokens *)
| QWord (w : string)                   (* bare word *)
| QNumI (n : string)                   (* number: integer part *)
| QNumF (n : string)                   (* number: after the decimal point *)
| QNumE0 (n : string)                  (* number: just after e/E (a sign may follow) *)
| QNumE (n : string)                   (* number: exponent digits *)
| QP (c : ascii)                       (* a byte that may begin a two-byte operator or a comment *)
| QHash                                (* after '#': comment only if ' ' or '!' follows *)
| QStr (acc : string)                  (* inside '...' ; acc = bytes decoded so far *)
| QStrB (acc : string)                 (* ... after a backslash *)
| QStrX (acc : string)                 (* ... after \x *)
| QStrX1 (acc : string) (h : ascii)    (* ... after \xH *)
| QStrQ (acc : string)                 (* ... after a quote: the closing quote, or the first half of '' *)
| QId (q : ascii) (acc : string)       (* inside `...` or "..." *)
| QIdB (q : ascii) (acc : string)
| QIdQ (q : ascii) (acc : string)
| QLine                                (* -- comment *)
| QBlock                               (* /* comment *)
| QBlockS                              (* /* comment, after '*' *)
| QErr.                                (* error token emitted; the rest of the input is dropped *)

Definition step_normal (c : ascii) : st * list tok :=
  let n := cN c in
  if (n =? 32)%N || in_rangeN n 9 13 then (QN, [])                      (* is_space *)
  else if (n =? 39)%N then (QStr EmptyString, [])                       (* quote *)
  else if (n =? 96)%N || (n =? 34)%N then (QId c EmptyString, [])       (* backquote, double quote *)
  else if in_rangeN n 48 57 then (QNumI (one c), [])                    (* is_digit *)
  else if in_rangeN n 97 122 || in_rangeN n 65 90 || (n =? 95)%N || (n =? 36)%N then (QWord (one c), [])
  else if (n =? 35)%N then (QHash, [])                                  (* hash *)
  else if punct1 c || (n =? 33)%N then (QP c, [])                       (* exclamation mark *)
  else (QErr, [TErr]).

(* a token ends before byte c *)
Definition emit_then (t : tok) (c : ascii) : st * list tok :=
  let '(q, out) := step_normal c in (q, t :: out).

Definition step_num_end (n : string) (c : ascii) : st * list tok :=
  if is_word c then (QErr, [TErr]) else emit_then (TNum n) c.

Definition step (q : st) (c : ascii) : st * list tok :=
  match q with
  | QN => step_normal c
  | QWord w => if is_word c then (QWord (app1 w c), []) else emit_then (TWord w) c
  | QNumI n =>
      if is_digit c then (QNumI (app1 n c), [])
      else if Ascii.eqb c "." then (QNumF (app1 n c), [])
      else if Ascii.eqb c "e" || Ascii.eqb c "E" then (QNumE0 (app1 n c), [])
      else step_num_end n c
  | QNumF n =>
      if is_digit c then (QNumF (app1 n c), [])
      else if Ascii.eqb c "e" || Ascii.eqb c "E" then (QNumE0 (app1 n c), [])
      else step_num_end n c
  | QNumE0 n =>
      if is_digit c || Ascii.eqb c "+" || Ascii.eqb c "-" then (QNumE (app1 n c), [])
      else step_num_end n c
  | QNumE n =>
      if is_digit c then (QNumE (app1 n c), []) else step_num_end n c
  | QP p =>
      if Ascii.eqb p "-" && Ascii.eqb c "-" then (QLine, [])
      else if Ascii.eqb p "/" && Ascii.eqb c "*" then (QBlock, [])
      else if punct2 p c then (QN, [TPunct (two p c)])
      else if punct1 p then emit_then (TPunct (one p)) c
      else (QErr, [TErr])
  | QHash => if Ascii.eqb c " " || Ascii.eqb c "!" then (QLine, []) else (QErr, [TErr])
  | QStr acc =>
      if Ascii.eqb c "'" then (QStrQ acc, [])
      else if Ascii.eqb c "\" then (QStrB acc, [])
      else (QStr (app1 acc c), [])
  | QStrB acc =>
      if Ascii.eqb c "x" then (QStrX acc, [])
      else if Ascii.eqb c "N" then (QStr acc, [])
      else (QStr (acc ++ unescape c), [])
  | QStrX acc => (QStrX1 acc c, [])
  | QStrX1 acc h => (QStr (app1 acc (hex_byte h c)), [])
  | QStrQ acc => if Ascii.eqb c "'" then (QStr (app1 acc "'"), []) else emit_then (TStr acc) c
  | QId q acc =>
      if Ascii.eqb c q then (QIdQ q acc, [])
      else if Ascii.eqb c "\" then (QIdB q acc, [])
      else (QId q (app1 acc c), [])
  | QIdB q acc => (QId q (app1 (app1 acc "\") c), [])
  | QIdQ q acc => if Ascii.eqb c q then (QId q (app1 (app1 acc q) q), []) else emit_then (TQId acc) c
  | QLine => if Ascii.eqb c "010" then (QN, []) else (QLine, [])
  | QBlock => if Ascii.eqb c "*" then (QBlockS, []) else (QBlock, [])
  | QBlockS => if Ascii.eqb c "/" then (QN, []) else if Ascii.eqb c "*" then (QBlockS, []) else (QBlock, [])
  | QErr => (QErr, [])
  end.

(* end of input *)
Definition flush (q : st) : list tok :=
  match q with
  | QN | QLine | QErr => []
  | QWord w => [TWord w]
  | QNumI n | QNumF n | QNumE0 n | QNumE n => [TNum n]
  | QP p => if punct1 p then [TPunct (one p)] else [TErr]
  | QStrQ acc => [TStr acc]
  | QIdQ _ acc => [TQId acc]
  | QHash | QStr _ | QStrB _ | QStrX _ | QStrX1 _ _ | QId _ _ | QIdB _ _ | QBlock | QBlockS => [TErr]
  end.

Fixpoint run (q : st) (s : string) : list tok :=
  match s with
  | EmptyString => flush q
  | String c r => let '(q', out) := step q c in out ++ run q' r
  end.

(* state reached / tokens completed after reading s *)
Fixpoint after (q : st) (s : string) : st :=
  match s with EmptyString => q | String c r => after (fst (step q c)) r end.
Fixpoint outs (q : st) (s : string) : list tok :=
  match s with EmptyString => [] | String c r => snd (step q c) ++ outs (fst (step q c)) r end.

(* after and outs in one pass (ChLexProofs.trace_spec) *)
Fixpoint trace (q : st) (s : string) : st * list tok :=
  match s with
  | EmptyString => (q, [])
  | String c r => let '(q', o) := step q c in let '(q'', o') := trace q' r in (q'', (o ++ o')%list)
  end.

Definition lex (s : string) : list tok := run QN s.

Definition st_eqb (a b : st) : bool :=
  match a, b with
  | QN, QN | QHash, QHash | QLine, QLine | QBlock, QBlock | QBlockS, QBlockS | QErr, QErr => true
  | QWord x, QWord y | QNumI x, QNumI y | QNumF x, QNumF y | QNumE0 x, QNumE0 y | QNumE x, QNumE y
  | QStr x, QStr y | QStrB x, QStrB y | QStrX x, QStrX y | QStrQ x, QStrQ y => String.eqb x y
  | QP c, QP d => Ascii.eqb c d
  | QStrX1 x c, QStrX1 y d | QId c x, QId d y | QIdB c x, QIdB d y | QIdQ c x, QIdQ d y => String.eqb x y && Ascii.eqb c d
  | _, _ => false
  end.

(* a quote read in state q opens a string literal (q is not inside a literal, quoted identifier,
   comment, nor just behind a closing quote) *)
Definition opens_literal (q : st) : bool :=
  match fst (step q "'") with QStr EmptyString => true | _ => false end.

(* ---- token skeleton: everything except the content of string literals *)
Definition skel1 (t : tok) : tok := match t with TStr _ => TStr EmptyString | x => x end.
Definition skeleton (l : list tok) : list tok := map skel1 l.
Definition lits (l : list tok) : list string :=
  flat_map (fun t => match t with TStr d => [d] | _ => [] end) l.
Definition is_err (t : tok) : bool := match t with TErr => true | _ => false end.
Definition has_err (l : list tok) : bool := existsb is_err l.

Definition tok_eqb (a b : tok) : bool :=
  match a, b with
  | TStr x, TStr y | TQId x, TQId y | TWord x, TWord y | TNum x, TNum y | TPunct x, TPunct y => String.eqb x y
  | TErr, TErr => true
  | _, _ => false
  end.

Fixpoint list_eqb {A} (eqb : A -> A -> bool) (a b : list A) : bool :=
  match a, b with
  | [], [] => true
  | x :: a', y :: b' => eqb x y && list_eqb eqb a' b'
  | _, _ => false
  end.

(* the text following a literal must not begin with a quote: '' inside a literal is an escaped quote *)
Definition safe_rest (r : string) : Prop :=
  match r with String c _ => c <> "'"%char | EmptyString => True end.
Definition safe_restb (r : string) : bool :=
  match r with String c _ => negb (Ascii.eqb c "'") | EmptyString => true end.
