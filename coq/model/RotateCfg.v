(* The way from the configuration to Rotate (property C19):
   - rotateDB (ctrl/qryn/maintenance/maintain.go): config.ClokiBaseDataBase -> []RotatePolicy by time.ParseDuration of
     every ttl_policy timeout, distributed := ClusterName != "", then Rotate;
   - RotateAll: rotateDB for every configured database, stopping at the first error;
   - portCHEnv (main.go): the environment -> DATABASE_DATA[0] (SAMPLES_DAYS through strconv.Atoi, default 7;
     STORAGE_POLICY; CLUSTER_NAME), with the error exits that come before (CLICKHOUSE_PORT, SELF_SIGNED_CERT/boolEnv).
   time.ParseDuration is an oracle (Section variable): the statements hold for every parser; the correspondence
   harness supplies the values the real parser returned.  Executable definitions only. *)
From Coq Require Import List ZArith Bool String Ascii.
From Qryn Require Import model.Rotate.
Import ListNotations.
Open Scope string_scope.
Open Scope Z_scope.

(* the fields of config.ClokiBaseDataBase read by rotateDB *)
Record ttl_elem := { e_timeout : string; e_move_to : string }.
Record dbobj := { o_cluster : string; o_ttl_policy : list ttl_elem; o_ttl_days : Z; o_storage_policy : string }.

Section Glue.
Variable parse_duration : string -> option Z.        (* time.ParseDuration: None = error, Some ns *)

(* ttlPolicy := make([]RotatePolicy, len(dbObject.TTLPolicy)); for i, p := range dbObject.TTLPolicy {
     d, err := time.ParseDuration(p.Timeout); if err != nil { return err }; ttlPolicy[i] = RotatePolicy{TTL: d, MoveTo: p.MoveTo} } *)
Fixpoint policies_of (es : list ttl_elem) : option (list policy) :=
  match es with
  | [] => Some []
  | e :: r =>
    match parse_duration (e_timeout e) with
    | None => None
    | Some ns => match policies_of r with
                 | None => None
                 | Some ps => Some ({| p_ns := ns; p_disk := e_move_to e |} :: ps)
                 end
    end
  end.

(* Rotate(connDb, dbObject.ClusterName, dbObject.ClusterName != "", ttlPolicy, dbObject.TTLDays, dbObject.StoragePolicy, ...) *)
Definition config_of (o : dbobj) : option config :=
  match policies_of (o_ttl_policy o) with
  | None => None
  | Some ps => Some {| cluster := o_cluster o; distributed := negb (String.eqb (o_cluster o) ""); days := ps;
                       drop_days := o_ttl_days o; storage_policy := o_storage_policy o |}
  end.

(* func rotateDB (the connection is given: ConnectV2 does not dial) *)
Definition rotate_db (o : dbobj) (f : fault) (d : db) : world * bool :=
  match config_of o with
  | None => ({| w_db := d; w_log := []; w_fault := f |}, false)
  | Some cfg => run cfg f d
  end.

(* func RotateAll, every configured database living behind the same connection: rendered statement log (oldest
   first), success, database afterwards; the fault counter runs over the whole call *)
Fixpoint rotate_all (os : list dbobj) (f : fault) (d : db) : list ocall * bool * db :=
  match os with
  | [] => ([], true, d)
  | o :: r =>
    match config_of o with
    | None => ([], false, d)
    | Some cfg =>
      let '(w, ok) := run cfg f d in
      let l := map (render cfg) (rev (w_log w)) in
      if ok then let '(l', ok', d') := rotate_all r (w_fault w) (w_db w) in ((l ++ l')%list, ok', d')
      else (l, false, w_db w)
    end
  end.
End Glue.

(* ------------------------------------------------------------------ strconv *)
Definition dig (c : ascii) : option Z :=
  let n := Z.of_N (N_of_ascii c) in if (48 <=? n) && (n <=? 57) then Some (n - 48) else None.
Fixpoint digits_val (s : string) (acc : Z) : option Z :=
  match s with
  | EmptyString => Some acc
  | String c r => match dig c with Some d => digits_val r (acc * 10 + d) | None => None end
  end.
(* one or more decimal digits *)
Definition decimal (s : string) : option Z := match s with EmptyString => None | _ => digits_val s 0 end.

(* strconv.Atoi on a 64-bit platform: optional sign, decimal digits only (no underscores, no spaces), int64 range *)
Definition atoi (s : string) : option Z :=
  match s with
  | EmptyString => None
  | String c r =>
    let neg := Ascii.eqb c "-" in
    let body := if neg || Ascii.eqb c "+" then r else s in
    match decimal body with
    | None => None
    | Some n => let v := if neg then - n else n in
                if (-9223372036854775808 <=? v) && (v <=? 9223372036854775807) then Some v else None
    end
  end.
(* strconv.ParseUint(s, 10, 32) *)
Definition parse_uint32 (s : string) : option Z :=
  match decimal s with Some n => if n <=? 4294967295 then Some n else None | None => None end.

(* func boolEnv(key): it reads the variable literally named "key" (os.Getenv("key")), whatever it is asked for *)
Definition bool_env (val : string) : option bool :=
  if existsb (String.eqb val) ["true"; "1"; "yes"; "y"] then Some true
  else if existsb (String.eqb val) ["false"; "0"; "no"; "n"; ""] then Some false
  else None.

(* ------------------------------------------------------------------ portCHEnv *)
Definition environ := list (string * string).
Fixpoint getenv (e : environ) (k : string) : string :=
  match e with [] => "" | (k', v) :: r => if String.eqb k k' then v else getenv r k end.

(* the retention-relevant result of portCHEnv: None = error; DATABASE_DATA afterwards otherwise.
   `preset` is DATABASE_DATA as the configuration file left it: if non-empty the environment is ignored. *)
Definition port_ch_env (e : environ) (preset : list dbobj) : option (list dbobj) :=
  match preset with
  | _ :: _ => Some preset
  | [] =>
    let port := if String.eqb (getenv e "CLICKHOUSE_PORT") "" then "9000" else getenv e "CLICKHOUSE_PORT" in
    match parse_uint32 port with
    | None => None
    | Some _ =>
      if negb (String.eqb (getenv e "SELF_SIGNED_CERT") "") && match bool_env (getenv e "key") with None => true | Some _ => false end
      then None else
      match (if String.eqb (getenv e "SAMPLES_DAYS") "" then Some 7 else atoi (getenv e "SAMPLES_DAYS")) with
      | None => None
      | Some days =>
        Some [{| o_cluster := getenv e "CLUSTER_NAME"; o_ttl_policy := []; o_ttl_days := days;
                 o_storage_policy := getenv e "STORAGE_POLICY" |}]
      end
    end
  end.

(* ------------------------------------------------------------------ several databases, and func initDB of package main
   Every configured database has a state of its own on the server (index = the database the object names; two objects
   may name the same one).  RotateAll goes through the objects in order; one fault counter over the whole call. *)
Definition upd (ds : nat -> db) (i : nat) (d : db) : nat -> db := fun j => if Nat.eqb j i then d else ds j.

Section GlueMany.
Variable parse_duration : string -> option Z.

Fixpoint rotate_all_m (os : list (nat * dbobj)) (f : fault) (ds : nat -> db) : list ocall * bool * (nat -> db) :=
  match os with
  | [] => ([], true, ds)
  | (i, o) :: r =>
    match config_of parse_duration o with
    | None => ([], false, ds)
    | Some cfg =>
      let '(w, ok) := run cfg f (ds i) in
      let l := map (render cfg) (rev (w_log w)) in
      let ds' := upd ds i (w_db w) in
      if ok then let '(l', ok', ds'') := rotate_all_m r (w_fault w) ds' in ((l ++ l')%list, ok', ds'')
      else (l, false, ds')
    end
  end.

(* the configuration the LAST object naming database i asks for *)
Fixpoint last_cfg (os : list (nat * dbobj)) (i : nat) : option config :=
  match os with
  | [] => None
  | (j, o) :: r => match last_cfg r i with
                   | Some c => Some c
                   | None => if Nat.eqb i j then config_of parse_duration o else None
                   end
  end.

(* func initDB(cfg): bVal, err := boolEnv("OMIT_CREATE_TABLES"); panic on error; return if bVal;
   err = ctrl.Init(cfg, "qryn"); panic on error; err = ctrl.Rotate(cfg, "qryn"); panic on error.
   boolEnv reads the variable literally named "key".  ctrl.Init (schema and migrations, property C18) is an input:
   it fails or not.  ctrl.Rotate = maintenance.InitDB for every database (CREATE DATABASE IF NOT EXISTS, no retention
   statement) and then RotateAll.  Result: did it panic, was ctrl.Init called, the retention statements, the databases. *)
Definition init_db (e : environ) (init_fails : bool) (os : list (nat * dbobj)) (f : fault) (ds : nat -> db)
  : bool * bool * list ocall * (nat -> db) :=
  match bool_env (getenv e "key") with
  | None => (true, false, [], ds)
  | Some true => (false, false, [], ds)
  | Some false =>
    if init_fails then (true, true, [], ds) else
    let '(l, ok, ds') := rotate_all_m os f ds in (negb ok, true, l, ds')
  end.
End GlueMany.
