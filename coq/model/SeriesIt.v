(* Model of the sample cursor of reader/model/prometheus.go (type seriesIt): Next, Seek, At.
   Executable definitions only; proofs are in proofs/SeriesItProofs.v.
   Timestamps are Z (int64 never overflows here: no arithmetic is done on them); the cursor
   index is a Z because the Go field starts at -1. *)
From Coq Require Import List ZArith Bool.
Import ListNotations.
Open Scope Z_scope.

Definition nthZ (l : list Z) (i : nat) : Z := nth i l 0.

Record cursor := { samples : list Z; idx : Z }.

Definition len (c : cursor) : Z := Z.of_nat (length (samples c)).

(* Series.Iterator() *)
Definition iterator (s : list Z) : cursor := {| samples := s; idx := -1 |}.

(* func (s *seriesIt) Next() bool { s.idx++; return s.idx < len(s.samples) } *)
Definition next (c : cursor) : cursor * bool :=
  let c' := {| samples := samples c; idx := idx c + 1 |} in (c', idx c' <? len c').

(* the loop of Seek:  for u > l { idx := (u+l)/2; if samples[idx] < t { l = idx+1; continue }; u = idx }
   fuel = number of iterations allowed; u - l + 1 always suffices (seek_loop_fuel) *)
Fixpoint seek_loop (fuel : nat) (s : list Z) (t : Z) (l u : nat) : nat :=
  match fuel with
  | O => l
  | S f =>
    if Nat.ltb l u then
      let m := Nat.div (u + l) 2 in
      if Z.ltb (nthZ s m) t then seek_loop f s t (S m) u
      else seek_loop f s t l m
    else l
  end.

(* func (s *seriesIt) Seek(t int64) bool:
     l := s.idx; if l < 0 { l = 0 }; u := len(s.samples); loop; s.idx = l; return s.idx < len(s.samples) *)
Definition seek (c : cursor) (t : Z) : cursor * bool :=
  let l0 := Z.to_nat (Z.max (idx c) 0) in
  let n := length (samples c) in
  let r := seek_loop (S n) (samples c) t l0 n in
  let c' := {| samples := samples c; idx := Z.of_nat r |} in
  (c', idx c' <? len c').

(* At(): samples[s.idx]; None = index out of range (a Go panic) *)
Definition at_ (c : cursor) : option Z :=
  if (0 <=? idx c) && (idx c <? len c) then Some (nthZ (samples c) (Z.to_nat (idx c))) else None.

(* scripts of cursor operations, as driven by the PromQL engine *)
Inductive op := ONext | OSeek (t : Z).
Inductive obs := Obs (ret : bool) (at_val : option Z).

Definition step (c : cursor) (o : op) : cursor * obs :=
  let '(c', b) := match o with ONext => next c | OSeek t => seek c t end in
  (c', Obs b (at_ c')).

Fixpoint run (c : cursor) (ops : list op) : list obs :=
  match ops with
  | [] => []
  | o :: r => let '(c', ob) := step c o in ob :: run c' r
  end.

(* ------------------------------------------------------------------------------------------
   Specification (chunkenc.Iterator contract), as an executable oracle over observations.
   The abstract cursor position is recomputed from the specification alone:
     Next  : position + 1
     Seek t: the least position p >= max(position,0) with samples[p] >= t, or len if none. *)
Fixpoint first_ge (s : list Z) (t : Z) (from : nat) (k : nat) : nat :=
  (* least i in [from, from+k) with s[i] >= t, else from+k; linear scan = the definition *)
  match k with
  | O => from
  | S k' => if Z.leb t (nthZ s from) then from else first_ge s t (S from) k'
  end.

Definition spec_pos (s : list Z) (p : Z) (o : op) : Z :=
  match o with
  | ONext => p + 1
  | OSeek t => let l0 := Z.to_nat (Z.max p 0) in
               Z.of_nat (first_ge s t l0 (length s - l0))
  end.

Definition obs_ok (s : list Z) (p' : Z) (ob : obs) : bool :=
  let n := Z.of_nat (length s) in
  match ob with
  | Obs ret v =>
    Bool.eqb ret (p' <? n) &&
    match v with
    | Some x => (0 <=? p') && (p' <? n) && (x =? nthZ s (Z.to_nat p'))
    | None => negb ((0 <=? p') && (p' <? n))
    end
  end.

Fixpoint spec_run_ok (s : list Z) (p : Z) (ops : list op) (obsl : list obs) : bool :=
  match ops, obsl with
  | [], [] => true
  | o :: r, ob :: r' => let p' := spec_pos s p o in obs_ok s p' ob && spec_run_ok s p' r r'
  | _, _ => false
  end.

(* comparison helpers used by generated case files *)
Definition obs_eqb (a b : obs) : bool :=
  match a, b with
  | Obs r1 v1, Obs r2 v2 =>
    Bool.eqb r1 r2 && match v1, v2 with Some x, Some y => x =? y | None, None => true | _, _ => false end
  end.
Fixpoint obsl_eqb (a b : list obs) : bool :=
  match a, b with
  | [], [] => true
  | x :: r, y :: r' => obs_eqb x y && obsl_eqb r r'
  | _, _ => false
  end.

Record case := { c_id : Z; c_samples : list Z; c_ops : list op; c_obs : list obs }.
Definition model_mismatch (c : case) : bool := negb (obsl_eqb (run (iterator (c_samples c)) (c_ops c)) (c_obs c)).
Definition spec_violation (c : case) : bool := negb (spec_run_ok (c_samples c) (-1) (c_ops c) (c_obs c)).
Definition mismatches (cs : list case) : list Z := map c_id (filter model_mismatch cs).
Definition spec_violations (cs : list case) : list Z := map c_id (filter spec_violation cs).
