(* C10 — LineFilterPlanner.doLike (reader/logql/logql_transpiler_v2/clickhouse_planner/planner_line_filter.go,
   after fix 0add983) and the meaning of a ClickHouse LIKE pattern (likePatternToRegexp: % any run,
   _ any byte, \% \_ \\ literal, a backslash before anything else is a literal backslash): the pattern
   semantics is TRUSTED.  Executable definitions only. *)
From Coq Require Import List String Ascii Bool.
From Qryn Require Import model.Quote model.ChLex.
Import ListNotations.
Open Scope string_scope.

(* strings.NewReplacer(`\`, `\\`, "%", `\%`, "_", `\_`).Replace(val): all search strings are one
   byte, so the replacer is a single pass per-byte map (no rescanning of replaced text).  The pairs
   are regenerated from the source as GenSqlSites.gen_like_table and compared in props/C10.v. *)
Definition like_table : list (string * string) :=
  [ (bs, bs ++ bs); ("%", bs ++ "%"); ("_", bs ++ "_") ].

Fixpoint lookup1 (tbl : list (string * string)) (c : ascii) : string :=
  match tbl with
  | [] => String c EmptyString
  | (k, v) :: t => if String.eqb k (String c EmptyString) then v else lookup1 t c
  end.
Fixpoint map_bytes (f : ascii -> string) (s : string) : string :=
  match s with EmptyString => EmptyString | String c r => f c ++ map_bytes f r end.
Definition like_escape (v : string) : string := map_bytes (lookup1 like_table) v.

(* "%" + pattern + "%" *)
Definition like_pattern (v : string) : string := "%" ++ like_escape v ++ "%".
(* enquoteStr: StringVal.String of the whole pattern; fmt.Sprintf("%s(samples.string, %s)", likeOp, enqVal) *)
Definition do_like_lit (v : string) : string := quote_seq (like_pattern v).

(* ---- LIKE pattern meaning *)
Inductive litem : Type := LAny | LOne | LCh (c : ascii).

Fixpoint like_parse (p : string) : list litem :=
  match p with
  | EmptyString => []
  | String c r =>
      if Ascii.eqb c "%" then LAny :: like_parse r
      else if Ascii.eqb c "_" then LOne :: like_parse r
      else if Ascii.eqb c "\" then
        match r with
        | String d r2 =>
            if Ascii.eqb d "%" || Ascii.eqb d "_" || Ascii.eqb d "\" then LCh d :: like_parse r2
            else LCh c :: like_parse r
        | EmptyString => [LCh c]
        end
      else LCh c :: like_parse r
  end.

Definition litem_eqb (a b : litem) : bool :=
  match a, b with
  | LAny, LAny | LOne, LOne => true
  | LCh x, LCh y => Ascii.eqb x y
  | _, _ => false
  end.

Fixpoint chars (s : string) : list litem :=
  match s with EmptyString => [] | String c r => LCh c :: chars r end.

(* "the line contains v" *)
Definition contains_pattern (v : string) : list litem := LAny :: chars v ++ [LAny].
