(* C10 — census of the SQL construction sites of the reader (data: gen/GenC10Sites.v, regenerated from
   the Go source by translate/gen_sqlsites) and the check applied to every site.  Executable definitions only. *)
From Coq Require Import List String Ascii Bool ZArith.
From Qryn Require Import model.Quote model.ChLex.
Import ListNotations.
Open Scope string_scope.

(* provenance of a formatted argument *)
Inductive cls : Type :=
| KConst          (* compile-time constant text *)
| KChoice         (* one of several constants *)
| KConfig         (* configuration: table and database names *)
| KInt            (* %d, strconv of an integer *)
| KFloat          (* %f *)
| KDate           (* time.Format("2006-01-02") *)
| KIdent          (* identifier accepted by a query lexer rule (gen_ident_alphabets) *)
| KQuoted         (* output of StringVal.String *)
| KRendered       (* output of some SQLObject.String(ctx, ...) *)
| KBuilt          (* text built by another listed site *)
| KAlias          (* generated alias / constructor argument checked where it is passed *)
| KDbHex          (* hex text read back from ClickHouse *)
| KDead           (* parameter of a function nobody calls *)
| KEscBody        (* the escape loop inside StringVal.String itself *)
| KUnclassified.  (* anything the translator's rules do not recognise *)

Inductive piece : Type :=
| PText (s : string)
| PArg (k : cls) (what : string).

Record sqlsite : Type := {
  ss_file : string;
  ss_line : Z;
  ss_kind : string;
  ss_pieces : list piece
}.

(* lexer states in which a fragment may end / in which a rendered fragment may be placed *)
Definition fragment_end_ok (q : st) : bool :=
  match q with
  | QN | QWord _ | QNumI _ | QNumF _ | QNumE0 _ | QNumE _ | QP _ | QStrQ _ | QIdQ _ _ => true
  | _ => false
  end.

(* The site's own text is run through the ClickHouse lexer machine, arguments replaced by what their
   class guarantees:
   - a quoted value must arrive where a quote opens a literal (not inside a literal, quoted identifier
     or comment, and not right behind a closing quote); afterwards the machine is behind a closing quote,
     so that a quote in the following text is caught;
   - a rendered fragment likewise (it may begin and end with a literal);
   - identifiers, dates, hex, numbers are harmless bytes wherever they stand (inside quotes they keep the
     machine inside the literal: SqlSitesProofs.plain_in_literal); numbers (%d, %f, strconv.Itoa/FormatInt/
     FormatUint/FormatFloat) are texts over numeric_alphabet below: no quote, backslash, slash, star, hash or
     white space, so they can neither open nor close a literal or a comment; the only marker they could help to
     form is "--" through a leading minus sign, excluded by requiring that the site's text before them does not
     end in a pending "-";
   - constants, aliases and configuration are trusted text;
   - an unclassified argument fails the site. *)
Definition step_piece (acc : option st) (p : piece) : option st :=
  match acc with
  | None => None
  | Some q =>
      match p with
      | PText t => Some (after q t)
      | PArg KUnclassified _ => None
      | PArg KQuoted _ | PArg KRendered _ | PArg KBuilt _ =>
          if opens_literal q then Some (QStrQ EmptyString) else None
      | PArg KEscBody _ => match q with QStr _ => Some q | _ => None end
      | PArg KInt _ | PArg KFloat _ =>
          (* numeric text may begin with a sign: it must not complete a comment marker begun by the site's text *)
          match q with QP c => if Ascii.eqb c "-" then None else Some (after q "1") | _ => Some (after q "1") end
      | PArg KDate _ => Some (after q "2000-01-01")
      | PArg KDbHex _ => Some (after q "a1")
      | PArg _ _ => Some (after q "x")
      end
  end.

Definition safe_site (s : sqlsite) : bool :=
  match fold_left step_piece (ss_pieces s) (Some QN) with
  | Some q => fragment_end_ok q
  | None => false
  end.

Definition unsafe_sites (l : list sqlsite) : list (string * Z) :=
  flat_map (fun s => if safe_site s then [] else [(ss_file s, ss_line s)]) l.

(* ---- identifier rules of the query lexers, as reviewed (compared with the regenerated ones) *)
Definition expected_ident_rules : list (string * string) :=
  [ ("logql.Macros_function", "_[a-zA-Z0-9_]+");
    ("logql.Label_name", "[a-zA-Z_][a-zA-Z0-9_]*");
    ("traceql.Label_name", "(\.[a-zA-Z_][.a-zA-Z0-9_-]*|[a-zA-Z_][.a-zA-Z0-9_-]*)");
    ("prof.Label_name", "[a-zA-Z_][a-zA-Z0-9_]*") ].

(* bytes that StringVal.String copies unchanged and that neither end nor escape inside a literal *)
Definition plain_char (c : ascii) : bool :=
  negb (Ascii.eqb c "\" || Ascii.eqb c "000" || Ascii.eqb c "010" || Ascii.eqb c "013"
        || Ascii.eqb c "008" || Ascii.eqb c "009" || Ascii.eqb c "026" || Ascii.eqb c "'").

Fixpoint all_chars (p : ascii -> bool) (s : string) : bool :=
  match s with EmptyString => true | String c r => p c && all_chars p r end.

Fixpoint mem_char (c : ascii) (s : string) : bool :=
  match s with EmptyString => false | String d r => Ascii.eqb c d || mem_char c r end.

(* every byte Go can print for an integer or a float64 in any strconv/fmt numeric format: digits, sign, point,
   exponent and hex-float letters, and the letters of NaN, +Inf, -Inf *)
Definition numeric_alphabet : string := "0123456789+-.eEpPxXabcdefABCDEFNIn".
(* bytes that could open or close a literal, quoted identifier or comment, or separate tokens *)
Definition structural_bytes : string :=
  String "'" (String "\" (String """" (String "`" (String "/" (String "*" (String "#" (String " "
  (String "009" (String "010" (String "011" (String "012" (String "013" EmptyString)))))))))))).
Definition numeric_alphabet_harmless : bool :=
  all_chars plain_char numeric_alphabet && all_chars (fun c => negb (mem_char c numeric_alphabet)) structural_bytes.

(* s consists of bytes of the alphabet *)
Definition over (alpha s : string) : bool := all_chars (fun c => mem_char c alpha) s.

Definition alphabets_plain (l : list (string * string)) : bool :=
  forallb (fun p => all_chars plain_char (snd p)) l.
