(* The stored OTLP payload as bytes (property C06): the protobuf encoding of model/SpansWire.v put under the write and the
   read path of model/Spans.v.

   Write path: proto.Marshal(span) after the resource attributes and the service names were appended = [enc_span] of the
   payload span; its byte length is what onSpan adds to spans.Size (model/SpansChunk.v).
   Read path:  parseOTLPPB = proto.Unmarshal = [dec_span]; then parseOTLP as in Spans.v.

   Executable definitions only. *)
From Coq Require Import List ZArith NArith Bool String Ascii Uint63.
From Qryn Require Import model.Spans model.SpansChunk model.SpansWire.
Import ListNotations.
Open Scope Z_scope.

(* the bytes of a stored payload, where the model knows them (Zipkin: the element's own text, kept abstract as PRef) *)
Definition payload_bytes (p : payload) : option string :=
  match p with POtlp s => Some (enc_span s) | _ => None end.

(* OutputQuery on a stored row whose payload column holds [bytes]: the OTLP branch decodes them *)
Definition read_row_wire (q : quirks) (elems : list jv) (row : trow) (bytes : option string) : option rspan :=
  if t_ptype row =? 2 then
    match bytes with
    | Some b => match dec_span b with Some s => Some (parse_otlp q s) | None => None end
    | None => None
    end
  else read_row q elems row.

(* two polynomial fingerprints of a byte string modulo 53-bit numbers, in primitive 63-bit arithmetic (h * 263 + 256 stays
   below 2^63); the harness computes the same over the real payload *)
Definition fp_p1 : int := 9007199254740881%uint63.
Definition fp_p2 : int := 9007199254740847%uint63.
Definition byte_int (c : ascii) : int :=
  match c with
  | Ascii b0 b1 b2 b3 b4 b5 b6 b7 =>
      ((if b0 then 1 else 0) + (if b1 then 2 else 0) + (if b2 then 4 else 0) + (if b3 then 8 else 0)
       + (if b4 then 16 else 0) + (if b5 then 32 else 0) + (if b6 then 64 else 0) + (if b7 then 128 else 0))%uint63
  end.
Fixpoint fp_acc (s : string) (h1 h2 : int) : int * int :=
  match s with
  | EmptyString => (h1, h2)
  | String c r => let b := byte_int c in
                  fp_acc r ((h1 * 257 + b + 1) mod fp_p1)%uint63 ((h2 * 263 + b + 1) mod fp_p2)%uint63
  end.
Definition fp61 (s : string) : int * int := fp_acc s 0%uint63 0%uint63.

(* payload sizes for the chunked emission: OTLP = length of the encoding, Zipkin = length of the element's text *)
Definition psz_store (lens : list Z) (p : payload) : Z :=
  match p with
  | POtlp s => zlen (enc_span s)
  | PRef i => nth (N.to_nat i) lens 0
  | _ => 0
  end.

(* cases: [wc_obs] = per stored row of an OTLP request (byte length, fingerprints) of the real payload column *)
Record wcase := { wc_id : Z; wc_in : input; wc_obs : list (Z * (int * int)) }.

Definition obs_eqb (a b : Z * (int * int)) : bool :=
  (fst a =? fst b) && Uint63.eqb (fst (snd a)) (fst (snd b)) && Uint63.eqb (snd (snd a)) (snd (snd b)).

(* the model's payload bytes = the stored bytes (length and fingerprints), and the model's decoder reads them back *)
Definition wire_of (sr : span_rows) : option (Z * (int * int)) :=
  match payload_bytes (t_payload (fst sr)) with
  | Some b => Some (zlen b, fp61 b)
  | None => None
  end.
Definition wire_matches (c : wcase) : bool :=
  let '(rows, _) := decode_stream fixed (wc_in c) in
  (* after an error only the flushed rows are observed: a prefix *)
  all2 (fun o sr => match wire_of sr with Some w => obs_eqb w o | None => false end)
       (wc_obs c) (firstn (List.length (wc_obs c)) rows)
  && Nat.leb (List.length (wc_obs c)) (List.length rows).
Definition wire_mismatches (cs : list wcase) : list Z := map wc_id (filter (fun c => negb (wire_matches c)) cs).

(* every payload the model stores lies in the domain of the round-trip theorem and its decoding is the payload span *)
Definition wire_roundtrips (c : wcase) : bool :=
  forallb (fun sr => match t_payload (fst sr) with
                     | POtlp s => span_wire_ok s && match dec_span (enc_span s) with Some s' => ospan_eqb s s' | None => false end
                     | _ => true
                     end) (fst (decode_stream fixed (wc_in c))).
Definition wire_roundtrip_failures (cs : list wcase) : list Z := map wc_id (filter (fun c => negb (wire_roundtrips c)) cs).
