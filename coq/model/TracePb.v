(* C15 - the protobuf branch of TempoController.Trace (reader/controller/tempoController.go, case "application/protobuf"):

     spansByServiceName := make(map[string]*v1.ResourceSpans, 100)
     for span := range res {
       if _, ok := spansByServiceName[span.ServiceName]; !ok {
         spansByServiceName[span.ServiceName] = &v1.ResourceSpans{
           Resource:   {Attributes: [{Key: "service.name", Value: string span.ServiceName}]},
           ScopeSpans: [{Spans: []}]}
       }
       m[span.ServiceName].ScopeSpans[0].Spans = append(m[span.ServiceName].ScopeSpans[0].Spans, span.Span)
       m[span.ServiceName].ScopeSpans[0].Scope = {Name: "N/A", Version: "v0"}
     }
     for _, spans := range spansByServiceName { resourceSpans = append(resourceSpans, spans) }
     bTraceData, err := proto.Marshal(&TracesData{ResourceSpans: resourceSpans})
     if err != nil { PromError(500, err.Error(), w); return }
     w.Write(bTraceData)

   A span of the channel is (service name bytes, span identity): what is inside a span is not touched by the handler
   (the harness compares the bytes of every span). The Go map is an association list (keys in the order of their
   first insertion); the order in which `range spansByServiceName` visits the keys is arbitrary in Go: it is an
   argument ([order], accepted when it is a permutation of the keys, else the insertion order is used - so the function
   is total and every behaviour of the code is [group_by_service order spans] for some order).
   proto.Marshal refuses a string field that is not UTF-8: then the answer is PromError(500). *)
From Coq Require Import List NArith ZArith Bool Ascii String.
From Qryn Require Import model.JsonStream.
Import ListNotations.
Open Scope string_scope.
Open Scope list_scope.

Definition tp_map := list (string * list Z).

(* m[s].Spans = append(m[s].Spans, x), the entry created on first sight of s *)
Fixpoint tp_add (m : tp_map) (s : string) (x : Z) : tp_map :=
  match m with
  | [] => [(s, [x])]
  | (k, l) :: r => if String.eqb k s then (k, l ++ [x]) :: r else (k, l) :: tp_add r s x
  end.
Definition tp_keys (m : tp_map) : list string := map fst m.
Fixpoint tp_get (m : tp_map) (k : string) : list Z :=
  match m with
  | [] => []
  | (k', l) :: r => if String.eqb k' k then l else tp_get r k
  end.
(* for span := range res *)
Definition tp_of (spans : list (string * Z)) : tp_map :=
  fold_left (fun m p => tp_add m (fst p) (snd p)) spans [].

Fixpoint tp_nodup (l : list string) : bool :=
  match l with [] => true | x :: r => negb (existsb (String.eqb x) r) && tp_nodup r end.
Definition tp_is_perm (order keys : list string) : bool :=
  Nat.eqb (List.length order) (List.length keys) && tp_nodup order &&
  forallb (fun k => existsb (String.eqb k) order) keys.
(* for _, spans := range spansByServiceName *)
Definition tp_visit (order : list string) (m : tp_map) : list string :=
  if tp_is_perm order (tp_keys m) then order else tp_keys m.

(* TracesData.ResourceSpans: (service name, span identities) per element *)
Definition group_by_service (order : list string) (spans : list (string * Z)) : list (string * list Z) :=
  let m := tp_of spans in map (fun k => (k, tp_get m k)) (tp_visit order m).

(* the spans of one service, in the order of the channel *)
Definition tp_ids_of (s : string) (spans : list (string * Z)) : list Z :=
  map snd (filter (fun p => String.eqb (fst p) s) spans).
(* the document read back as the list of its spans, every one with the service it is listed under *)
Definition tp_flat (gs : list (string * list Z)) : list (string * Z) :=
  List.concat (map (fun g => map (fun x => (fst g, x)) (snd g)) gs).

(* utf8.ValidString *)
Fixpoint tp_utf8_ok (s : string) : bool :=
  match s with
  | EmptyString => true
  | String a r =>
    let x := code a in
    if (x <? 128)%N then tp_utf8_ok r
    else
      match r with
      | String b r2 =>
        let y := code b in
        if utf8_two x y then tp_utf8_ok r2
        else
          match r2 with
          | String c r3 =>
            let z := code c in
            if utf8_three x y z then tp_utf8_ok r3
            else
              match r3 with
              | String g r4 => if utf8_four x y z (code g) then tp_utf8_ok r4 else false
              | EmptyString => false
              end
          | EmptyString => false
          end
      | EmptyString => false
      end
  end.

(* ------------------------------------------------------------------------------------------ *)
(* what is read off one ResourceSpans of the decoded body *)
Record tp_obs1 := {
  o_key : string;      (* key of the first resource attribute *)
  o_attr : string;     (* its string value *)
  o_strval : bool;     (* the value is a string value *)
  o_nattrs : N;        (* number of resource attributes *)
  o_sname : string;    (* ScopeSpans[0].Scope.Name *)
  o_sver : string;     (* ScopeSpans[0].Scope.Version *)
  o_nscopes : N;       (* number of ScopeSpans *)
  o_extra : N;         (* bytes of the message outside the fields above and the spans *)
  o_ids : list Z       (* span identities in document order *)
}.

Definition tp_key_service_name : string := "service.name".
Definition tp_scope_name : string := "N/A".
Definition tp_scope_version : string := "v0".

(* the ResourceSpans the handler builds for one group *)
Definition tp_obs_of_group (g : string * list Z) : tp_obs1 :=
  {| o_key := tp_key_service_name; o_attr := fst g; o_strval := true; o_nattrs := 1; o_sname := tp_scope_name;
     o_sver := tp_scope_version; o_nscopes := 1; o_extra := 0; o_ids := snd g |}.
Definition pb_doc (order : list string) (spans : list (string * Z)) : list tp_obs1 :=
  map tp_obs_of_group (group_by_service order spans).
(* badspan: a string inside some span is not UTF-8 (the spans themselves are opaque here) *)
Definition pb_status (badspan : bool) (spans : list (string * Z)) : Z :=
  if negb badspan && forallb (fun p => tp_utf8_ok (fst p)) spans then 200%Z else 500%Z.

Fixpoint tp_ids_eqb (a b : list Z) : bool :=
  match a, b with
  | [], [] => true
  | x :: a', y :: b' => Z.eqb x y && tp_ids_eqb a' b'
  | _, _ => false
  end.
Definition tp_obs1_eqb (a b : tp_obs1) : bool :=
  String.eqb (o_key a) (o_key b) && String.eqb (o_attr a) (o_attr b) && Bool.eqb (o_strval a) (o_strval b) &&
  N.eqb (o_nattrs a) (o_nattrs b) && String.eqb (o_sname a) (o_sname b) && String.eqb (o_sver a) (o_sver b) &&
  N.eqb (o_nscopes a) (o_nscopes b) && N.eqb (o_extra a) (o_extra b) && tp_ids_eqb (o_ids a) (o_ids b).
Fixpoint tp_obs_eqb (a b : list tp_obs1) : bool :=
  match a, b with
  | [], [] => true
  | x :: a', y :: b' => tp_obs1_eqb x y && tp_obs_eqb a' b'
  | _, _ => false
  end.

Record tpcase := {
  tp_id : Z;
  tp_spans : list (string * Z);   (* what went through the channel *)
  tp_badspan : bool;
  tp_status : Z;
  tp_valid : bool;                (* proto.Unmarshal accepted the body *)
  tp_obs : list tp_obs1
}.

(* correspondence: the model for the observed map order says something else than the implementation did *)
Definition pb_mismatch (c : tpcase) : bool :=
  if (pb_status (tp_badspan c) (tp_spans c) =? 200)%Z then
    let order := map o_attr (tp_obs c) in
    negb (tp_status c =? 200)%Z || negb (tp_valid c) ||
    negb (tp_is_perm order (tp_keys (tp_of (tp_spans c)))) ||
    negb (tp_obs_eqb (pb_doc order (tp_spans c)) (tp_obs c))
  else negb (tp_status c =? 500)%Z.

(* the property, read off the observation alone *)
Definition tp_shape_ok (o : tp_obs1) : bool :=
  String.eqb (o_key o) tp_key_service_name && o_strval o && N.eqb (o_nattrs o) 1 &&
  String.eqb (o_sname o) tp_scope_name && String.eqb (o_sver o) tp_scope_version && N.eqb (o_nscopes o) 1 && N.eqb (o_extra o) 0.
Definition tp_group_ok (spans : list (string * Z)) (o : tp_obs1) : bool :=
  match o_ids o with [] => false | _ => tp_ids_eqb (o_ids o) (tp_ids_of (o_attr o) spans) end.
Definition pb_violation (c : tpcase) : bool :=
  negb (tp_status c =? 200)%Z || negb (tp_valid c) ||
  negb (forallb tp_shape_ok (tp_obs c)) ||                                   (* resource / scope as documented *)
  negb (tp_nodup (map o_attr (tp_obs c))) ||                               (* one group per service *)
  negb (forallb (tp_group_ok (tp_spans c)) (tp_obs c)) ||                    (* exactly the spans of the service, in order *)
  negb (forallb (fun p => existsb (String.eqb (fst p)) (map o_attr (tp_obs c))) (tp_spans c)).  (* no service left out *)
(* the rows cannot come back: a string is not UTF-8 *)
Definition pb_refusal (c : tpcase) : bool := negb (pb_status (tp_badspan c) (tp_spans c) =? 200)%Z.

Definition pb_mismatches (cs : list tpcase) : list Z := map tp_id (filter pb_mismatch cs).
Definition pb_violations (cs : list tpcase) : list Z := map tp_id (filter pb_violation cs).
Definition pb_refusals (cs : list tpcase) : list Z := map tp_id (filter pb_refusal cs).

(* ------------------------------------------------------------------------------------------ *)
(* transport:  id | badspan | status | valid | #spans { service | identity } | #groups { key | attr | strval | nattrs |
                sname | sver | nscopes | extra | #ids { identity } } *)
Fixpoint tp_take_spans (k : nat) (fs : list string) : option (list (string * Z) * list string) :=
  match k with
  | O => Some ([], fs)
  | S k => match fs with
           | s :: i :: r => match tp_take_spans k r with
                            | Some (l, r') => Some ((unesc s, dec_Z i) :: l, r')
                            | None => None
                            end
           | _ => None
           end
  end.
Definition tp_dec_bool (s : string) : bool := negb (N.eqb (dec_N s 0) 0).
Fixpoint tp_take_groups (k : nat) (fs : list string) : option (list tp_obs1 * list string) :=
  match k with
  | O => Some ([], fs)
  | S k => match fs with
           | ky :: at_ :: sv :: na :: sn :: ve :: ns :: ex :: ni :: r =>
             match take_items (dec_nat ni) r with
             | Some (ids, r') =>
               match tp_take_groups k r' with
               | Some (l, r'') =>
                 Some ({| o_key := unesc ky; o_attr := unesc at_; o_strval := tp_dec_bool sv; o_nattrs := dec_N na 0;
                          o_sname := unesc sn; o_sver := unesc ve; o_nscopes := dec_N ns 0; o_extra := dec_N ex 0;
                          o_ids := map dec_Z ids |} :: l, r'')
               | None => None
               end
             | None => None
             end
           | _ => None
           end
  end.
Definition decode_pbcase (x : lbytes) : option tpcase :=
  match split_bar (string_of_list_byte (unLB x)) (fun y => y) with
  | id :: bad :: st :: va :: nsp :: r =>
    match tp_take_spans (dec_nat nsp) r with
    | Some (spans, ng :: r1) =>
      match tp_take_groups (dec_nat ng) r1 with
      | Some (obs, []) => Some {| tp_id := dec_Z id; tp_spans := spans; tp_badspan := tp_dec_bool bad; tp_status := dec_Z st;
                                  tp_valid := tp_dec_bool va; tp_obs := obs |}
      | _ => None
      end
    | _ => None
    end
  | _ => None
  end.
Fixpoint decode_pbcases (xs : list lbytes) : list tpcase :=
  match xs with
  | [] => []
  | x :: r => match decode_pbcase x with Some c => c :: decode_pbcases r | None => decode_pbcases r end
  end.
Definition pb_undecodable (xs : list lbytes) : Z :=
  Z.of_nat (List.length (filter (fun x => match decode_pbcase x with Some _ => false | None => true end) xs)).
