(* C12 -- the concrete read-side pipelines as instances of the LTS of model/Pipeline.v, the controller /
   service prelude that decides between 4xx, 5xx and "start streaming", and the arithmetic of the goroutines
   that run without recover (FixPeriodPlanner), with explicit failure.

   Transcribed (post-fix behaviour) from
     reader/controller/queryRangeController.go, reader/controller/utils.go
     reader/service/queryRangeService.go, reader/service/tempoService.go
     reader/logql/logql_transpiler_v2/{planner.go, planner_from_fix.go, planner_zero_eater.go}
     reader/logql/logql_transpiler_v2/shared/planner_clickhouse_getter.go
     reader/logql/logql_transpiler_v2/internal_planner/{planner_generic.go, planner_generic_aggregator.go,
       planner_lra.go, planner_limit.go, planner_parser.go, planner_fingerprint_optimizer.go}
   Data that does not influence control (labels, message text, float values) is abstracted: an entry carries
   its fingerprint, timestamp, an integer value, its error kind and whether its line parses as JSON. *)
From Coq Require Import List ZArith Bool.
From Qryn Require Import model.Pipeline.
Import ListNotations.
Open Scope Z_scope.

(* ------------------------------------------------------------------ messages and node state *)
Inductive ekind := EOk | EEof | EErr.
Record entry := mkE { e_fp : Z; e_ts : Z; e_val : Z; e_err : ekind; e_json : bool }.

Inductive rowk := ROk | RBad (* a cell rows.Scan cannot convert *) | RNoJson (* log line that is not JSON *).
Record row := mkRow { r_fp : Z; r_ts : Z; r_val : Z; r_kind : rowk }.

(* compact constructor used by generated case files: timestamp = (base + off) s + ns *)
Definition row_at (base fp off ns val : Z) (k : rowk) : row := mkRow fp ((base + off) * 1000000000 + ns) val k.

(* rows of tempo_traces as OutputQuery sees them *)
Inductive spank := SpOk | SpDecodeErr | SpPanic (* empty payload, short ids *) | SpUnknownType.

Inductive msg :=
| MRow (r : row)            (* cursor -> Scan *)
| MBatch (b : list entry)   (* chan []shared.LogEntry *)
| MStr (is_err : bool)      (* chan model.QueryRangeOutput *)
| MSpanRow (k : spank)      (* cursor -> OutputQuery *)
| MSpan.                    (* chan of SpanResponse *)

Record st := mkSt {
  s_buf : list entry;                  (* entries being collected *)
  s_n : Z;                             (* a counter: Scan's i, LimitPlanner's sent, the optimizer's size *)
  s_fp : Z;                            (* FixPeriodPlanner: current fingerprint *)
  s_len : Z;                           (* FixPeriodPlanner: len(values), -1 = nil *)
  s_flag : bool;                       (* FixPeriodPlanner: some value is non-zero *)
  s_groups : list (Z * list entry) }.  (* per-fingerprint collections (aggregator, optimizer) *)
Definition st0 : st := mkSt [] 0 0 (-1) false [].

Definition err_entry : entry := mkE 0 0 0 EErr true.
Definition eof_entry : entry := mkE 0 0 0 EEof true.
Definition entry_of_row (r : row) : entry :=
  mkE (r_fp r) (r_ts r) (r_val r) EOk (match r_kind r with RNoJson => false | _ => true end).

Notation nodeT := (node st msg).
Notation cellT := (cell st msg).

(* ------------------------------------------------------------------ ClickhouseGetterPlanner.Scan / ScanMatrix *)
(* entries := make([]LogEntry, 100); one message = one successful rows.Next() *)
Definition scan_on_msg (canc : bool) (s : st) (m : msg) : rr st msg :=
  match m with
  | MRow r =>
    if canc then mkRR [MBatch (s_buf s)] false (NStop true)      (* <-ctx.Done(): res <- entries[:i]; return (defer rows.Close()) *)
    else match r_kind r with
         | RBad => mkRR [MBatch (s_buf s ++ [err_entry])] false (NStop true)   (* Scan error: entries[i].Err = err; res <- entries[:i+1]; return *)
         | _ => let buf := s_buf s ++ [entry_of_row r] in
                if 100 <=? s_n s + 1
                then mkRR [MBatch buf] false (NCont (mkSt [] 0 (s_fp s) (s_len s) (s_flag s) (s_groups s)))
                else mkRR [] false (NCont (mkSt buf (s_n s + 1) (s_fp s) (s_len s) (s_flag s) (s_groups s)))
         end
  | _ => mkRR [] false (NCont s)
  end.
(* rows.Next() = false (end of the result set, or a connection error, which Scan does not look at) *)
Definition scan_on_close (canc : bool) (s : st) : cr msg := mkCR [MBatch (s_buf s ++ [eof_entry])] false.
Definition all_ok (s : st) : bool := true.
Definition scan_node : nodeT := mkNode scan_on_msg scan_on_close all_ok.

(* the index i of `entries[i]` after a script of rows (for the bound i < 100) *)
Fixpoint scan_index (rows : list row) (i : Z) : Z :=
  match rows with
  | [] => i
  | r :: tl => match r_kind r with RBad => i | _ => scan_index tl (if 100 <=? i + 1 then 0 else i + 1) end
  end.

(* ------------------------------------------------------------------ GenericPlanner.WrapProcess *)
Inductive cbres := CbOk | CbErr | CbPanic | CbFatal (* out of memory: not a panic, nothing recovers it *).
Record ops := mkOps {
  o_entry : st -> entry -> st * entry * cbres;                    (* OnEntry, may rewrite the entry *)
  o_slice : st -> list entry -> st * list msg * bool * cbres;     (* OnAfterEntriesSlice: sends, ctx cancel *)
  o_end : st -> list msg * cbres }.                               (* OnAfterEntries *)

Fixpoint fold_entries (o : ops) (s : st) (es acc : list entry) : st * list entry * cbres :=
  match es with
  | [] => (s, rev acc, CbOk)
  | e :: tl => let '(s', e', r) := o_entry o s e in
               match r with CbOk => fold_entries o s' tl (e' :: acc) | _ => (s', rev acc, r) end
  end.

(* recov: TamePanic is the deferred function itself (effective); drains: the deferred `for range _in {}` *)
Definition wrap_on_msg (recov drains : bool) (o : ops) (canc : bool) (s : st) (m : msg) : rr st msg :=
  match m with
  | MBatch b =>
    let '(s1, b', r1) := fold_entries o s b [] in
    match r1 with
    | CbErr => mkRR [MBatch [err_entry]] false (NStop drains)                       (* onErr(err); return *)
    | CbPanic => if recov then mkRR [MBatch [err_entry]] false (NStop drains) else mkRR [] false NFault
    | CbFatal => mkRR [] false NFault
    | CbOk =>
      let '(s2, outs, cn, r2) := o_slice o s1 b' in
      match r2 with
      | CbOk => mkRR outs cn (NCont s2)
      | CbErr => mkRR (outs ++ [MBatch [err_entry]]) cn (NStop drains)
      | CbPanic => if recov then mkRR (outs ++ [MBatch [err_entry]]) cn (NStop drains) else mkRR outs cn NFault
      | CbFatal => mkRR outs cn NFault
      end
    end
  | _ => mkRR [] false (NCont s)
  end.
Definition wrap_on_close (recov : bool) (o : ops) (canc : bool) (s : st) : cr msg :=
  let '(outs, r) := o_end o s in
  match r with
  | CbOk => mkCR outs false
  | CbErr => mkCR (outs ++ [MBatch [err_entry]]) false
  | CbPanic => if recov then mkCR (outs ++ [MBatch [err_entry]]) false else mkCR outs true
  | CbFatal => mkCR outs true
  end.
Definition wrap_node_gen (recov drains : bool) (o : ops) : nodeT :=
  mkNode (wrap_on_msg recov drains o) (wrap_on_close recov o) all_ok.
(* the code as it is: *)
Definition wrap_node (o : ops) : nodeT := wrap_node_gen true true o.

Definition with_buf (s : st) (b : list entry) : st := mkSt b (s_n s) (s_fp s) (s_len s) (s_flag s) (s_groups s).
Definition with_n (s : st) (n : Z) : st := mkSt (s_buf s) n (s_fp s) (s_len s) (s_flag s) (s_groups s).
Definition with_groups (s : st) (g : list (Z * list entry)) : st := mkSt (s_buf s) (s_n s) (s_fp s) (s_len s) (s_flag s) g.

(* ZeroEaterPlanner *)
Definition zero_eater_ops : ops := mkOps
  (fun s e => (if Z.eqb (e_val e) 0 then s else with_buf s (s_buf s ++ [e]), e, CbOk))
  (fun s _ => match s_buf s with [] => (s, [], false, CbOk) | b => (with_buf s [], [MBatch b], false, CbOk) end)
  (fun _ => ([], CbOk)).

(* ParserPlanner (json / logfmt): error entries pass; a line that does not decode keeps its stream labels and stays
   in the result (since b209640; before, it failed the request: e_json e = false gave CbErr) *)
Definition parser_ops : ops := mkOps
  (fun s e => (s, e, CbOk))
  (fun s es => (s, [MBatch es], false, CbOk))
  (fun _ => ([], CbOk)).

(* LimitPlanner: s_n = sent *)
Definition limit_ops (lim : Z) : ops := mkOps
  (fun s e => (s, e, CbOk))
  (fun s es =>
     let len := Z.of_nat (length es) in
     if lim <=? s_n s then (s, [], false, CbOk)
     else if s_n s + len <? lim then (with_n s (s_n s + len), [MBatch es], false, CbOk)
     else (with_n s lim, [MBatch (firstn (Z.to_nat (lim - s_n s)) es)], true, CbOk))     (* ctx.CancelCtx() *)
  (fun _ => ([], CbOk)).

Fixpoint group_add (g : list (Z * list entry)) (e : entry) : list (Z * list entry) :=
  match g with
  | [] => [(e_fp e, [e])]
  | (fp, es) :: tl => if Z.eqb fp (e_fp e) then (fp, es ++ [e]) :: tl else (fp, es) :: group_add tl e
  end.
Definition flush_groups (g : list (Z * list entry)) : list msg := map (fun p => MBatch (snd p)) g.

(* ResponseOptimizerPlanner: s_n = size; one send per fingerprint (Go: in map order) *)
Definition optimizer_ops : ops := mkOps
  (fun s e => (with_n (with_groups s (group_add (s_groups s) e)) (s_n s + 1), e, CbOk))
  (fun s _ => if s_n s <? 3000 then (s, [], false, CbOk)
              else (with_n (with_groups s []) 0, flush_groups (s_groups s), false, CbOk))
  (fun s => if Z.eqb (s_n s) 0 then ([], CbOk) else (flush_groups (s_groups s), CbOk)).

(* allocation of n float64: negative -> run-time panic, more than the memory there is -> fatal *)
Definition max_elems : Z := 2 ^ 27.
Definition alloc (n : Z) : cbres := if n <? 0 then CbPanic else if max_elems <? n then CbFatal else CbOk.

Fixpoint has_group (g : list (Z * list entry)) (fp : Z) : bool :=
  match g with [] => false | (f, _) :: tl => Z.eqb f fp || has_group tl fp end.

(* AggregatorPlanner.process with the LRAPlanner callbacks (rate, count_over_time, bytes_rate, bytes_over_time):
   from = ctx.From (ns), dur = range (ns), slen = streamLen *)
Definition slot (from dur : Z) (e : entry) : Z := Z.quot (e_ts e - from) dur.
Fixpoint count_slot (from dur i : Z) (es : list entry) : Z :=
  match es with [] => 0 | e :: tl => (if Z.eqb (slot from dur e) i then 1 else 0) + count_slot from dur i tl end.
Fixpoint dedup_slots (from dur : Z) (es : list entry) (seen : list Z) : list Z :=
  match es with
  | [] => rev seen
  | e :: tl => let i := slot from dur e in
               if existsb (Z.eqb i) seen then dedup_slots from dur tl seen else dedup_slots from dur tl (i :: seen)
  end.
Definition agg_emit (from dur : Z) (p : Z * list entry) : list msg :=
  match map (fun i => mkE (fst p) (from + i * dur) (count_slot from dur i (snd p)) EOk true) (dedup_slots from dur (snd p) []) with
  | [] => []
  | es => [MBatch es]
  end.
Definition agg_ops (from dur slen : Z) : ops := mkOps
  (fun s e =>
     match e_err e with
     | EErr => (s, e, CbErr)                (* return entry.Err *)
     | EEof => (s, e, CbOk)                 (* return io.EOF: not an error for WrapProcess *)
     | EOk =>
       let r := if has_group (s_groups s) (e_fp e) then CbOk
                else if 2000 <=? Z.of_nat (length (s_groups s)) then CbErr
                else alloc (slen * 2) in                          (* make([]float64, streamLen*2) *)
       match r with
       | CbOk => let i := slot from dur e * 2 in                (* stream.values[idx]++ ; values[idx+1] = 1 *)
                 if (i <? 0) || (slen * 2 <=? i + 1) then (s, e, CbPanic)
                 else (with_groups s (group_add (s_groups s) e), e, CbOk)
       | _ => (s, e, r)
       end
     end)
  (fun s _ => (s, [], false, CbOk))
  (fun s => (flat_map (agg_emit from dur) (s_groups s), CbOk)).

(* ------------------------------------------------------------------ FixPeriodPlanner (goroutine WITHOUT recover) *)
Record fpctx := mkFp { f_from : Z; f_to : Z; f_step : Z; f_dur : Z }.    (* _from, _to, ctx.Step, m.Duration in ns *)

Definition with_fix (s : st) (fp len : Z) (flag : bool) : st := mkSt (s_buf s) (s_n s) fp len flag (s_groups s).
Definition fix_export (s : st) : list msg := if s_flag s then [MBatch [mkE (s_fp s) 0 1 EOk true]] else [].

(* one entry; None = run-time panic (integer divide by zero, makeslice: len out of range, out of memory,
   slice bounds out of range, index out of range in fastFill) *)
Definition fix_entry (c : fpctx) (acc : st * list msg) (e : entry) : option (st * list msg) :=
  let '(s, outs) := acc in
  let r1 :=
    if (0 <=? s_len s) && Z.eqb (e_fp e) (s_fp s) then Some (s, outs)       (* values != nil && same series *)
    else if Z.eqb (f_step c) 0 then None
    else let len := Z.quot (f_to c - f_from c) (f_step c) + 1 in        (* make([]float64, (_to-_from)/step+1) *)
         if (len <? 0) || (max_elems <? len) then None
         else Some (with_fix s (e_fp e) len false, outs ++ fix_export s) in
  match r1 with
  | None => None
  | Some (s1, outs1) =>
    if Z.eqb (f_dur c) 0 || Z.eqb (f_step c) 0 then None else
    let q := Z.quot (e_ts e) (f_dur c) in
    let idxFrom := Z.quot (q * f_dur c - f_from c) (f_step c) in
    let idxTo := Z.quot ((q + 1) * f_dur c - f_from c) (f_step c) in
    let len := Z.max (s_len s1) 0 in
    if (idxTo <? 0) || (len <=? idxFrom) then Some (s1, outs1)
    else let a := Z.max idxFrom 0 in
         let b := if len <=? idxTo then len - 1 else idxTo in
         if b <? a then None                                           (* values[a:b+1] / fastFill: v[0] *)
         else Some (with_fix s1 (s_fp s1) (s_len s1) (s_flag s1 || negb (Z.eqb (e_val e) 0)), outs1)
  end.
Fixpoint fix_fold (c : fpctx) (acc : st * list msg) (es : list entry) : option (st * list msg) :=
  match es with
  | [] => Some acc
  | e :: tl => match fix_entry c acc e with None => None | Some acc' => fix_fold c acc' tl end
  end.
Definition fix_on_msg (c : fpctx) (canc : bool) (s : st) (m : msg) : rr st msg :=
  match m with
  | MBatch b => match fix_fold c (s, []) b with
                | None => mkRR [] false NFault
                | Some (s', outs) => mkRR outs false (NCont s')
                end
  | _ => mkRR [] false (NCont s)
  end.
(* len(values) is -1 (nil) or at least 1 *)
Definition fix_ok (s : st) : bool := (s_len s <? 0) || (1 <=? s_len s).
Definition fixperiod_node (c : fpctx) : nodeT := mkNode (fix_on_msg c) (fun _ s => mkCR (fix_export s) false) fix_ok.

(* what has to hold for the arithmetic to be safe *)
Definition fix_guard (c : fpctx) : bool :=
  (0 <? f_step c) && (0 <? f_dur c) && (f_from c <=? f_to c) &&
  (Z.quot (f_to c - f_from c) (f_step c) + 1 <=? max_elems).

(* ------------------------------------------------------------------ response encoders *)
Inductive enck := EncStreams | EncMatrix | EncVector.
(* returns the chunks written and whether the encoder gave up on an error entry *)
Fixpoint enc_scan (k : enck) (es : list entry) (acc : list msg) : list msg * bool :=
  match es with
  | [] => (acc, false)
  | e :: tl =>
    match e_err e with
    | EErr => (acc ++ [MStr true], true)                     (* onErr(e.Err, res); drain(out); return *)
    | EEof => match k with EncStreams => enc_scan k tl acc | _ => (acc, false) end   (* continue / break *)
    | EOk => enc_scan k tl (match k with EncVector => acc | _ => acc ++ [MStr false] end)
    end
  end.
Definition enc_on_msg (drains : bool) (k : enck) (canc : bool) (s : st) (m : msg) : rr st msg :=
  match m with
  | MBatch b => let '(outs, stopped) := enc_scan k b [] in
                if stopped then mkRR outs false (NStop drains) else mkRR outs false (NCont s)
  | _ => mkRR [] false (NCont s)
  end.
Definition enc_node_gen (drains : bool) (k : enck) : nodeT := mkNode (enc_on_msg drains k) (fun _ _ => mkCR [MStr false] false) all_ok.
Definition enc_node (k : enck) : nodeT := enc_node_gen true k.

(* ------------------------------------------------------------------ TempoService.OutputQuery *)
Definition oq_on_msg (recov : bool) (canc : bool) (s : st) (m : msg) : rr st msg :=
  match m with
  | MSpanRow SpOk => mkRR [MSpan] false (NCont s)
  | MSpanRow SpDecodeErr => mkRR [] false (NStop true)       (* fmt.Println(err); return; defer rows.Close() *)
  | MSpanRow SpPanic => if recov then mkRR [] false (NStop true) else mkRR [] false NFault
  | MSpanRow SpUnknownType => mkRR [] false (NCont s)        (* default: continue *)
  | _ => mkRR [] false (NCont s)
  end.
Definition oq_node_gen (recov : bool) : nodeT := mkNode (oq_on_msg recov) (fun _ _ => mkCR [] false) all_ok.
Definition oq_node : nodeT := oq_node_gen true.

(* ------------------------------------------------------------------ chains *)
Inductive shape := ShLog | ShLogJson | ShRate | ShAggJson.

Definition recv_cell (n : nodeT) : cellT := mkCell n (CRecv st0).
(* the encoders write the response header before they read *)
Definition enc_cell (k : enck) : cellT := mkCell (enc_node k) (CSend [MStr false] (ACont st0)).

(* the handler loop of the controller (QueryRange, Query, Trace ...): as the code is, it keeps receiving when a write fails *)
Definition handler_cell_gen (keeps_receiving : bool) : cellT := mkCell (handler_node keeps_receiving) (CRecv st0).
Definition handler_cell : cellT := handler_cell_gen true.

(* live tail: the ticker goroutine of QueryRangeService.Tail runs one pipeline per tick and encodes it like the streams
   writer (error entry: onErr, drain, return); its consumer, the websocket loop of QueryRangeController.Tail, returns as
   soon as a write fails or the context is done -- having deferred `go func(){ for range watcher.GetRes() {} }()` *)
Definition ws_handler_node : nodeT :=
  mkNode (fun canc s m => if canc then mkRR [] false (NStop true) else mkRR [m] false (NCont s)) (fun _ _ => mkCR [] false) all_ok.
Definition tail_tick (opsl : list ops) : list cellT :=
  recv_cell scan_node :: map (fun o => recv_cell (wrap_node o)) opsl ++ [enc_cell EncStreams; recv_cell ws_handler_node].

Record pctx := mkP { p_fix : fpctx; p_limit : Z; p_aggfrom : Z; p_slen : Z; p_instant : bool }.

Definition stages_of (sh : shape) (c : pctx) : list cellT :=
  let menc := if p_instant c then EncVector else EncMatrix in
  match sh with
  | ShLog => [recv_cell scan_node; enc_cell EncStreams; handler_cell]
  | ShLogJson => [recv_cell scan_node; recv_cell (wrap_node parser_ops); recv_cell (wrap_node (limit_ops (p_limit c)));
                  recv_cell (wrap_node optimizer_ops); enc_cell EncStreams; handler_cell]
  | ShRate => [recv_cell scan_node; recv_cell (wrap_node zero_eater_ops); recv_cell (fixperiod_node (p_fix c)); enc_cell menc;
               handler_cell]
  | ShAggJson => [recv_cell scan_node; recv_cell (wrap_node parser_ops);
                  recv_cell (wrap_node (agg_ops (p_aggfrom c) (f_dur (p_fix c)) (p_slen c)));
                  recv_cell (wrap_node zero_eater_ops); recv_cell (fixperiod_node (p_fix c)); enc_cell menc; handler_cell]
  end.

Definition trace_stages : list cellT := [recv_cell oq_node; handler_cell].

(* callbacks that never exhaust the memory *)
Definition ops_nofatal (o : ops) : Prop :=
  (forall s e, snd (o_entry o s e) <> CbFatal) /\
  (forall s es, snd (o_slice o s es) <> CbFatal) /\
  (forall s, snd (o_end o s) <> CbFatal).


(* the size/positivity conditions under which the unrecovered arithmetic of a chain is safe *)
Definition shape_guard (sh : shape) (c : pctx) : bool :=
  match sh with
  | ShRate => fix_guard (p_fix c)
  | ShAggJson => fix_guard (p_fix c) && (p_slen c * 2 <=? max_elems)
  | _ => true
  end.


(* ------------------------------------------------------------------ controller + service prelude *)
Inductive param := PAbsent | PBad | PNum (v : Z).
(* start/end: seconds (the client sends v*1e9 ns); step: milliseconds (sent as decimal seconds); limit: integer *)
Record request := mkReq {
  q_instant : bool; q_has_query : bool; q_shape : option shape (* None: the LogQL text does not parse / plan *);
  q_dur_s : Z; q_start : param; q_end : param; q_step : param; q_limit : param;
  q_rows : list row; q_fail_after : Z (* <0: never *); q_query_err : bool;
  q_boot_fail : bool (* cold version cache and one of dbVersion.GetVersionInfo's two statements fails *) }.

Inductive oclass := O2xx | O4xx | O5xx | OCrash | OLeak | OUnknown.

Definition trunc_to (t d : Z) : Z := if d <=? 0 then t else (t / d) * d.     (* time.Truncate for d | 86400 s *)

Definition is_num (p : param) : bool := match p with PNum _ => true | _ => false end.
Definition num_of (p : param) : Z := match p with PNum v => v | _ => 0 end.

(* stepMs = int64(step*1000) *)
Definition step_ms (p : param) : option Z := match p with PAbsent => Some 1000 | PBad => None | PNum v => Some v end.
Definition limit_of (def : Z) (p : param) : Z := match p with PAbsent => def | PBad => 0 | PNum v => v end.

Inductive prelude := PResp (c : oclass) | PRun (sh : shape) (c : pctx).

(* since 5180be1 the planner refuses, before any statement is issued (-> 500): more than 11,000 points per series
   (FixPeriodPlanner.Process, every matrix query) and more than 100,000 range windows (AggregatorPlanner, was 4e9) *)
Definition max_points : Z := 11000.
Definition max_windows : Z := 100000.

(* since 7e7939d FixPeriodPlanner also refuses a window that does not fit int64 nanoseconds (more than 292 years): its
   length _to - _from wrapped around to a negative number there, which passed the cap and was then allocated *)
Definition int64_limit : Z := 9223372036854775808.

Definition plan (sh : shape) (q : request) (from_s to_s stepms lim : Z) : prelude :=
  if q_dur_s q <=? 0 then (match sh with ShRate | ShAggJson => PResp O5xx | _ =>
        PRun sh (mkP (mkFp 0 0 1 1) lim 0 0 (q_instant q)) end)
  else
  let dur := q_dur_s q * 1000000000 in
  let fx := mkFp (from_s * 1000000000) (to_s * 1000000000) (stepms * 1000000) dur in
  let afrom := trunc_to from_s (q_dur_s q) in
  let ato := trunc_to to_s (q_dur_s q) + q_dur_s q in
  let slen := Z.quot ((ato - afrom) * 1000000000) dur in
  let points := Z.quot (f_to fx - f_from fx) (f_step fx) in
  match sh with
  | ShAggJson => if int64_limit <=? f_to fx - f_from fx then PResp O5xx
                 else if max_points <? points then PResp O5xx
                 else if max_windows <? slen then PResp O5xx
                 else if q_query_err q then PResp O5xx
                 else PRun sh (mkP fx lim (afrom * 1000000000) slen (q_instant q))
  | ShRate => if int64_limit <=? f_to fx - f_from fx then PResp O5xx
              else if max_points <? points then PResp O5xx
              else if q_query_err q then PResp O5xx else PRun sh (mkP fx lim (afrom * 1000000000) slen (q_instant q))
  | _ => if q_query_err q then PResp O5xx else PRun sh (mkP fx lim (afrom * 1000000000) slen (q_instant q))
  end.

Definition prelude_of (q : request) : prelude :=
  if negb (q_has_query q) then PResp O4xx else
  if q_instant q then
    (* Query: time (integer ns; bad -> 500), step, limit default 100 *)
    match q_end q with
    | PBad => PResp O5xx
    | _ =>
      match step_ms (q_step q) with
      | None => PResp O4xx
      | Some ms =>
        if limit_of 100 (q_limit q) <? 0 then PResp O4xx else     (* fix 82a27af: a negative limit is refused *)
        if ms <=? 0 then PResp O4xx else
        match q_shape q with
        | None => PResp O5xx
        | Some sh => if q_boot_fail q then PResp O5xx   (* prepareOutput: GetVersionInfo error *)
                     else let t := num_of (q_end q) in plan sh q (t - 300) t ms (limit_of 100 (q_limit q))
        end
      end
    end
  else
    if negb (is_num (q_start q)) || negb (is_num (q_end q)) then PResp O4xx else
    match step_ms (q_step q) with
    | None => PResp O4xx
    | Some ms =>
      if limit_of 0 (q_limit q) <? 0 then PResp O4xx else
      if ms <=? 0 then PResp O4xx else
      if num_of (q_end q) <? num_of (q_start q) then PResp O4xx else
      match q_shape q with
      | None => PResp O5xx
      | Some sh => if q_boot_fail q then PResp O5xx
                   else plan sh q (num_of (q_start q)) (num_of (q_end q)) ms (limit_of 0 (q_limit q))
      end
    end.

Definition cursor_rows (q : request) : list msg :=
  map MRow (if q_fail_after q <? 0 then q_rows q else firstn (Z.to_nat (q_fail_after q)) (q_rows q)).

Definition run_fuel : nat := N.to_nat 20000.

Definition class_of_run (r : run_result) : oclass :=
  match r with RDone => O2xx | RCrash => OCrash | RStuck => OLeak | RFuel => OUnknown end.

Definition model_outcome (q : request) : oclass :=
  match prelude_of q with
  | PResp c => c
  | PRun sh c => class_of_run (fst (run run_fuel false (cells (init_config (cursor_rows q) (stages_of sh c)))))
  end.

Definition trace_outcome (rows : list spank) : oclass :=
  class_of_run (fst (run run_fuel false (cells (init_config (map MSpanRow rows) trace_stages)))).

(* ------------------------------------------------------------------ correspondence cases *)
(* observed: 0 = 2xx, 1 = 4xx, 2 = 5xx, 3 = crash, 4 = leak (goroutine or cursor left behind), 5 = hang, 6 = abort,
   10 = a healthy request sent afterwards was not answered (the process stopped serving) *)
Definition code_of (c : oclass) : Z :=
  match c with O2xx => 0 | O4xx => 1 | O5xx => 2 | OCrash => 3 | OLeak => 4 | OUnknown => 9 end.

Inductive subject := SLoki (q : request) | STrace (rows : list spank).
Record case := mkCase { c_id : Z; c_subj : subject; c_obs : Z }.

Definition predicted (c : case) : oclass :=
  match c_subj c with SLoki q => model_outcome q | STrace rows => trace_outcome rows end.

Definition mismatches (cs : list case) : list Z :=
  map c_id (filter (fun c => negb (Z.eqb (code_of (predicted c)) (c_obs c))) cs).

(* the property's oracle on the OBSERVED behaviour: an HTTP response, nothing left behind *)
Definition spec_ok (obs : Z) : bool := Z.eqb obs 0 || Z.eqb obs 1 || Z.eqb obs 2.
Definition spec_violations (cs : list case) : list Z := map c_id (filter (fun c => negb (spec_ok (c_obs c))) cs).
(* cases the model itself predicts to violate the property (recorded finding: unbounded matrix range) *)
Definition predicted_violations (cs : list case) : list Z :=
  map c_id (filter (fun c => negb (spec_ok (code_of (predicted c)))) cs).
