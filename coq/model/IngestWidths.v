(* C02: the widths of the FixedString columns (trace_id FixedString(16), span_id FixedString(8)) -- the part of the insert
   path the cell model of model/Ingest.v does not see (cells carry no bytes).  ch-go's ColFixedStr.Append(b) panics
   ("invalid size") when len(b) differs from the size the acquirer set (tempoInsertService.go acq(): SetSize(16) / SetSize(8),
   again after every swapBuffers), and nothing on the doPush goroutine recovers: the process dies.  The byte-level rows are
   the ones of C06's model/Spans.v (trow / arow, on_span = builder.go onSpan at byte level: reused, not duplicated).
   Executable definitions only. *)
From Coq Require Import List String ZArith Bool.
From Qryn Require Import model.Spans.
Import ListNotations.

(* proto.ColFixedStr with Size = w > 0: Append *)
Definition fixed_append (w : nat) (buf : list string) (b : string) : option (list string) :=
  if Nat.eqb (String.length b) w then Some (buf ++ [b])%list else None.          (* None: panic("invalid size") *)
(* service.FixedStrAdaptor.AppendArr / ColFixedStr.AppendArr: for _, e := range arr { Append(e) } *)
Fixpoint fixed_append_arr (w : nat) (buf : list string) (arr : list string) : option (list string) :=
  match arr with
  | [] => Some buf
  | b :: r => match fixed_append w buf b with Some buf' => fixed_append_arr w buf' r | None => None end
  end.

(* the two FixedString columns of the span service / of the tag service after ProcessRequest (the other columns cannot
   panic: model/Ingest.v eff); None = the process died *)
Definition process_span_ids (tbuf sbuf : list string) (rows : list trow) : option (list string * list string) :=
  match fixed_append_arr 16 tbuf (map t_trace rows) with
  | None => None
  | Some t => match fixed_append_arr 8 sbuf (map t_span rows) with Some s => Some (t, s) | None => None end
  end.
Definition process_tag_ids (tbuf sbuf : list string) (rows : list arow) : option (list string * list string) :=
  match fixed_append_arr 16 tbuf (map a_trace rows) with
  | None => None
  | Some t => match fixed_append_arr 8 sbuf (map a_span rows) with Some s => Some (t, s) | None => None end
  end.

(* one call of onSpan as the decoders make it (any ids) *)
Record span_call := {
  sc_ptype : Z; sc_tid : string; sc_sid : string; sc_ts : Z; sc_dur : Z; sc_parent : string; sc_name : string; sc_svc : string;
  sc_payload : payload; sc_kv : amap }.
Definition call_on_span (c : span_call) : option (trow * list arow) :=
  on_span (sc_ptype c) (sc_tid c) (sc_sid c) (sc_ts c) (sc_dur c) (sc_parent c) (sc_name c) (sc_svc c) (sc_payload c) (sc_kv c).

(* the rows accumulated by the calls of one request up to the first refused one (onSpan returns the 400 error: Decode stops,
   the batch is dropped); the parser sends any consecutive run of them as one chunk (flush above 1 MiB) *)
Fixpoint accepted (calls : list span_call) : list (trow * list arow) :=
  match calls with
  | [] => []
  | c :: r => match call_on_span c with Some x => x :: accepted r | None => [] end
  end.

(* the places that append to a trace-id / span-id slice of a request struct (regenerated: translate/gen_c02_columns) *)
Definition id_producers_model : list (string * string * string) :=
  [("utils/unmarshal/builder.go", "parserDoer.onSpan", "attrs.MSpanId"); ("utils/unmarshal/builder.go", "parserDoer.onSpan", "attrs.MTraceId");
   ("utils/unmarshal/builder.go", "parserDoer.onSpan", "spans.MSpanId"); ("utils/unmarshal/builder.go", "parserDoer.onSpan", "spans.MTraceId")].
Fixpoint producers_eqb (a b : list (string * string * string)) : bool :=
  match a, b with
  | [], [] => true
  | (x, y, z) :: r, (x', y', z') :: r' => String.eqb x x' && String.eqb y y' && String.eqb z z' && producers_eqb r r'
  | _, _ => false
  end.
