(* C01: the wrapped system (with ConfirmSeries, model/PushConfirm.v) under the fault adversary of model/IngestFair.v -- the
   database may refuse connections and leave watchdog pings unanswered, finitely often (budget b).  next_act_cf takes the
   adversary's fault when it is enabled and the budget is not used up, otherwise the step of next_act_c (model/IngestConfirmSched.v).
   Variant mu_c c + 2 b.  Executable definitions only (theorems: proofs/IngestConfirmFairProofs.v, props/C01.v). *)
From Coq Require Import List NArith ZArith Bool.
From Qryn Require Import model.Ingest model.PushHandler model.PushConfirm model.IngestSched model.IngestFair model.IngestConfirmSched.
Import ListNotations.

Definition lift_own_c (b : nat) (o : option cact) : option (cact * nat) :=
  match o with Some a => Some (a, b) | None => None end.
Definition next_act_cf (db : gstate -> nat -> bool) (adv : gstate -> nat -> option fault) (c : cstate) (b : nat) : option (cact * nat) :=
  match b with
  | O => lift_own_c b (next_act_c db c)
  | S b' =>
      match adv (base c) b with
      | Some f => match gstep (base c) (fault_act f) with
                  | Some _ => Some (CBase (fault_act f), b')
                  | None => lift_own_c b (next_act_c db c)
                  end
      | None => lift_own_c b (next_act_c db c)
      end
  end.
Definition mucf (c : cstate) (b : nat) : nat := mu_c c + 2 * b.

Fixpoint run_sched_cf (db : gstate -> nat -> bool) (adv : gstate -> nat -> option fault) (fuel : nat) (c : cstate) (b : nat)
  : cstate * nat * list cact * list cevent :=
  match fuel with
  | O => (c, b, [], [])
  | S f =>
      match next_act_cf db adv c b with
      | None => (c, b, [], [])
      | Some (a, b1) =>
          match cstep c a with
          | None => (c, b, [], [])
          | Some (c1, e1) => let '(c2, b2, tr, e2) := run_sched_cf db adv f c1 b1 in (c2, b2, a :: tr, e1 ++ e2)
          end
      end
  end.
Definition cnonew (a : cact) : bool := match a with CBase b => nonew b | CConfirm _ => true end.
Definition cis_fault (a : cact) : bool := match a with CBase b => is_fault b | CConfirm _ => false end.
