(* C10 — the segmented renderer over the label-values and series statements of QueryLabelsService as modelled by C13
   (model/ScansPlanners.v: ValuesPlanner, SeriesPlanner, MultiStreamSelectPlanner over LogqlPlan.stream_select; tied byte for byte to the
   real router by C13's check and, on the hostile requests, by checks/c10sel.py).  Executable definitions only. *)
From Coq Require Import List ZArith NArith String Ascii Bool.
From Qryn Require Import lib.Strs model.Sql model.SqlRender model.Logql model.LogqlPlan model.PromSel model.ScansPlanners
  model.ChLex model.SqlPieces model.SqlPiecesCases model.SqlPiecesSel.
Import ListNotations.
Open Scope string_scope.

(* the trees behind ScansPlanners.values_sql / series_sql *)
Definition values_tree (c : pctx) (key : string) (sels : list (list matcher)) : option select :=
  match sels with
  | [] => Some (values_planner c key None)
  | _ => match multi_stream_select c sels with Some q => Some (values_planner c key (Some q)) | None => None end
  end.
Definition series_tree (c : pctx) (sels : list (list matcher)) : option select :=
  match multi_stream_select c sels with Some q => Some (series_planner c q) | None => None end.

(* key = Some label: /label/{label}/values with its match[] selectors; None: /series *)
Definition lv_tree (c : pctx) (key : option string) (sels : list (list matcher)) : option select :=
  match key with Some k => values_tree c k sels | None => series_tree c sels end.
Definition lv_pieces (c : pctx) (key : option string) (sels : list (list matcher)) : option pstmt :=
  match lv_tree c key sels with Some q => stmt_of q false | None => None end.

(* match[] selectors that differ only in label names and values: as many selectors, as many matchers each, the same operators *)
Definition sels_variant (sels sels' : list (list matcher)) : Prop := Forall2 (Forall2 matcher_variant) sels sels'.
