(* Correspondence cases for C01 / C02: the harness (harness/cmd/ingest) drives the real insert services with a
   script of operations and records the events it observes after each operation; the same script is executed by
   the model under a deterministic scheduler (after every external operation the fetch loops run until nothing
   is enabled -- the harness waits for exactly that quiescence), and the monitors of model/IngestSpec.v are run
   over the OBSERVED events. *)
From Coq Require Import List NArith ZArith Bool.
From Qryn Require Import model.Ingest model.PushHandler model.PushConfirm model.IngestSpec model.IngestSched model.IngestFresh model.PushRead model.IngestSwap2.
Import ListNotations.

(* ---------------------------------------------------------------- compact literals *)
Fixpoint rng_aux (fuel : nat) (s : N) : list N :=
  match fuel with O => [] | S f => s :: rng_aux f (N.succ s) end.
Definition rng (s c : N) : list N := rng_aux (N.to_nat c) s.
Definition rngs (l : list (N * N)) : list N := flat_map (fun sc => rng (fst sc) (snd sc)) l.
Definition tbl (k : kind) (l : list (N * N)) : req := table_of (ncols k) (rngs l).
(* column given as runs of consecutive values *)
Definition ocol (j : nat) (l : list (N * N)) : col := map (fun v => (v, j)) (rngs l).
Fixpoint ocols_from (j : nat) (ls : list (list (N * N))) : block :=
  match ls with [] => [] | l :: t => ocol j l :: ocols_from (S j) t end.
Definition oblock (ls : list (list (N * N))) : block := ocols_from 0 ls.

(* columns whose Go type cannot hold a row id (UInt8 `type`, Int8 `payload_type`): the harness stores id mod 128 *)
Definition lossy (k : kind) (j : nat) : bool :=
  match k, j with
  | KSamples, 0 | KSeries, 0 | KMetrics, 0 | KSpans, 7 => true
  | _, _ => false
  end.
Fixpoint red_from (k : kind) (j : nat) (r : req) : req :=
  match r with
  | [] => []
  | c :: t => (if lossy k j then map (fun x => (N.modulo (fst x) 128, snd x)) c else c) :: red_from k (S j) t
  end.
Definition red (k : kind) (r : req) : req := red_from k 0 r.

(* ---------------------------------------------------------------- scripts *)
Inductive op :=
 | OReq (s : nat) (k : kind) (n : N) (r : req) (sz : Z)     (* svc.Request on worker s *)
 | OPlan (s : nat)                                          (* PlanFlush *)
 | OPlanG (ws : list nat)                                   (* PlanFlush of a round robin: all its workers *)
 | OSend (s : nat)                                          (* let the OnBeforeInsert callback of worker s return: Do is called *)
 | ORet (s : nat) (ok : bool)                               (* let the blocked Do of worker s return *)
 | OStop (s : nat)                                          (* Stop *)
 | OMidReq (s : nat) (k : kind) (n : N) (r : req) (sz : Z). (* PlanFlush on worker s, and a Request that ARRIVES WHILE the planned flush
                                                               is inside swapBuffers waiting for its next column set (the harness holds the
                                                               column-pool mutex acquireColumns needs).  swapBuffers is ONE hold of the service
                                                               mutex, acquireColumns included (model/IngestRegions.v), so the request waits for
                                                               that mutex and is served after the swap: SPlan, the fetch loop's steps, SRequest.
                                                               The two-step variant in which it gets in between is model/IngestSwap2.v. *)

Definition op_acts (o : op) : list gact :=
  match o with
  | OReq s k n r sz => [GEnvReq s k n (red k r) sz]     (* what the harness can store of r; s = the worker the round robin picked *)
  | OPlan s => [GSvc s SPlan]
  | OPlanG ws => map (fun s => GSvc s SPlan) ws
  | OSend s => [GSvc s SSend]
  | ORet s ok => [GSvc s (SDoReturn ok)]
  | OStop s => [GSvc s SStop]
  | OMidReq s k n r sz => [GSvc s SPlan]                (* the first half; the request follows the fetch loop's steps (op_step) *)
  end.

(* the fetch loop of worker s runs while it can: dial (outcomes taken from the worker's script, then success),
   then swapBuffers *)
Fixpoint settle_svc (fuel : nat) (g : gstate) (s : nat) (dl : list bool) : gstate * list bool * list event :=
  match fuel with
  | O => (g, dl, [])
  | S f =>
      match nth_error (svcs g) s with
      | None => (g, dl, [])
      | Some sv =>
          if loop_ready sv then
            if client sv then
              match gstep g (GSvc s SSwap) with
              | Some (g', es) => (g', dl, es)
              | None => (g, dl, [])
              end
            else
              let d := match dl with [] => true | d :: _ => d end in
              match gstep g (GSvc s (SDial d)) with
              | Some (g', es) => let '(g'', dl', es') := settle_svc f g' s (tl dl) in (g'', dl', es ++ es')
              | None => (g, dl, [])
              end
          else (g, dl, [])
      end
  end.

Fixpoint settle_all (g : gstate) (s : nat) (dls : list (list bool)) : gstate * list (list bool) * list event :=
  match dls with
  | [] => (g, [], [])
  | dl :: rest =>
      let '(g1, dl', e1) := settle_svc (S (S (length dl))) g s dl in
      let '(g2, rest', e2) := settle_all g1 (S s) rest in
      (g2, dl' :: rest', e1 ++ e2)
  end.

(* one operation: the external step(s), then the fetch loops run while they can.  The events are listed in the order the harness
   reports them (the call and what it completed first, then the workers' dials and swaps; OMidReq: see below). *)
Definition op_step (g : gstate) (dls : list (list bool)) (o : op) : option (gstate * list (list bool) * list event) :=
  match grun g (op_acts o) with
  | None => None
  | Some (g1, e1) =>
      let '(g2, dls', e2) := settle_all g1 0 dls in
      match o with
      | OMidReq s k n r sz =>
          match gstep g2 (GEnvReq s k n (red k r) sz) with
          | None => None
          | Some (g3, e3) =>
              let '(g4, dls'', e4) := settle_all g3 0 dls' in
              (* a swap in progress holds the service mutex: the request is served -- and reported -- after it; otherwise the call
                 returns at once and is reported first, as for OReq *)
              if existsb (fun e => match e with ESwap _ => true | _ => false end) e2
              then Some (g4, dls'', e1 ++ e2 ++ e3 ++ e4)
              else Some (g4, dls'', e3 ++ e1 ++ e2 ++ e4)
          end
      | _ => Some (g2, dls', e1 ++ e2)
      end
  end.

(* events of the model, one list per operation; None = the model cannot take the step *)
Fixpoint run_ops (g : gstate) (dls : list (list bool)) (ops : list op) : option (list (list event)) :=
  match ops with
  | [] => Some []
  | o :: rest =>
      match op_step g dls o with
      | None => None
      | Some (g2, dls', es) =>
          match run_ops g2 dls' rest with
          | None => None
          | Some l => Some (es :: l)
          end
      end
  end.

(* the freshness hypothesis of C02's blocks_have_distinct_rows (model/IngestFresh.v step_fresh) evaluated along the
   script: only the external operations can violate it (the steps of settle are worker steps) *)
Definition own_tab (l : list (N * N * okey)) (rid : N) : okey :=
  match find (fun e => N.leb (fst (fst e)) rid && N.ltb rid (fst (fst e) + snd (fst e))) l with
  | Some e => snd e
  | None => KEnv 0
  end.
(* req_owned with a fast path for the usual case of ascending row ids (nodupb is quadratic; requests have up to
   11000 rows); equal to req_owned: req_owned_fast_eq in proofs/IngestPromises.v *)
Fixpoint ascending (l : list N) : bool :=
  match l with
  | x :: ((y :: _) as t) => N.ltb x y && ascending t
  | _ => true
  end.
Definition req_owned_fast (own : N -> okey) (k : okey) (r : req) : bool :=
  forallb (fun rid => okey_eqb (own rid) k) (rids_of r) &&
  (if ascending (rids_of r) then true else nodupb N.eqb (rids_of r)).
Fixpoint ops_fresh (own : N -> okey) (g : gstate) (dls : list (list bool)) (ops : list op) : bool :=
  match ops with
  | [] => true
  | o :: rest =>
      (* the request as submitted (row ids before the reduction of the lossy columns) *)
      (match o with
       | OReq s k n r sz => env_new g n && req_owned_fast own (KEnv n) r
       | OMidReq s k n r sz => env_new g n && req_owned_fast own (KEnv n) r    (* the flush before it creates no promise *)
       | _ => true
       end) &&
      match op_step g dls o with
      | None => true
      | Some (g2, dls', _) => ops_fresh own g2 dls' rest
      end
  end.

(* ---------------------------------------------------------------- event equality *)
Definition obool_eqb (a b : option bool) : bool :=
  match a, b with
  | None, None => true
  | Some x, Some y => Bool.eqb x y
  | _, _ => false
  end.
Fixpoint reqs_eqb (a b : list (kind * req)) : bool :=
  match a, b with
  | [], [] => true
  | (k, r) :: a', (k', r') :: b' => kind_eqb k k' && block_eqb r r' && reqs_eqb a' b'
  | _, _ => false
  end.
Definition event_eqb (a b : event) : bool :=
  match a, b with
  | EReq s p k r sz i, EReq s' p' k' r' sz' i' =>
      Nat.eqb s s' && pid_eqb p p' && kind_eqb k k' && block_eqb r r' && Z.eqb sz sz' && obool_eqb i i'
  | EDial s ok, EDial s' ok' => Nat.eqb s s' && Bool.eqb ok ok'
  | ESwap s, ESwap s' => Nat.eqb s s'
  | ESend s k b, ESend s' k' b' => Nat.eqb s s' && kind_eqb k k' && block_eqb b b'
  | EDone s ok, EDone s' ok' => Nat.eqb s s' && Bool.eqb ok ok'
  | EResolve p k r ok, EResolve p' k' r' ok' => pid_eqb p p' && kind_eqb k k' && block_eqb r r' && Bool.eqb ok ok'
  | EAnswer h rs ok, EAnswer h' rs' ok' => Nat.eqb h h' && reqs_eqb rs rs' && Bool.eqb ok ok'
  | _, _ => false
  end.
Fixpoint events_eqb (a b : list event) : bool :=
  match a, b with
  | [], [] => true
  | x :: a', y :: b' => event_eqb x y && events_eqb a' b'
  | _, _ => false
  end.
Fixpoint obs_eqb (a b : list (list event)) : bool :=
  match a, b with
  | [], [] => true
  | x :: a', y :: b' => events_eqb x y && obs_eqb a' b'
  | _, _ => false
  end.

(* ---------------------------------------------------------------- cases *)
Record case := {
  c_id : Z;
  c_cfg : list (kind * nat * Z);
  c_attempts : N;
  c_dials : list (list bool);        (* per worker: outcomes of its successive V3Session() calls *)
  c_drained : bool;                  (* the script ends with a complete drain (every Do answered, nothing left to flush, no worker
                                        stopped, no request accounted with size 0): every promise must have been completed *)
  c_ops : list op;
  c_obs : list (list event);         (* what the harness observed after each operation *)
  c_own : list (N * N * okey)        (* runs of row ids (first, count) and the request that submitted them *)
}.

Definition op_wf (o : op) : bool :=
  match o with OReq _ k _ r _ => wf_reqb k r | OMidReq _ k _ r _ => wf_reqb k r | _ => true end.
Definition case_wf (c : case) : bool := forallb op_wf (c_ops c).

Definition model_mismatch (c : case) : bool :=
  match run_ops (ginit (c_cfg c) (c_attempts c)) (c_dials c) (c_ops c) with
  | None => true
  | Some l => negb (obs_eqb l (c_obs c))
  end.

Definition is_some {A} (o : option A) : bool := match o with Some _ => true | None => false end.

Fixpoint requested (es : list event) : list pid :=
  match es with
  | [] => []
  | EReq _ p _ _ _ _ :: t => p :: requested t
  | _ :: t => requested t
  end.
(* every promise handed out by Request was completed *)
Definition all_resolved_b (es : list event) : bool :=
  let done := resolved es in forallb (fun p => existsb (pid_eqb p) done) (requested es).

(* C01 oracles on the observed events: strict when every request of the script is well formed *)
Definition c01_violation (c : case) : bool :=
  let es := concat (c_obs c) in
  let n := length (c_cfg c) in
  let strict := case_wf c in
  negb (is_some (run_mon (amon_step strict) (amon_init n) es) &&
        is_some (run_mon (smon_step (if strict then MClean else MLenient)) (smon_init n) es) &&
        one_answer_b es &&
        (if c_drained c then all_resolved_b es else true)).

(* C02 oracles: the discipline monitor (blocks are exactly their waiters' appends) and, for well-formed
   scripts, the shape of every block *)
Fixpoint sends (es : list event) : list (kind * block) :=
  match es with
  | [] => []
  | ESend _ k b :: t => (k, b) :: sends t
  | _ :: t => sends t
  end.
(* good_block_b modulo the lossy columns: row ids are read off the key column, which is never lossy *)
Definition good_block_red (k : kind) (b : block) : bool :=
  let rids := map fst (nth (keycol k) b []) in
  block_eqb b (red k (table_of (ncols k) rids)) && (if ascending rids then true else nodupb N.eqb rids).
Definition c02_violation (c : case) : bool :=
  let es := concat (c_obs c) in
  let n := length (c_cfg c) in
  if case_wf c then
    negb (is_some (run_mon (smon_step MClean) (smon_init n) es) &&
          forallb (fun kb => good_block_red (fst kb) (snd kb)) (sends es))
  else false.

(* the script meets the freshness hypothesis (the generator is supposed to draw fresh row ids) *)
Definition case_fresh (c : case) : bool :=
  ops_fresh (own_tab (c_own c)) (ginit (c_cfg c) (c_attempts c)) (c_dials c) (c_ops c).
Definition fresh_cases (cs : list case) : list Z := map c_id (filter case_fresh cs).

Definition mismatches (cs : list case) : list Z := map c_id (filter model_mismatch cs).
Definition c01_violations (cs : list case) : list Z := map c_id (filter c01_violation cs).
Definition c02_violations (cs : list case) : list Z := map c_id (filter c02_violation cs).

(* ---------------------------------------------------------------- diagnosis: the two-step swap (model/IngestSwap2.v)
   The same script executed by the refuted VARIANT in which swapBuffers is two critical sections: the request of an OMidReq is served in
   the window between ATake and AInstall whenever the planned flush opens one.  When the observations of a script that the model does not
   explain ARE the variant's run, the replay names the variant's action sequence (two_step_swap_refuted is the theorem about it). *)
Definition xrun1 (x : gstate2) (a : gact2) : option (gstate2 * list event * list gact2) :=
  match gstep2 x a with Some (x', es) => Some (x', es, [a]) | None => None end.

(* the fetch loop of worker s in the variant: dial while needed, then take and -- if something was taken -- install; `mid` is served in
   the window if there is one.  Returns the state, the dial script left, the events, the actions and whether `mid` was served. *)
Fixpoint vsettle_svc (fuel : nat) (x : gstate2) (s : nat) (dl : list bool) (mid : option gact)
  : gstate2 * list bool * list event * list gact2 * option (list event) :=
  match fuel with
  | O => (x, dl, [], [], None)
  | S f =>
      match nth_error (svcs (g_base x)) s with
      | None => (x, dl, [], [], None)
      | Some sv =>
          if loop_ready sv then
            if client sv then
              match xrun1 x (ATake s) with
              | Some (x1, e1, a1) =>
                  if in_window (g_taken x1) s then
                    let '(x2, a2, served) :=
                      match mid with
                      | Some m => match xrun1 x1 (A1 m) with Some (x2, e2, a2) => (x2, a2, Some e2) | None => (x1, [], None) end
                      | None => (x1, [], None)
                      end in
                    match xrun1 x2 (AInstall s) with
                    | Some (x3, e3, a3) => (x3, dl, e1 ++ e3, a1 ++ a2 ++ a3, served)
                    | None => (x2, dl, e1, a1 ++ a2, served)
                    end
                  else (x1, dl, e1, a1, None)
              | None => (x, dl, [], [], None)
              end
            else
              let d := match dl with [] => true | d :: _ => d end in
              match xrun1 x (A1 (GSvc s (SDial d))) with
              | Some (x1, e1, a1) =>
                  let '(x2, dl', e2, a2, served) := vsettle_svc f x1 s (tl dl) mid in
                  (x2, dl', e1 ++ e2, a1 ++ a2, served)
              | None => (x, dl, [], [], None)
              end
          else (x, dl, [], [], None)
      end
  end.
Fixpoint vsettle_all (x : gstate2) (s : nat) (dls : list (list bool)) : gstate2 * list (list bool) * list event * list gact2 :=
  match dls with
  | [] => (x, [], [], [])
  | dl :: rest =>
      let '(x1, dl', e1, a1, _) := vsettle_svc (S (S (length dl))) x s dl None in
      let '(x2, rest', e2, a2) := vsettle_all x1 (S s) rest in
      (x2, dl' :: rest', e1 ++ e2, a1 ++ a2)
  end.
Fixpoint vrun_acts (x : gstate2) (l : list gact) : option (gstate2 * list event * list gact2) :=
  match l with
  | [] => Some (x, [], [])
  | a :: t =>
      match xrun1 x (A1 a) with
      | Some (x1, e1, a1) => match vrun_acts x1 t with Some (x2, e2, a2) => Some (x2, e1 ++ e2, a1 ++ a2) | None => None end
      | None => None
      end
  end.
Definition upd_dl (dls : list (list bool)) (s : nat) (dl : list bool) : list (list bool) := upd s dl dls.
Definition vop_step (x : gstate2) (dls : list (list bool)) (o : op) : option (gstate2 * list (list bool) * list event * list gact2) :=
  match vrun_acts x (op_acts o) with
  | None => None
  | Some (x1, e1, a1) =>
      match o with
      | OMidReq s k n r sz =>
          let m := GEnvReq s k n (red k r) sz in
          let dl := nth s dls [] in
          let '(x2, dl', e2, a2, served) := vsettle_svc (S (S (length dl))) x1 s dl (Some m) in
          let dls2 := upd_dl dls s dl' in
          match served with
          | Some em =>
              (* the call and what it completed are reported first *)
              let '(x3, dls3, e3, a3) := vsettle_all x2 0 dls2 in Some (x3, dls3, em ++ e1 ++ e2 ++ e3, a1 ++ a2 ++ a3)
          | None =>
              match xrun1 x2 (A1 m) with
              | Some (x3, e3, a3) =>
                  let '(x4, dls4, e4, a4) := vsettle_all x3 0 dls2 in
                  if existsb (fun e => match e with ESwap _ => true | _ => false end) e2
                  then Some (x4, dls4, e1 ++ e2 ++ e3 ++ e4, a1 ++ a2 ++ a3 ++ a4)
                  else Some (x4, dls4, e3 ++ e1 ++ e2 ++ e4, a1 ++ a2 ++ a3 ++ a4)
              | None => None
              end
          end
      | _ => let '(x2, dls', e2, a2) := vsettle_all x1 0 dls in Some (x2, dls', e1 ++ e2, a1 ++ a2)
      end
  end.
Fixpoint vrun_ops (x : gstate2) (dls : list (list bool)) (ops : list op) : option (list (list event) * list gact2) :=
  match ops with
  | [] => Some ([], [])
  | o :: rest =>
      match vop_step x dls o with
      | None => None
      | Some (x2, dls', es, acts) =>
          match vrun_ops x2 dls' rest with
          | None => None
          | Some (l, acts') => Some (es :: l, acts ++ acts')
          end
      end
  end.
Definition has_midreq (c : case) : bool := existsb (fun o => match o with OMidReq _ _ _ _ _ => true | _ => false end) (c_ops c).
(* the observations are the run of the two-step variant (and the script has a request in a window) *)
Definition variant_explains (c : case) : bool :=
  has_midreq c &&
  match vrun_ops (ginit2 (c_cfg c) (c_attempts c)) (c_dials c) (c_ops c) with
  | Some (l, _) => obs_eqb l (c_obs c)
  | None => false
  end.
(* the variant's actions, coded (what, worker, argument): 0 Request (promise number) . 1 PlanFlush . 2 dial (1 = accepted) . 3 ATake .
   4 AInstall . 5 Do called . 6 Do returns (1 = accepted) . 7 Stop . 8 ping fails . 9 other *)
Definition act_code (a : gact2) : nat * nat * N :=
  match a with
  | ATake s => (3, s, 0%N)
  | AInstall s => (4, s, 0%N)
  | A1 (GEnvReq s _ n _ _) => (0, s, n)
  | A1 (GSvc s SPlan) => (1, s, 0%N)
  | A1 (GSvc s (SDial ok)) => (2, s, if ok then 1%N else 0%N)
  | A1 (GSvc s SSend) => (5, s, 0%N)
  | A1 (GSvc s (SDoReturn ok)) => (6, s, if ok then 1%N else 0%N)
  | A1 (GSvc s SStop) => (7, s, 0%N)
  | A1 (GSvc s SPingFail) => (8, s, 0%N)
  | A1 _ => (9, 0, 0%N)
  end.
Definition variant_actions (c : case) : list (nat * nat * N) :=
  match vrun_ops (ginit2 (c_cfg c) (c_attempts c)) (c_dials c) (c_ops c) with
  | Some (_, acts) => map act_code acts
  | None => []
  end.
Definition variant_explained (cs : list case) : list Z := map c_id (filter variant_explains cs).

(* ================================================================================================
   Level 2: the HTTP handlers.  Operations: an HTTP push arrives (its parser output is known), PlanFlush,
   let a worker call Do, let a Do return.  After each operation every enabled step of handlers, sub-pushes
   and fetch loops is taken until nothing is enabled (the harness waits for that quiescence).  Promises are
   internal to doPush, so only dials, swaps, blocks, returns of Do and answers are observed; concurrent
   sub-pushes reach a worker in an order the harness does not control, so blocks are compared as sets of
   rows and the events of one operation as a multiset. *)
Inductive op2 :=
 | O2Http (items : list item)
 | O2Plan (s : nat)
 | O2Send (s : nat)
 | O2Ret (s : nat) (ok : bool).

Fixpoint first_some (g : gstate) (l : list gact) : option (gstate * list event) :=
  match l with
  | [] => None
  | a :: t => match gstep g a with Some r => Some r | None => first_some g t end
  end.

Fixpoint find_worker (l : list svc) (i : nat) (grpid : nat) (k : kind) : option nat :=
  match l with
  | [] => None
  | sv :: t => if Nat.eqb (grp sv) grpid && kind_eqb (kd sv) k then Some i else find_worker t (S i) grpid k
  end.

Definition handler_acts (g : gstate) (h : nat) : list gact :=
  match nth_error (hs g) h with
  | None => []
  | Some hd =>
      GItem h ::
      flat_map (fun i =>
                  match nth_error (h_subs hd) i with
                  | Some sp =>
                      GSubGet h i ::
                      match find_worker (svcs g) 0 (sp_svc sp) (sp_kind sp) with
                      | Some s => [GSubReq h i s]
                      | None => []
                      end
                  | None => []
                  end) (seq 0 (length (h_subs hd)))
      ++ [GAnswer h]
  end.

(* all enabled handler steps, repeatedly *)
Fixpoint sat_handlers (fuel : nat) (g : gstate) : gstate * list event :=
  match fuel with
  | O => (g, [])
  | S f =>
      match first_some g (flat_map (handler_acts g) (seq 0 (length (hs g)))) with
      | None => (g, [])
      | Some (g', es) => let '(g'', es') := sat_handlers f g' in (g'', es ++ es')
      end
  end.

Fixpoint settle2 (fuel : nat) (g : gstate) (dls : list (list bool)) : gstate * list (list bool) * list event :=
  match fuel with
  | O => (g, dls, [])
  | S f =>
      let '(g1, e1) := sat_handlers 200 g in
      let '(g2, dls', e2) := settle_all g1 0 dls in
      match e1 ++ e2 with
      | [] => (g2, dls', [])
      | es => let '(g3, dls'', e3) := settle2 f g2 dls' in (g3, dls'', es ++ e3)
      end
  end.

(* An HTTP push arrives through its parser, which reads the announcement cache (model/PushRead.v): `items` is what the parser
   emits when the cache holds nothing (learnt by a dry run on an empty cache); the series rows the cache holds are left out.
   cache = the rows confirmed so far in this script (the harness gives every script a cache of its own): the confirmations
   of the success answers of the operations before (model/PushConfirm.v, confirms_of_event). *)
Definition op2_act (cache : list N) (o : op2) : gact :=
  match o with
  | O2Http items => GNewHandler (read_items cache items)
  | O2Plan s => GSvc s SPlan
  | O2Send s => GSvc s SSend
  | O2Ret s ok => GSvc s (SDoReturn ok)
  end.
Definition confirmed_by (es : list event) : list N := concat (map snd (flat_map confirms_of_event es)).

Fixpoint run_ops2 (g : gstate) (dls : list (list bool)) (cache : list N) (ops : list op2) : option (list (list event)) :=
  match ops with
  | [] => Some []
  | o :: rest =>
      match gstep g (op2_act cache o) with
      | None => None
      | Some (g1, e1) =>
          let '(g2, dls', e2) := settle2 20 g1 dls in
          match run_ops2 g2 dls' (cache ++ confirmed_by (e1 ++ e2)) rest with
          | None => None
          | Some l => Some ((e1 ++ e2) :: l)
          end
      end
  end.

(* the state the model ends in, and freshness along the script *)
Fixpoint final2 (g : gstate) (dls : list (list bool)) (cache : list N) (ops : list op2) : option gstate :=
  match ops with
  | [] => Some g
  | o :: rest =>
      match gstep g (op2_act cache o) with
      | None => None
      | Some (g1, e1) => let '(g2, dls', e2) := settle2 20 g1 dls in final2 g2 dls' (cache ++ confirmed_by (e1 ++ e2)) rest
      end
  end.
Fixpoint ops2_fresh (own : N -> okey) (g : gstate) (dls : list (list bool)) (cache : list N) (ops : list op2) : bool :=
  match ops with
  | [] => true
  | o :: rest =>
      step_fresh own g (op2_act cache o) &&
      match gstep g (op2_act cache o) with
      | None => true
      | Some (g1, e1) => let '(g2, dls', e2) := settle2 20 g1 dls in ops2_fresh own g2 dls' (cache ++ confirmed_by (e1 ++ e2)) rest
      end
  end.

(* what is visible of an event at level 2 *)
Inductive vis :=
 | VDial (s : nat) (ok : bool) | VSwp (s : nat) | VSnd (s : nat) (rows : list N) | VDn (s : nat) (ok : bool)
 | VAns (h : nat) (ok : bool)
 | VReq (h i : nat) (k : N)                 (* doPush of sub-request i of push h called Request for the k-th time (seen by a
                                               wrapper around the service handed to the registry): the retry count *)
 | VRes (h i : nat) (k : N) (ok : bool).    (* ... and the promise that call returned was completed with ok: the promise store *)

Fixpoint insertN (x : N) (l : list N) : list N :=
  match l with [] => [x] | y :: t => if N.leb x y then x :: l else y :: insertN x t end.
Definition sortN (l : list N) : list N := fold_right insertN [] l.

Definition vis_of (e : event) : list vis :=
  match e with
  | EDial s ok => [VDial s ok]
  | ESwap s => [VSwp s]
  | ESend s k b => [VSnd s (sortN (map fst (nth (keycol k) b [])))]
  | EDone s ok => [VDn s ok]
  | EAnswer h _ ok => [VAns h ok]
  | EReq _ (PSub h i k) _ _ _ _ => [VReq h i k]
  | EResolve (PSub h i k) _ _ ok => [VRes h i k ok]
  | _ => []
  end.
(* the model's own events: a sub-request without rows is not identifiable for the observer (it recognises requests by
   the content of their rows), so its Request / completion are not compared *)
Definition vis_of_model (e : event) : list vis :=
  match e with
  | EReq _ (PSub _ _ _) _ r _ _ => if no_cells r then [] else vis_of e
  | EResolve (PSub _ _ _) _ r _ => if no_cells r then [] else vis_of e
  | _ => vis_of e
  end.
Fixpoint listN_eqb (a b : list N) : bool :=
  match a, b with
  | [], [] => true
  | x :: a', y :: b' => N.eqb x y && listN_eqb a' b'
  | _, _ => false
  end.
Definition vis_eqb (a b : vis) : bool :=
  match a, b with
  | VDial s ok, VDial s' ok' => Nat.eqb s s' && Bool.eqb ok ok'
  | VSwp s, VSwp s' => Nat.eqb s s'
  | VSnd s r, VSnd s' r' => Nat.eqb s s' && listN_eqb r r'
  | VDn s ok, VDn s' ok' => Nat.eqb s s' && Bool.eqb ok ok'
  | VAns h ok, VAns h' ok' => Nat.eqb h h' && Bool.eqb ok ok'
  | VReq h i k, VReq h' i' k' => Nat.eqb h h' && Nat.eqb i i' && N.eqb k k'
  | VRes h i k ok, VRes h' i' k' ok' => Nat.eqb h h' && Nat.eqb i i' && N.eqb k k' && Bool.eqb ok ok'
  | _, _ => false
  end.
Fixpoint remove_vis (x : vis) (l : list vis) : option (list vis) :=
  match l with
  | [] => None
  | y :: t => if vis_eqb x y then Some t else match remove_vis x t with Some t' => Some (y :: t') | None => None end
  end.
Fixpoint vis_perm (a b : list vis) : bool :=
  match a with
  | [] => is_nil b
  | x :: a' => match remove_vis x b with Some b' => vis_perm a' b' | None => false end
  end.
Fixpoint obs2_eqb (a b : list (list event)) : bool :=
  match a, b with
  | [], [] => true
  | x :: a', y :: b' => vis_perm (flat_map vis_of_model x) (flat_map vis_of y) && obs2_eqb a' b'
  | _, _ => false
  end.

Record case2 := {
  d_id : Z;
  d_cfg : list (kind * nat * Z);
  d_attempts : N;
  d_dials : list (list bool);
  d_drained : bool;
  d_handlers : nat;                  (* number of HTTP pushes of the script *)
  d_ops : list op2;
  d_obs : list (list event);         (* observed: EDial / ESwap / ESend (table of the recognised rows) / EDone / EAnswer *)
  d_own : list (N * N * okey);       (* runs of row ids and the sub-request (push, position) that submitted them *)
  d_repeat : bool;                   (* the script pushes the same series more than once: the same series row (same content, hence
                                        same id) is submitted by several pushes, so row ids are not fresh and a block may hold the
                                        row once per push that submitted it *)
  d_conf : list (list (nat * list N)) (* per operation: the series rows ConfirmSeries entered into the announcement cache (seen by a wrapper
                                         around controller.FPCache), per push, sorted *)
}.

(* ConfirmSeries (model/PushConfirm.v): in the wrapped system the confirmation loop of push h runs directly before its
   success answer, with the keys of its series requests; so the confirmations of an operation are those of its success
   answers.  They must be the observed ones (as a multiset of (push, sorted rows)). *)
Definition model_confs (es : list event) : list (nat * list N) :=
  map (fun hk => (fst hk, sortN (snd hk))) (flat_map confirms_of_event es).
Definition conf_eqb (a b : nat * list N) : bool := Nat.eqb (fst a) (fst b) && listN_eqb (snd a) (snd b).
Fixpoint remove_conf (x : nat * list N) (l : list (nat * list N)) : option (list (nat * list N)) :=
  match l with
  | [] => None
  | y :: t => if conf_eqb x y then Some t else match remove_conf x t with Some t' => Some (y :: t') | None => None end
  end.
Fixpoint conf_perm (a b : list (nat * list N)) : bool :=
  match a with
  | [] => is_nil b
  | x :: a' => match remove_conf x b with Some b' => conf_perm a' b' | None => false end
  end.
Fixpoint confs_eqb (model : list (list event)) (obs : list (list (nat * list N))) : bool :=
  match model, obs with
  | [], [] => true
  | x :: a', y :: b' => conf_perm (filter (fun hk => negb (is_nil (snd hk))) (model_confs x)) y && confs_eqb a' b'
  | _, _ => false
  end.
(* In a script that pushes the same series more than once the events carry the FULL requests of a push (what its body
   gives rise to, dry run on an empty cache); the parser may have left series rows out because the cache held them.  The
   success answer then demands of a series request that every row of it is stored -- all its cells in one accepted block, be
   it of this push or of an earlier one (model/PushRead.v rows_stored; proofs/PushReadProofs.v) -- and of every other request
   what amon_step demands. *)
Definition amon_step_read (repeat strict : bool) (m : amon) (e : event) : option amon :=
  match e with
  | EAnswer h reqs true =>
      if forallb (fun kr => covered strict (a_acked m) (fst kr) (snd kr)
                            || (repeat && is_series (fst kr) && rows_stored (a_acked m) (fst kr) (snd kr))) reqs
      then Some m else None
  | _ => amon_step strict m e
  end.
(* the oracle on the OBSERVED confirmations (series_confirmed_only_after_all_inserts): every row confirmed during an
   operation is in the key column of a block whose Do had returned without error by the end of that operation *)
Fixpoint confs_sound (repeat : bool) (m : amon) (obs : list (list event)) (confs : list (list (nat * list N))) : bool :=
  match obs, confs with
  | es :: obs', cf :: confs' =>
      match run_mon (amon_step_read repeat false) m es with
      | None => true                        (* reported by the acknowledgement monitor itself *)
      | Some m' =>
          forallb (fun hk => forallb (fun k => existsb (fun b => existsb (fun c => N.eqb (fst c) k) (nth 1 b [])) (a_acked m')) (snd hk)) cf
          && confs_sound repeat m' obs' confs'
      end
  | _, _ => true
  end.

Definition op2_wf (o : op2) : bool :=
  match o with O2Http items => forallb item_wf items | _ => true end.

(* besides the events: when the harness saw the system drained (a whole round of PlanFlush on every worker did
   nothing) the model must have reached a state in which nothing is left to do -- all_done of model/IngestSched.v,
   the terminal states of the scheduler of C01's every_push_is_answered_exactly_once *)
Definition model_mismatch2 (c : case2) : bool :=
  match run_ops2 (ginit (d_cfg c) (d_attempts c)) (d_dials c) [] (d_ops c) with
  | None => true
  | Some l => negb (obs2_eqb l (d_obs c)) || negb (confs_eqb l (d_conf c)) ||
              (d_drained c && match final2 (ginit (d_cfg c) (d_attempts c)) (d_dials c) [] (d_ops c) with
                              | Some g => negb (all_done g)
                              | None => true
                              end)
  end.
Definition case2_fresh (c : case2) : bool :=
  ops2_fresh (own_tab (d_own c)) (ginit (d_cfg c) (d_attempts c)) (d_dials c) [] (d_ops c).
Definition fresh_cases2 (cs : list case2) : list Z := map d_id (filter case2_fresh cs).

(* C01 on the observed events: success answers only for pushes whose rows are all in accepted blocks; at most one
   answer per push; after a drain every push has been answered *)
Definition c01_violation2 (c : case2) : bool :=
  let es := concat (d_obs c) in
  let n := length (d_cfg c) in
  negb (is_some (run_mon (amon_step_read (d_repeat c) (forallb op2_wf (d_ops c))) (amon_init n) es) &&
        one_answer_b es && confs_sound (d_repeat c) (amon_init n) (d_obs c) (d_conf c) &&
        (if d_drained c then forallb (fun h => existsb (Nat.eqb h) (answered es)) (seq 0 (d_handlers c)) else true)).

(* C02 on the observed blocks: tables of distinct rows (the harness reports a block whose columns differ in
   length, or that holds an unknown row, as a block that is no table) *)
Definition good_block2 (repeat : bool) (k : kind) (b : block) : bool :=
  let rids := map fst (nth (keycol k) b []) in
  block_eqb b (table_of (ncols k) rids) && (repeat || nodupb N.eqb rids).
Definition c02_violation2 (c : case2) : bool :=
  negb (forallb (fun kb => good_block2 (d_repeat c) (fst kb) (snd kb)) (sends (concat (d_obs c)))).

Definition mismatches2 (cs : list case2) : list Z := map d_id (filter model_mismatch2 cs).
Definition c01_violations2 (cs : list case2) : list Z := map d_id (filter c01_violation2 cs).
Definition c02_violations2 (cs : list case2) : list Z := map d_id (filter c02_violation2 cs).
