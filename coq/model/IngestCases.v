(* Correspondence cases for C01 / C02: the harness (harness/cmd/ingest) drives the real insert services with a
   script of operations and records the events it observes after each operation; the same script is executed by
   the model under a deterministic scheduler (after every external operation the fetch loops run until nothing
   is enabled -- the harness waits for exactly that quiescence), and the monitors of model/IngestSpec.v are run
   over the OBSERVED events. *)
From Coq Require Import List NArith ZArith Bool.
From Qryn Require Import model.Ingest model.PushHandler model.IngestSpec.
Import ListNotations.

(* ---------------------------------------------------------------- compact literals *)
Fixpoint rng_aux (fuel : nat) (s : N) : list N :=
  match fuel with O => [] | S f => s :: rng_aux f (N.succ s) end.
Definition rng (s c : N) : list N := rng_aux (N.to_nat c) s.
Definition rngs (l : list (N * N)) : list N := flat_map (fun sc => rng (fst sc) (snd sc)) l.
Definition tbl (k : kind) (l : list (N * N)) : req := table_of (ncols k) (rngs l).
(* column given as runs of consecutive values *)
Definition ocol (j : nat) (l : list (N * N)) : col := map (fun v => (v, j)) (rngs l).
Fixpoint ocols_from (j : nat) (ls : list (list (N * N))) : block :=
  match ls with [] => [] | l :: t => ocol j l :: ocols_from (S j) t end.
Definition oblock (ls : list (list (N * N))) : block := ocols_from 0 ls.

(* columns whose Go type cannot hold a row id (UInt8 `type`, Int8 `payload_type`): the harness stores id mod 128 *)
Definition lossy (k : kind) (j : nat) : bool :=
  match k, j with
  | KSamples, 0 | KSeries, 0 | KMetrics, 0 | KSpans, 7 => true
  | _, _ => false
  end.
Fixpoint red_from (k : kind) (j : nat) (r : req) : req :=
  match r with
  | [] => []
  | c :: t => (if lossy k j then map (fun x => (N.modulo (fst x) 128, snd x)) c else c) :: red_from k (S j) t
  end.
Definition red (k : kind) (r : req) : req := red_from k 0 r.

(* ---------------------------------------------------------------- scripts *)
Inductive op :=
 | OReq (s : nat) (k : kind) (n : N) (r : req) (sz : Z)     (* svc.Request on worker s *)
 | OPlan (s : nat)                                          (* PlanFlush *)
 | OSend (s : nat)                                          (* let the OnBeforeInsert callback of worker s return: Do is called *)
 | ORet (s : nat) (ok : bool)                               (* let the blocked Do of worker s return *)
 | OStop (s : nat).                                         (* Stop *)

Definition op_act (o : op) : gact :=
  match o with
  | OReq s k n r sz => GEnvReq s k n (red k r) sz     (* what the harness can store of r *)
  | OPlan s => GSvc s SPlan
  | OSend s => GSvc s SSend
  | ORet s ok => GSvc s (SDoReturn ok)
  | OStop s => GSvc s SStop
  end.

(* the fetch loop of worker s runs while it can: dial (outcomes taken from the worker's script, then success),
   then swapBuffers *)
Fixpoint settle_svc (fuel : nat) (g : gstate) (s : nat) (dl : list bool) : gstate * list bool * list event :=
  match fuel with
  | O => (g, dl, [])
  | S f =>
      match nth_error (svcs g) s with
      | None => (g, dl, [])
      | Some sv =>
          if loop_ready sv then
            if client sv then
              match gstep g (GSvc s SSwap) with
              | Some (g', es) => (g', dl, es)
              | None => (g, dl, [])
              end
            else
              let d := match dl with [] => true | d :: _ => d end in
              match gstep g (GSvc s (SDial d)) with
              | Some (g', es) => let '(g'', dl', es') := settle_svc f g' s (tl dl) in (g'', dl', es ++ es')
              | None => (g, dl, [])
              end
          else (g, dl, [])
      end
  end.

Fixpoint settle_all (g : gstate) (s : nat) (dls : list (list bool)) : gstate * list (list bool) * list event :=
  match dls with
  | [] => (g, [], [])
  | dl :: rest =>
      let '(g1, dl', e1) := settle_svc (S (S (length dl))) g s dl in
      let '(g2, rest', e2) := settle_all g1 (S s) rest in
      (g2, dl' :: rest', e1 ++ e2)
  end.

(* events of the model, one list per operation; None = the model cannot take the step *)
Fixpoint run_ops (g : gstate) (dls : list (list bool)) (ops : list op) : option (list (list event)) :=
  match ops with
  | [] => Some []
  | o :: rest =>
      match gstep g (op_act o) with
      | None => None
      | Some (g1, e1) =>
          let '(g2, dls', e2) := settle_all g1 0 dls in
          match run_ops g2 dls' rest with
          | None => None
          | Some l => Some ((e1 ++ e2) :: l)
          end
      end
  end.

(* ---------------------------------------------------------------- event equality *)
Definition obool_eqb (a b : option bool) : bool :=
  match a, b with
  | None, None => true
  | Some x, Some y => Bool.eqb x y
  | _, _ => false
  end.
Fixpoint reqs_eqb (a b : list (kind * req)) : bool :=
  match a, b with
  | [], [] => true
  | (k, r) :: a', (k', r') :: b' => kind_eqb k k' && block_eqb r r' && reqs_eqb a' b'
  | _, _ => false
  end.
Definition event_eqb (a b : event) : bool :=
  match a, b with
  | EReq s p k r sz i, EReq s' p' k' r' sz' i' =>
      Nat.eqb s s' && pid_eqb p p' && kind_eqb k k' && block_eqb r r' && Z.eqb sz sz' && obool_eqb i i'
  | EDial s ok, EDial s' ok' => Nat.eqb s s' && Bool.eqb ok ok'
  | ESwap s, ESwap s' => Nat.eqb s s'
  | ESend s k b, ESend s' k' b' => Nat.eqb s s' && kind_eqb k k' && block_eqb b b'
  | EDone s ok, EDone s' ok' => Nat.eqb s s' && Bool.eqb ok ok'
  | EResolve p k r ok, EResolve p' k' r' ok' => pid_eqb p p' && kind_eqb k k' && block_eqb r r' && Bool.eqb ok ok'
  | EAnswer h rs ok, EAnswer h' rs' ok' => Nat.eqb h h' && reqs_eqb rs rs' && Bool.eqb ok ok'
  | _, _ => false
  end.
Fixpoint events_eqb (a b : list event) : bool :=
  match a, b with
  | [], [] => true
  | x :: a', y :: b' => event_eqb x y && events_eqb a' b'
  | _, _ => false
  end.
Fixpoint obs_eqb (a b : list (list event)) : bool :=
  match a, b with
  | [], [] => true
  | x :: a', y :: b' => events_eqb x y && obs_eqb a' b'
  | _, _ => false
  end.

(* ---------------------------------------------------------------- cases *)
Record case := {
  c_id : Z;
  c_cfg : list (kind * nat * Z);
  c_attempts : N;
  c_dials : list (list bool);        (* per worker: outcomes of its successive V3Session() calls *)
  c_drained : bool;                  (* the script ends with a complete drain (every Do answered, nothing left to flush, no worker
                                        stopped, no request accounted with size 0): every promise must have been completed *)
  c_ops : list op;
  c_obs : list (list event)          (* what the harness observed after each operation *)
}.

Definition op_wf (o : op) : bool :=
  match o with OReq _ k _ r _ => wf_reqb k r | _ => true end.
Definition case_wf (c : case) : bool := forallb op_wf (c_ops c).

Definition model_mismatch (c : case) : bool :=
  match run_ops (ginit (c_cfg c) (c_attempts c)) (c_dials c) (c_ops c) with
  | None => true
  | Some l => negb (obs_eqb l (c_obs c))
  end.

Definition is_some {A} (o : option A) : bool := match o with Some _ => true | None => false end.

Fixpoint requested (es : list event) : list pid :=
  match es with
  | [] => []
  | EReq _ p _ _ _ _ :: t => p :: requested t
  | _ :: t => requested t
  end.
(* every promise handed out by Request was completed *)
Definition all_resolved_b (es : list event) : bool :=
  let done := resolved es in forallb (fun p => existsb (pid_eqb p) done) (requested es).

(* C01 oracles on the observed events: strict when every request of the script is well formed *)
Definition c01_violation (c : case) : bool :=
  let es := concat (c_obs c) in
  let n := length (c_cfg c) in
  let strict := case_wf c in
  negb (is_some (run_mon (amon_step strict) (amon_init n) es) &&
        is_some (run_mon (smon_step (if strict then MClean else MLenient)) (smon_init n) es) &&
        one_answer_b es &&
        (if c_drained c then all_resolved_b es else true)).

(* C02 oracles: the discipline monitor (blocks are exactly their waiters' appends) and, for well-formed
   scripts, the shape of every block *)
Fixpoint sends (es : list event) : list (kind * block) :=
  match es with
  | [] => []
  | ESend _ k b :: t => (k, b) :: sends t
  | _ :: t => sends t
  end.
(* good_block_b modulo the lossy columns: row ids are read off the key column, which is never lossy *)
Fixpoint ascending (l : list N) : bool :=
  match l with
  | x :: ((y :: _) as t) => N.ltb x y && ascending t
  | _ => true
  end.
Definition good_block_red (k : kind) (b : block) : bool :=
  let rids := map fst (nth (keycol k) b []) in
  block_eqb b (red k (table_of (ncols k) rids)) && (if ascending rids then true else nodupb N.eqb rids).
Definition c02_violation (c : case) : bool :=
  let es := concat (c_obs c) in
  let n := length (c_cfg c) in
  if case_wf c then
    negb (is_some (run_mon (smon_step MClean) (smon_init n) es) &&
          forallb (fun kb => good_block_red (fst kb) (snd kb)) (sends es))
  else false.

Definition mismatches (cs : list case) : list Z := map c_id (filter model_mismatch cs).
Definition c01_violations (cs : list case) : list Z := map c_id (filter c01_violation cs).
Definition c02_violations (cs : list case) : list Z := map c_id (filter c02_violation cs).
