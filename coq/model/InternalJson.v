(* C09: qryn's own code inside the json stage of the in-process engine
   (reader/logql/logql_transpiler_v2/internal_planner/planner_parser_json.go), over a JSON VALUE tree: the byte-level
   decoder (go-faster/jx) stays the oracle that turns a line into the tree; what qryn does with the tree is modelled:
   * `| json`            : ParserPlanner.json / subDec -- nested keys flattened with "_", label names through sanitizeLabel,
                           strings decoded, numbers / booleans / null as their raw text, arrays skipped, a later
                           assignment to the same name wins, a line whose top-level value is not an object is refused;
   * `| json l="path"..` : jsonWithParams / jsonPathProcessor -- ONE pass over the document with the set of paths still
                           "ahead" (filterAhead on object keys and array indexes, typed: a key never matches an index),
                           a string or scalar met where a path ends is assigned (not an empty string: since /repo
                           7f68b19), an object / array met where a path ends assigns nothing.
   Executable definitions only.                                                                                       *)
From Coq Require Import List ZArith NArith Bool String Ascii.
From Qryn Require Import model.InternalEngine.
Import ListNotations.
Open Scope Z_scope.

Inductive jv :=
| JStr (s : string)                       (* a string, decoded *)
| JRaw (s : string)                       (* number / true / false / null: the raw text *)
| JObj (kvs : list (string * jv))         (* members in document order, duplicate keys kept *)
| JArr (l : list jv).

(* ---------------------------------------------------------------------------------------------------------------- *)
(* sanitizeLabel = regexp.MustCompile("[^a-zA-Z0-9_]").ReplaceAllString(label, "_"): every RUNE outside the class
   becomes one "_" (Go decodes UTF-8: a well-formed multi-byte sequence is one rune, any other byte >= 0x80 is one)   *)
Definition byte_in (lo hi : N) (c : ascii) : bool := let n := N_of_ascii c in (lo <=? n)%N && (n <=? hi)%N.
Definition label_char (c : ascii) : bool :=
  byte_in 97 122 c || byte_in 65 90 c || byte_in 48 57 c || Ascii.eqb c "_"%char.
Definition cont (c : ascii) : bool := byte_in 128 191 c.
(* utf8.DecodeRuneInString: the width of the rune that starts with byte c followed by r *)
Definition rune_width (c : ascii) (r : string) : nat :=
  let second (lo hi : N) (n : nat) :=
      match r with
      | String b1 r1 =>
        if byte_in lo hi b1 then
          match n, r1 with
          | 2%nat, _ => 2%nat
          | 3%nat, String b2 _ => if cont b2 then 3%nat else 1%nat
          | 4%nat, String b2 (String b3 _) => if cont b2 && cont b3 then 4%nat else 1%nat
          | _, _ => 1%nat
          end
        else 1%nat
      | EmptyString => 1%nat
      end in
  let n := N_of_ascii c in
  if (n <? 194)%N then 1%nat
  else if (n <=? 223)%N then second 128%N 191%N 2%nat
  else if (n =? 224)%N then second 160%N 191%N 3%nat
  else if (n =? 237)%N then second 128%N 159%N 3%nat
  else if (n <=? 239)%N then second 128%N 191%N 3%nat
  else if (n =? 240)%N then second 144%N 191%N 4%nat
  else if (n <=? 243)%N then second 128%N 191%N 4%nat
  else if (n =? 244)%N then second 128%N 143%N 4%nat
  else 1%nat.
Fixpoint drop_bytes (n : nat) (s : string) : string :=
  match n, s with
  | S n', String _ r => drop_bytes n' r
  | _, _ => s
  end.
Fixpoint sanitize_fuel (fuel : nat) (s : string) : string :=
  match fuel, s with
  | S f, String c r =>
    if label_char c then String c (sanitize_fuel f r)
    else String "_"%char (sanitize_fuel f (drop_bytes (rune_width c r - 1) r))
  | _, _ => EmptyString
  end.
Definition sanitize (s : string) : string := sanitize_fuel (String.length s) s.

(* ---------------------------------------------------------------------------------------------------------------- *)
(* subDec: prefix handling `_prefix := prefix; if _prefix != "" { _prefix += "_" }; _prefix += key`                  *)
Definition join_key (prefix key : string) : string :=
  if String.eqb prefix EmptyString then key else (prefix ++ "_" ++ key)%string.
Fixpoint flat_value (name : string) (v : jv) (acc : lbls) : lbls :=
  match v with
  | JStr s => lset acc (sanitize name) s
  | JRaw s => lset acc (sanitize name) s
  | JArr _ => acc
  | JObj kvs =>
    (fix members (kvs : list (string * jv)) (acc : lbls) : lbls :=
       match kvs with
       | [] => acc
       | (k, x) :: r => members r (flat_value (join_key name k) x acc)
       end) kvs acc
  end.
(* ParserPlanner.json: None = "not an object" *)
Definition json_all (v : jv) : option lbls :=
  match v with
  | JObj _ => Some (flat_value EmptyString v [])
  | _ => None
  end.

(* ---------------------------------------------------------------------------------------------------------------- *)
(* jsonWithParams: a path part is an object key or an array index (shared.JsonPathParamToTypedArray: the typed array
   is read from the real function by the harness)                                                                   *)
Inductive ppart := PKey (k : string) | PIdx (i : Z).
Definition ahead := (string * list ppart)%type.            (* label, what is left of its path *)

Definition ahead_key (key : string) (aheads : list ahead) : list ahead :=
  flat_map (fun a => match snd a with
                     | PKey k :: rest => if String.eqb k key then [(fst a, rest)] else []
                     | _ => []
                     end) aheads.
Definition ahead_idx (i : Z) (aheads : list ahead) : list ahead :=
  flat_map (fun a => match snd a with
                     | PIdx j :: rest => if Z.eqb j i then [(fst a, rest)] else []
                     | _ => []
                     end) aheads.
(* the assignments of a scalar met with `aheads`: every label whose path ends here *)
Definition assign_ends (aheads : list ahead) (val : string) (acc : lbls) : lbls :=
  fold_left (fun m a => match snd a with [] => lset m (fst a) val | _ => m end) aheads acc.

Fixpoint walk (v : jv) (aheads : list ahead) (acc : lbls) : lbls :=
  match v with
  | JStr s => if String.eqb s EmptyString then acc else assign_ends aheads s acc
  | JRaw s => assign_ends aheads s acc
  | JObj kvs =>
    match aheads with
    | [] => acc
    | _ =>
      (fix members (kvs : list (string * jv)) (acc : lbls) : lbls :=
         match kvs with
         | [] => acc
         | (k, x) :: r =>
           members r (match ahead_key k aheads with [] => acc | a' => walk x a' acc end)
         end) kvs acc
    end
  | JArr l =>
    match aheads with
    | [] => acc
    | _ =>
      (fix items (l : list jv) (i : Z) (acc : lbls) : lbls :=
         match l with
         | [] => acc
         | x :: r => items r (i + 1) (match ahead_idx i aheads with [] => acc | a' => walk x a' acc end)
         end) l 0 acc
    end
  end.
Definition json_params (params : list ahead) (v : jv) : lbls := walk v params [].

(* the reference for ONE parameter: the text found by following the path, taking at every object the LAST member of
   that name under which the rest of the path is found (document order; a later assignment wins in the walker)       *)
Fixpoint jlookup (v : jv) (path : list ppart) : option string :=
  match path with
  | [] => match v with
          | JStr s => if String.eqb s EmptyString then None else Some s
          | JRaw s => Some s
          | _ => None
          end
  | p :: rest =>
    match v, p with
    | JObj kvs, PKey k =>
      (fix members (kvs : list (string * jv)) (found : option string) : option string :=
         match kvs with
         | [] => found
         | (k', x) :: r =>
           members r (if String.eqb k k' then match jlookup x rest with Some s => Some s | None => found end else found)
         end) kvs None
    | JArr l, PIdx i =>
      (fix items (l : list jv) (j : Z) : option string :=
         match l with
         | [] => None
         | x :: r => if Z.eqb j i then jlookup x rest else items r (j + 1)
         end) l 0
    | _, _ => None
    end
  end.

(* ---------------------------------------------------------------------------------------------------------------- *)
(* the decode oracle of a json stage, built from the tree oracle: what model/InternalEngine.v calls `parse id line`   *)
Inductive jspec := JsonAll | JsonParams (params : list ahead).
Definition json_decode (sp : jspec) (tree : option jv) : option lbls :=
  match tree with
  | None => None                                            (* jx refuses the line *)
  | Some v => match sp with JsonAll => json_all v | JsonParams ps => Some (json_params ps v) end
  end.

(* correspondence cases: the labels the REAL stage assigned on the single line (the empty map when it refused it) *)
Record jcase := { j_id : Z; j_spec : jspec; j_tree : option jv; j_obs : lbls }.
Definition j_mismatch (c : jcase) : bool :=
  negb (lbls_eqb (match json_decode (j_spec c) (j_tree c) with Some m => m | None => [] end) (j_obs c)).
Definition json_mismatches (cs : list jcase) : list Z := map j_id (filter j_mismatch cs).
(* specification side: with distinct parameter names every parameter label holds what jlookup finds (and a label that
   is no parameter is not assigned): evaluated on the OBSERVED labels *)
Fixpoint str_all (p : ascii -> bool) (s : string) : bool :=
  match s with EmptyString => true | String c r => p c && str_all p r end.
Definition j_spec_violation (c : jcase) : bool :=
  match j_spec c, j_tree c with
  | JsonParams ps, Some v =>
    negb (forallb (fun a => match jlookup v (snd a) with
                            | Some s => String.eqb (lget (j_obs c) (fst a)) s && mem_str (fst a) (map fst (j_obs c))
                            | None => negb (mem_str (fst a) (map fst (j_obs c)))
                            end) ps
          && forallb (fun kv => mem_str (fst kv) (map fst ps)) (j_obs c))
  | JsonAll, _ => negb (forallb (fun kv => str_all label_char (fst kv)) (j_obs c))      (* every label name is sanitised *)
  | _, _ => false
  end.
Fixpoint nodup_str (l : list string) : bool :=
  match l with [] => true | x :: r => negb (mem_str x r) && nodup_str r end.
Definition json_spec_violations (cs : list jcase) : list Z :=
  map j_id (filter (fun c => match j_spec c with JsonParams ps => nodup_str (map fst ps) | JsonAll => true end && j_spec_violation c) cs).
