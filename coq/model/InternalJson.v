(* C09: qryn's own code inside the json stage of the in-process engine
   (reader/logql/logql_transpiler_v2/internal_planner/planner_parser_json.go), over a JSON VALUE tree: the byte-level
   decoder (go-faster/jx) stays the oracle that turns a line into the tree; what qryn does with the tree is modelled:
   * `| json`            : ParserPlanner.json / subDec -- nested keys flattened with "_", label names through sanitizeLabel,
                           strings decoded, numbers / booleans / null as their raw text, arrays skipped, a later
                           assignment to the same name wins, a line whose top-level value is not an object is refused;
   * `| json l="path"..` : jsonWithParams / jsonPathProcessor -- ONE pass over the document with the set of paths still
                           "ahead" (filterAhead on object keys and array indexes, typed: a key never matches an index),
                           a string or scalar met where a path ends is assigned (not an empty string: since /repo
                           7f68b19), an object / array met where a path ends assigns nothing.
   Executable definitions only.                                                                                       *)
From Coq Require Import List ZArith NArith Bool String Ascii.
From Qryn Require Import model.InternalEngine.
Import ListNotations.
Open Scope Z_scope.

Inductive jv :=
| JStr (s : string)                       (* a string, decoded *)
| JRaw (s : string)                       (* number / true / false / null: the raw text *)
| JObj (kvs : list (string * jv))         (* members in document order, duplicate keys kept *)
| JArr (l : list jv).

(* ---------------------------------------------------------------------------------------------------------------- *)
(* sanitizeLabel = regexp.MustCompile("[^a-zA-Z0-9_]").ReplaceAllString(label, "_"): every RUNE outside the class
   becomes one "_" (Go decodes UTF-8: a well-formed multi-byte sequence is one rune, any other byte >= 0x80 is one)   *)
Definition byte_in (lo hi : N) (c : ascii) : bool := let n := N_of_ascii c in (lo <=? n)%N && (n <=? hi)%N.
Definition label_char (c : ascii) : bool :=
  byte_in 97 122 c || byte_in 65 90 c || byte_in 48 57 c || Ascii.eqb c "_"%char.
Definition cont (c : ascii) : bool := byte_in 128 191 c.
(* utf8.DecodeRuneInString: the width of the rune that starts with byte c followed by r *)
Definition rune_width (c : ascii) (r : string) : nat :=
  let second (lo hi : N) (n : nat) :=
      match r with
      | String b1 r1 =>
        if byte_in lo hi b1 then
          match n, r1 with
          | 2%nat, _ => 2%nat
          | 3%nat, String b2 _ => if cont b2 then 3%nat else 1%nat
          | 4%nat, String b2 (String b3 _) => if cont b2 && cont b3 then 4%nat else 1%nat
          | _, _ => 1%nat
          end
        else 1%nat
      | EmptyString => 1%nat
      end in
  let n := N_of_ascii c in
  if (n <? 194)%N then 1%nat
  else if (n <=? 223)%N then second 128%N 191%N 2%nat
  else if (n =? 224)%N then second 160%N 191%N 3%nat
  else if (n =? 237)%N then second 128%N 159%N 3%nat
  else if (n <=? 239)%N then second 128%N 191%N 3%nat
  else if (n =? 240)%N then second 144%N 191%N 4%nat
  else if (n <=? 243)%N then second 128%N 191%N 4%nat
  else if (n =? 244)%N then second 128%N 143%N 4%nat
  else 1%nat.
Fixpoint drop_bytes (n : nat) (s : string) : string :=
  match n, s with
  | S n', String _ r => drop_bytes n' r
  | _, _ => s
  end.
Fixpoint sanitize_fuel (fuel : nat) (s : string) : string :=
  match fuel, s with
  | S f, String c r =>
    if label_char c then String c (sanitize_fuel f r)
    else String "_"%char (sanitize_fuel f (drop_bytes (rune_width c r - 1) r))
  | _, _ => EmptyString
  end.
Definition sanitize (s : string) : string := sanitize_fuel (String.length s) s.

(* ---------------------------------------------------------------------------------------------------------------- *)
(* subDec: prefix handling `_prefix := prefix; if _prefix != "" { _prefix += "_" }; _prefix += key`                  *)
Definition join_key (prefix key : string) : string :=
  if String.eqb prefix EmptyString then key else (prefix ++ "_" ++ key)%string.
Fixpoint flat_value (name : string) (v : jv) (acc : lbls) : lbls :=
  match v with
  | JStr s => lset acc (sanitize name) s
  | JRaw s => lset acc (sanitize name) s
  | JArr _ => acc
  | JObj kvs =>
    (fix members (kvs : list (string * jv)) (acc : lbls) : lbls :=
       match kvs with
       | [] => acc
       | (k, x) :: r => members r (flat_value (join_key name k) x acc)
       end) kvs acc
  end.
(* ParserPlanner.json: None = "not an object" *)
Definition json_all (v : jv) : option lbls :=
  match v with
  | JObj _ => Some (flat_value EmptyString v [])
  | _ => None
  end.

(* ---------------------------------------------------------------------------------------------------------------- *)
(* jsonWithParams: a path part is an object key or an array index (shared.JsonPathParamToTypedArray: the typed array
   is read from the real function by the harness)                                                                   *)
Inductive ppart := PKey (k : string) | PIdx (i : Z).
Definition ahead := (string * list ppart)%type.            (* label, what is left of its path *)

Definition ahead_key (key : string) (aheads : list ahead) : list ahead :=
  flat_map (fun a => match snd a with
                     | PKey k :: rest => if String.eqb k key then [(fst a, rest)] else []
                     | _ => []
                     end) aheads.
Definition ahead_idx (i : Z) (aheads : list ahead) : list ahead :=
  flat_map (fun a => match snd a with
                     | PIdx j :: rest => if Z.eqb j i then [(fst a, rest)] else []
                     | _ => []
                     end) aheads.
(* the assignments of a scalar met with `aheads`: every label whose path ends here *)
Definition assign_ends (aheads : list ahead) (val : string) (acc : lbls) : lbls :=
  fold_left (fun m a => match snd a with [] => lset m (fst a) val | _ => m end) aheads acc.

Fixpoint walk (v : jv) (aheads : list ahead) (acc : lbls) : lbls :=
  match v with
  | JStr s => if String.eqb s EmptyString then acc else assign_ends aheads s acc
  | JRaw s => assign_ends aheads s acc
  | JObj kvs =>
    match aheads with
    | [] => acc
    | _ =>
      (fix members (kvs : list (string * jv)) (acc : lbls) : lbls :=
         match kvs with
         | [] => acc
         | (k, x) :: r =>
           members r (match ahead_key k aheads with [] => acc | a' => walk x a' acc end)
         end) kvs acc
    end
  | JArr l =>
    match aheads with
    | [] => acc
    | _ =>
      (fix items (l : list jv) (i : Z) (acc : lbls) : lbls :=
         match l with
         | [] => acc
         | x :: r => items r (i + 1) (match ahead_idx i aheads with [] => acc | a' => walk x a' acc end)
         end) l 0 acc
    end
  end.
Definition json_params (params : list ahead) (v : jv) : lbls := walk v params [].

(* the reference for ONE parameter: the text found by following the path, taking at every object the LAST member of
   that name under which the rest of the path is found (document order; a later assignment wins in the walker)       *)
Fixpoint jlookup (v : jv) (path : list ppart) : option string :=
  match path with
  | [] => match v with
          | JStr s => if String.eqb s EmptyString then None else Some s
          | JRaw s => Some s
          | _ => None
          end
  | p :: rest =>
    match v, p with
    | JObj kvs, PKey k =>
      (fix members (kvs : list (string * jv)) (found : option string) : option string :=
         match kvs with
         | [] => found
         | (k', x) :: r =>
           members r (if String.eqb k k' then match jlookup x rest with Some s => Some s | None => found end else found)
         end) kvs None
    | JArr l, PIdx i =>
      (fix items (l : list jv) (j : Z) : option string :=
         match l with
         | [] => None
         | x :: r => if Z.eqb j i then jlookup x rest else items r (j + 1)
         end) l 0
    | _, _ => None
    end
  end.

(* ---------------------------------------------------------------------------------------------------------------- *)
(* the naming rule of the LogQL definition, stated by VALUE: a name is read as a sequence of characters -- UTF-8 as
   RFC 3629 defines it: the code point is computed from the payload bits, and a sequence is a character only when it
   is the shortest form of its code point, not a surrogate and not above U+10FFFF; any other byte is one (invalid)
   character -- and every character outside [a-zA-Z0-9_] becomes ONE "_" *)
Inductive uchar := UCp (cp : N) | UBad.
Definition nb (c : ascii) : N := N_of_ascii c.
Definition decode1 (c : ascii) (r : string) : uchar * nat :=
  let n := nb c in
  if (n <? 128)%N then (UCp n, 1%nat)
  else if (192 <=? n)%N && (n <? 224)%N then
    match r with
    | String b1 _ =>
      let cp := ((n - 192) * 64 + (nb b1 - 128))%N in
      if cont b1 && (128 <=? cp)%N then (UCp cp, 2%nat) else (UBad, 1%nat)
    | _ => (UBad, 1%nat)
    end
  else if (224 <=? n)%N && (n <? 240)%N then
    match r with
    | String b1 (String b2 _) =>
      let cp := ((n - 224) * 4096 + (nb b1 - 128) * 64 + (nb b2 - 128))%N in
      if cont b1 && cont b2 && (2048 <=? cp)%N && negb ((55296 <=? cp)%N && (cp <=? 57343)%N) then (UCp cp, 3%nat) else (UBad, 1%nat)
    | _ => (UBad, 1%nat)
    end
  else if (240 <=? n)%N && (n <? 248)%N then
    match r with
    | String b1 (String b2 (String b3 _)) =>
      let cp := ((n - 240) * 262144 + (nb b1 - 128) * 4096 + (nb b2 - 128) * 64 + (nb b3 - 128))%N in
      if cont b1 && cont b2 && cont b3 && (65536 <=? cp)%N && (cp <=? 1114111)%N then (UCp cp, 4%nat) else (UBad, 1%nat)
    | _ => (UBad, 1%nat)
    end
  else (UBad, 1%nat).
Fixpoint chars_fuel (fuel : nat) (s : string) : list uchar :=
  match fuel, s with
  | S f, String c r => let (u, w) := decode1 c r in u :: chars_fuel f (drop_bytes (w - 1) r)
  | _, _ => []
  end.
Definition utf8_chars (s : string) : list uchar := chars_fuel (String.length s) s.
Definition cp_in_class (cp : N) : bool :=
  ((97 <=? cp) && (cp <=? 122) || (65 <=? cp) && (cp <=? 90) || (48 <=? cp) && (cp <=? 57) || (cp =? 95))%N.
Definition uchar_name (u : uchar) : ascii :=
  match u with
  | UCp cp => if cp_in_class cp then ascii_of_N cp else "_"%char
  | UBad => "_"%char
  end.
Definition label_name (s : string) : string := string_of_list_ascii (map uchar_name (utf8_chars s)).

(* the flattening of `| json`, declaratively: the scalar leaves of the document in document order, each under the
   names of the members that lead to it; arrays have no leaves *)
Fixpoint leaves (keys : list string) (v : jv) : list (list string * string) :=
  match v with
  | JStr s => [(keys, s)]
  | JRaw s => [(keys, s)]
  | JArr _ => []
  | JObj kvs =>
    (fix members (kvs : list (string * jv)) : list (list string * string) :=
       match kvs with
       | [] => []
       | (k, x) :: r => (leaves (keys ++ [k]) x ++ members r)%list
       end) kvs
  end.
Definition path_name (keys : list string) : string := fold_left join_key keys EmptyString.
Definition json_all_ref (v : jv) : option lbls :=
  match v with
  | JObj _ => Some (fold_left (fun m kv => lset m (label_name (path_name (fst kv))) (snd kv)) (leaves [] v) [])
  | _ => None
  end.

(* ---------------------------------------------------------------------------------------------------------------- *)
(* the logfmt stage (planner_parser_logfmt.go HandleLogfmt) over the (key, value) pairs the decoder kr/logfmt hands to it,
   in line order: without parameters every pair is assigned under the sanitised key; with parameters `label="key"`
   (ParserPlanner.Process: logfmtFields[first part of the path, when it is a key] holds every label that names the key,
   in parameter order -- since the repair logfmt-two-labels-one-key; it was one label per key, the last parameter winning)
   only the named keys are assigned, under each of their labels *)
Definition logfmt_all (pairs : list (string * string)) : lbls :=
  fold_left (fun m kv => lset m (sanitize (fst kv)) (snd kv)) pairs [].
Definition fields_of (params : list ahead) (key : string) : list string :=
  flat_map (fun a => match snd a with PKey k :: _ => if String.eqb k key then [fst a] else [] | _ => [] end) params.
Definition logfmt_fields (params : list ahead) (pairs : list (string * string)) : lbls :=
  fold_left (fun m kv => fold_left (fun m' l => if String.eqb l EmptyString then m' else lset m' l (snd kv))
                                   (fields_of params (fst kv)) m) pairs [].
(* the definition: names by value *)
Definition logfmt_all_ref (pairs : list (string * string)) : lbls :=
  fold_left (fun m kv => lset m (label_name (fst kv)) (snd kv)) pairs [].
(* per parameter: the value of the LAST pair whose key is the parameter's *)
Definition logfmt_lookup (pairs : list (string * string)) (key : string) : option string :=
  fold_left (fun f kv => if String.eqb (fst kv) key then Some (snd kv) else f) pairs None.

(* ---------------------------------------------------------------------------------------------------------------- *)
(* the decode oracle of a json stage, built from the tree oracle: what model/InternalEngine.v calls `parse id line`   *)
Inductive jspec := JsonAll | JsonParams (params : list ahead).
Definition json_decode (sp : jspec) (tree : option jv) : option lbls :=
  match tree with
  | None => None                                            (* jx refuses the line *)
  | Some v => match sp with JsonAll => json_all v | JsonParams ps => Some (json_params ps v) end
  end.

(* correspondence cases: the labels the REAL stage assigned on the single line (the empty map when it refused it) *)
Record jcase := { j_id : Z; j_spec : jspec; j_tree : option jv; j_obs : lbls }.
Definition j_mismatch (c : jcase) : bool :=
  negb (lbls_eqb (match json_decode (j_spec c) (j_tree c) with Some m => m | None => [] end) (j_obs c)).
Definition json_mismatches (cs : list jcase) : list Z := map j_id (filter j_mismatch cs).
(* specification side, evaluated on the OBSERVED labels.  With parameters (distinct names): every parameter label holds what
   jlookup finds and a label that is no parameter is not assigned.  Without: the observed map IS the declarative flattening
   json_all_ref -- every scalar leaf under the name the definition by value gives it (one "_" per character), nothing else;
   nothing when the decoder or the stage refuses the line *)
Fixpoint str_all (p : ascii -> bool) (s : string) : bool :=
  match s with EmptyString => true | String c r => p c && str_all p r end.
Definition j_spec_violation (c : jcase) : bool :=
  match j_spec c, j_tree c with
  | JsonParams ps, Some v =>
    negb (forallb (fun a => match jlookup v (snd a) with
                            | Some s => String.eqb (lget (j_obs c) (fst a)) s && mem_str (fst a) (map fst (j_obs c))
                            | None => negb (mem_str (fst a) (map fst (j_obs c)))
                            end) ps
          && forallb (fun kv => mem_str (fst kv) (map fst ps)) (j_obs c))
  | JsonAll, Some v => negb (lbls_eqb (match json_all_ref v with Some m => m | None => [] end) (j_obs c))
  | JsonAll, None => negb (lbls_eqb [] (j_obs c))
  | _, _ => false
  end.
Fixpoint nodup_str (l : list string) : bool :=
  match l with [] => true | x :: r => negb (mem_str x r) && nodup_str r end.
Definition json_spec_violations (cs : list jcase) : list Z :=
  map j_id (filter (fun c => match j_spec c with JsonParams ps => nodup_str (map fst ps) | JsonAll => true end && j_spec_violation c) cs).

(* logfmt rows: the pairs of the decoder oracle (None = it refuses the line), the parameters, the labels the real stage assigned *)
Record lcase := { l_id : Z; l_params : list ahead; l_pairs : option (list (string * string)); l_obs : lbls }.
Definition logfmt_decode (params : list ahead) (pairs : option (list (string * string))) : lbls :=
  match pairs with
  | None => []
  | Some ps => match params with [] => logfmt_all ps | _ => logfmt_fields params ps end
  end.
Definition logfmt_mismatches (cs : list lcase) : list Z :=
  map l_id (filter (fun c => negb (lbls_eqb (logfmt_decode (l_params c) (l_pairs c)) (l_obs c))) cs).
(* specification: without parameters the observed map is logfmt_all_ref (names by value); with parameters whose names are
   distinct and whose paths are one key each (two labels may name the SAME key: each is extracted on its own, as in LogQL):
   every label holds the value of the last pair of its key, and nothing else is assigned *)
Definition single_key (a : ahead) : option string := match snd a with [PKey k] => Some k | _ => None end.
Definition l_spec_violation (c : lcase) : bool :=
  match l_pairs c with
  | None => negb (lbls_eqb [] (l_obs c))
  | Some pairs =>
    match l_params c with
    | [] => negb (lbls_eqb (logfmt_all_ref pairs) (l_obs c))
    | ps =>
      if forallb (fun a => match single_key a with Some _ => true | None => false end) ps && nodup_str (map fst ps)
      then negb (forallb (fun a => match single_key a with
                                   | Some k => match logfmt_lookup pairs k with
                                               | Some s => String.eqb (lget (l_obs c) (fst a)) s && mem_str (fst a) (map fst (l_obs c))
                                               | None => negb (mem_str (fst a) (map fst (l_obs c)))
                                               end
                                   | None => true
                                   end) ps
                 && forallb (fun kv => mem_str (fst kv) (map fst ps)) (l_obs c))
      else false
    end
  end.
Definition logfmt_spec_violations (cs : list lcase) : list Z := map l_id (filter l_spec_violation cs).
