(* C14 (round 8) - FixPeriodPlanner.Process (reader/logql/logql_transpiler_v2/planner_from_fix.go), the part that runs before the
   inner processor is called: the guard (NotSupportedError, nothing touched, Main not called) and the rewriting of From / To of the
   PlannerContext THE CALLER HANDED IN to whole range windows counted from the Unix epoch.  The planner object has two fields (Main,
   Duration), neither is written by Process (regenerated obligation translation_field_writes: its only stores go to the context
   parameter, class WContext); what an execution can leave behind is therefore the context.
   Go: int64 `/` truncates toward zero = Z.quot; all quantities are nanoseconds. *)
From Coq Require Import List ZArith Bool Lia.
Import ListNotations.
Open Scope Z_scope.

Record fctx := { f_from : Z; f_to : Z; f_step : Z }.

(* if ctx.Step <= 0 || ctx.To.Before(ctx.From) || _to-_from < 0 || ctx.To.Sub(ctx.From)/ctx.Step > 11000 { return nil, NotSupported } *)
Definition fix_refuses (c : fctx) : bool :=
  (f_step c <=? 0) || (f_to c <? f_from c) || (11000 <? Z.quot (f_to c - f_from c) (f_step c)).

(* ctx.From = time.Unix(0, _from/d*d); ctx.To = time.Unix(0, _to/d*d+d) *)
Definition fix_window (d : Z) (c : fctx) : fctx :=
  {| f_from := Z.quot (f_from c) d * d; f_to := Z.quot (f_to c) d * d + d; f_step := f_step c |}.

(* one Process call: None = refused; Some c' = the context Main.Process is called with *)
Definition fix_process (d : Z) (c : fctx) : option fctx :=
  if fix_refuses c then None else Some (fix_window d c).

(* the caller's context after the call (the same object Main saw; untouched by a refusal) *)
Definition fix_after (d : Z) (c : fctx) : fctx :=
  match fix_process d c with Some c' => c' | None => c end.

(* ONE planner object executed k times under ONE context object nobody else writes *)
Fixpoint fix_run_one (d : Z) (k : nat) (c : fctx) : list (option fctx) :=
  match k with
  | O => []
  | S k' => fix_process d c :: fix_run_one d k' (fix_after d c)
  end.

(* ONE planner object, a new context per execution (what prepareOutput / every caller does) *)
Definition fix_run_fresh (d : Z) (cs : list fctx) : list (option fctx) := map (fix_process d) cs.

(* what Main sees in the (k+1)-th execution under one context, if that execution is not refused *)
Definition fix_nth_window (d : Z) (c : fctx) (k : nat) : fctx :=
  {| f_from := Z.quot (f_from c) d * d; f_to := Z.quot (f_to c) d * d + d + Z.of_nat k * d; f_step := f_step c |}.

(* ---- correspondence cases: the real FixPeriodPlanner over a window recorder (harness replan --fixperiod) ---- *)
Record fobs := { fo_seen : option (Z * Z); fo_after : Z * Z }.
Record fcase := { fc_id : Z; fc_d : Z; fc_ctx : fctx; fc_k : nat; fc_one : list fobs;
                  fc_fresh_ctxs : list fctx; fc_fresh : list fobs }.

Definition win (c : fctx) : Z * Z := (f_from c, f_to c).
Definition obs_of (d : Z) (c : fctx) : fobs :=
  {| fo_seen := option_map win (fix_process d c); fo_after := win (fix_after d c) |}.
Fixpoint one_obs (d : Z) (k : nat) (c : fctx) : list fobs :=
  match k with O => [] | S k' => obs_of d c :: one_obs d k' (fix_after d c) end.

Definition pair_eqb (a b : Z * Z) : bool := (fst a =? fst b) && (snd a =? snd b).
Definition fobs_eqb (a b : fobs) : bool :=
  match fo_seen a, fo_seen b with
  | None, None => true | Some x, Some y => pair_eqb x y | _, _ => false end && pair_eqb (fo_after a) (fo_after b).
Fixpoint fobs_list_eqb (a b : list fobs) : bool :=
  match a, b with
  | [], [] => true | x :: a', y :: b' => fobs_eqb x y && fobs_list_eqb a' b' | _, _ => false end.

Definition fcase_ok (c : fcase) : bool :=
  fobs_list_eqb (one_obs (fc_d c) (fc_k c) (fc_ctx c)) (fc_one c) &&
  fobs_list_eqb (map (obs_of (fc_d c)) (fc_fresh_ctxs c)) (fc_fresh c).
Definition fix_mismatches (cs : list fcase) : list Z :=
  map fc_id (filter (fun c => negb (fcase_ok c)) cs).
