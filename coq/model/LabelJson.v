(* A strict RFC 8259 reader for the one shape the series index stores: a JSON object whose
   members are all strings ( {"name":"value",...} ).  It is the reference against which the label
   document produced by encodeLabels is judged (property C04): [json_decode doc = Some pairs]
   iff doc is a well-formed JSON text of that shape, and then pairs are the decoded
   (name, value) byte strings (UTF-8) in document order.
   Strictness: only the escapes \dquote \\ \/ \b \f \n \r \t \uXXXX; no raw control bytes; bytes >= 0x80
   must form well-formed UTF-8; \u escapes must denote scalar values (a high surrogate must be
   followed by a \u low surrogate; lone surrogates are rejected since they have no UTF-8 form).
   Executable definitions only. *)
From Coq Require Import List ZArith String Ascii Bool.
From Qryn Require Import model.GoQuote.
Import ListNotations.
Open Scope Z_scope.

Definition is_ws (b : Z) : bool := (b =? 32) || (b =? 9) || (b =? 10) || (b =? 13).
Fixpoint skip_ws (s : string) : string :=
  match s with
  | String c r => if is_ws (byte c) then skip_ws r else s
  | EmptyString => s
  end.

Definition hexval (b : Z) : option Z :=
  if in_rng 48 57 b then Some (b - 48)
  else if in_rng 97 102 b then Some (b - 87)
  else if in_rng 65 70 b then Some (b - 55)
  else None.

(* four hex digits at the head of s *)
Definition hex4 (s : string) : option (Z * string) :=
  match s with
  | String a (String b (String c (String d r))) =>
    match hexval (byte a), hexval (byte b), hexval (byte c), hexval (byte d) with
    | Some x, Some y, Some z, Some w => Some (x * 4096 + y * 256 + z * 16 + w, r)
    | _, _, _, _ => None
    end
  | _ => None
  end.

(* the character denoted by a two-character escape \e *)
Definition simple_escape (e : Z) : option ascii :=
  if e =? 34 then Some (chr 34) else if e =? 92 then Some (chr 92) else if e =? 47 then Some (chr 47)
  else if e =? 98 then Some (chr 8) else if e =? 102 then Some (chr 12) else if e =? 110 then Some (chr 10)
  else if e =? 114 then Some (chr 13) else if e =? 116 then Some (chr 9) else None.

Definition omap {A B} (f : A -> B) (o : option A) : option B :=
  match o with Some x => Some (f x) | None => None end.
Definition prepend (p : string) (x : string * string) : string * string := (append p (fst x), snd x).

(* body of a string literal, after the opening quote: Some (decoded bytes, text after the closing quote) *)
Fixpoint parse_str (fuel : nat) (s : string) : option (string * string) :=
  match fuel with
  | O => None
  | S f =>
    match s with
    | EmptyString => None
    | String c r =>
      let b := byte c in
      if b =? 34 then Some (EmptyString, r)
      else if b =? 92 then
        match r with
        | EmptyString => None
        | String e r2 =>
          match simple_escape (byte e) with
          | Some ch => omap (prepend (str1 ch)) (parse_str f r2)
          | None =>
            if byte e =? 117 then
              match hex4 r2 with
              | None => None
              | Some (cp, r3) =>
                if in_rng 55296 56319 cp then          (* high surrogate: needs \uDC00..\uDFFF next *)
                  match r3 with
                  | String b1 (String u1 r4) =>
                    if (byte b1 =? 92) && (byte u1 =? 117) then
                      match hex4 r4 with
                      | Some (lo, r5) =>
                        if in_rng 56320 57343 lo
                        then omap (prepend (encode_rune (65536 + (cp - 55296) * 1024 + (lo - 56320)))) (parse_str f r5)
                        else None
                      | None => None
                      end
                    else None
                  | _ => None
                  end
                else if in_rng 56320 57343 cp then None
                else omap (prepend (encode_rune cp)) (parse_str f r3)
              end
            else None
          end
        end
      else if b <? 32 then None
      else if b <? 128 then omap (prepend (str1 c)) (parse_str f r)
      else match decode_rune s with
           | Some (_, w) => omap (prepend (stake w s)) (parse_str f (sdrop w s))
           | None => None
           end
    end
  end.

(* members of an object, s positioned (modulo white space) at a member's opening quote *)
Fixpoint parse_members (fuel : nat) (s : string) : option (list (string * string)) :=
  match fuel with
  | O => None
  | S f =>
    match skip_ws s with
    | String q r =>
      if byte q =? 34 then
        match parse_str (S (String.length r)) r with
        | Some (k, r1) =>
          match skip_ws r1 with
          | String col r2 =>
            if byte col =? 58 then
              match skip_ws r2 with
              | String q2 r3 =>
                if byte q2 =? 34 then
                  match parse_str (S (String.length r3)) r3 with
                  | Some (v, r4) =>
                    match skip_ws r4 with
                    | String d r5 =>
                      if byte d =? 44 then omap (cons (k, v)) (parse_members f r5)
                      else if byte d =? 125 then
                        match skip_ws r5 with EmptyString => Some [(k, v)] | _ => None end
                      else None
                    | EmptyString => None
                    end
                  | None => None
                  end
                else None
              | EmptyString => None
              end
            else None
          | EmptyString => None
          end
        | None => None
        end
      else None
    | EmptyString => None
    end
  end.

Definition json_decode (s : string) : option (list (string * string)) :=
  match skip_ws s with
  | String o r =>
    if byte o =? 123 then
      match skip_ws r with
      | String cl r' =>
        if byte cl =? 125 then match skip_ws r' with EmptyString => Some [] | _ => None end
        else parse_members (S (String.length r)) r
      | EmptyString => None
      end
    else None
  | EmptyString => None
  end.
