(* Days and time zones of the series index (property C04, part c).
   Writer, builder.go onEntries: the day of a sample is
        time.Unix(tsns/1000000000, 0).UTC().Truncate(time.Hour*24)
   and that time.Time is appended to the `date` column (proto.ColDate), where ch-go computes
        ToDate(t) = Date((t.Unix() + zoneOffset(t)) / 86400)          (uint16)
   Truncate works on absolute time, so it yields the UTC midnight whatever the location of t; the
   location only matters in ToDate, which adds the zone offset back. Until the fix recorded in
   findings.d/C04.txt the .UTC() was missing: the value carried time.Local, and a process running
   west of UTC stored the PREVIOUS day ([series_day_local], kept for the regression corpus).
   Reader, FormatFromDate: the lower bound of every series selection is the UTC day of (from - 30 min).
   Executable definitions only. Seconds and days are Z; Go's int64 `/` truncates (Z.quot). *)
From Coq Require Import List ZArith Bool.
Import ListNotations.
Open Scope Z_scope.

Definition secs_of_ns (ts_ns : Z) : Z := Z.quot ts_ns 1000000000.
(* Time.Truncate(24h): round down to a multiple of 24h since the zero time = UTC midnight *)
Definition trunc_day (unix : Z) : Z := unix - unix mod 86400.
(* ch-go proto.ToDate on a time with zone offset off (seconds east of UTC) *)
Definition to_date (off unix : Z) : Z := (Z.quot (unix + off) 86400) mod 65536.

(* the code as it is now: the value appended to the column is in UTC, whatever time.Local is *)
Definition series_day (tz ts_ns : Z) : Z := to_date 0 (trunc_day (secs_of_ns ts_ns)).
(* the code before the fix: the value kept the process zone *)
Definition series_day_local (tz ts_ns : Z) : Z := to_date tz (trunc_day (secs_of_ns ts_ns)).

Definition utc_day (unix : Z) : Z := unix / 86400.
(* FormatFromDate(from) = (from.UTC() - 30 min).Format("2006-01-02"), as a day number *)
Definition reader_from_day (from : Z) : Z := utc_day (from - 1800).

(* the series row of a sample at ts is inside the reader's date window for every query whose
   time range [from, to] contains the sample *)
Definition visible (tz from ts_ns : Z) : bool := reader_from_day from <=? series_day tz ts_ns.

(* ------------------------------------------------------------------ correspondence cases *)
Record dcase := { dc_id : Z; dc_off : Z; dc_ts : Z; dc_date : Z (* observed date column value *) }.
Definition date_mismatch (c : dcase) : bool := negb (series_day (dc_off c) (dc_ts c) =? dc_date c).
(* spec on the observation: a query starting exactly at the sample (the tightest range containing it)
   must find the row: lower bound <= stored day; and the stored day is not in the future of the sample *)
Definition date_violation (c : dcase) : bool :=
  let s := secs_of_ns (dc_ts c) in
  negb ((reader_from_day s <=? dc_date c) && (dc_date c <=? utc_day s)).
Definition dids (f : dcase -> bool) (cs : list dcase) : list Z := map dc_id (filter f cs).
Definition dreport (cs : list dcase) : list (list Z) := [dids date_mismatch cs; dids date_violation cs].
