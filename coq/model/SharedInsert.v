(* Model of the time_series insert service between the requests and ClickHouse (property C04, round 6):
   writer/service/genericInsertService.go InsertServiceV2 (Request, swapBuffers, fetchLoopIteration) with the
   ProcessRequest of writer/service/impl/timeSeriesInsertService.go, composed with the request handling of
   model/SeriesIndex.v (parse against the announcement cache, doParse: 2xx iff every promise is fulfilled without
   error, only then ConfirmSeries). Requests of ONE chunk (the chunking of a request is model/SeriesIndex.v and
   model/ConfirmRule.v; it is orthogonal to what happens here).

     Request(req):  inserted, columns = processRequest(req, columns)      -- appends rows to the PENDING buffer
                    if inserted == 0 { promise.Done(nil); return }         -- nothing appended: fulfilled at once
                    results = append(results, promise)                     -- else the promise waits for the buffer
     Run:           one goroutine; every PushInterval: swapBuffers (takes columns + results if results is not empty,
                    installs an empty buffer), then client.Do(INSERT) - while it waits for the answer, Requests keep
                    appending to the new pending buffer -, then every promise of the portion gets the INSERT's outcome.

   So the rows of several requests travel in one INSERT and share its outcome. What processRequest appends is a
   parameter [app buf rows] (the code: all the rows of the request, [append_all]); the property needs exactly that
   a request whose promise is fulfilled at once has no rows, and that otherwise all its rows are in the buffer its
   promise waits for ([sound_append]). [append_new] (skip a row that is already queued in the pending buffer) is not
   sound: the request that queues nothing is answered before the fate of the buffer is known.
   The samples insert of a request is not batched here: its outcome is a parameter of the arrival.
   Executable definitions only; proofs in proofs/SharedInsertProofs.v. *)
From Coq Require Import List ZArith Bool.
From Qryn Require Import model.SeriesIndex.
Import ListNotations.
Open Scope Z_scope.

Record sreq := {
  q_id : Z;                    (* arrival number *)
  q_rows : list row;           (* the series rows the request announces (TimeSeriesData) *)
  q_spl : list sample;         (* its samples *)
  q_splok : bool               (* outcome of its samples insert *)
}.

Record sstate := {
  s_cache : list row;                      (* announcement cache *)
  s_table : list row;                      (* time_series rows stored *)
  s_acked : list sample;                   (* samples of requests answered 2xx *)
  s_buf : list row;                        (* svc.columns: the pending buffer *)
  s_wait : list sreq;                      (* svc.results: requests whose promise waits for the pending buffer *)
  s_fly : option (list row * list sreq);   (* the portion swapBuffers took: its INSERT waits for ClickHouse *)
  s_next : Z;                              (* requests arrived so far *)
  s_answers : list (Z * bool);             (* request, acknowledged? *)
  s_inserts : list (list row * bool)       (* INSERTs answered: rows, outcome (latest first) *)
}.
Definition sinit : sstate :=
  {| s_cache := []; s_table := []; s_acked := []; s_buf := []; s_wait := []; s_fly := None; s_next := 0;
     s_answers := []; s_inserts := [] |}.

Inductive sact :=
| SArrive (streams : list stream) (spl_ok : bool)   (* a push is parsed, its two Requests are made *)
| SSwap                                             (* the service loop comes round: swapBuffers + the INSERT is sent *)
| SAnswer (ok : bool)                               (* ClickHouse answers the INSERT in flight *)
| SReset                                            (* the cache ticker *)
| SEvict (k : nat).

(* processRequest of the code: every row of the request *)
Definition append_all (buf rows : list row) : list row := rows.
(* the variant that skips rows already queued in the pending buffer *)
Definition append_new (buf rows : list row) : list row := filter (fun r => negb (mem_row r buf)) rows.

(* doParse once every promise of the request is fulfilled; [ok] = outcome of its time_series promise *)
Definition complete (ok : bool) (st : sstate) (q : sreq) : sstate :=
  let ack := ok && (is_nil (q_spl q) || q_splok q) in
  {| s_cache := if ack then q_rows q ++ s_cache st else s_cache st;
     s_table := s_table st;
     s_acked := if ack then q_spl q ++ s_acked st else s_acked st;
     s_buf := s_buf st; s_wait := s_wait st; s_fly := s_fly st; s_next := s_next st;
     s_answers := (q_id q, ack) :: s_answers st; s_inserts := s_inserts st |}.

Definition sstep (app : list row -> list row -> list row) (st : sstate) (a : sact) : sstate :=
  match a with
  | SArrive ss spl_ok =>
    let q := {| q_id := s_next st; q_rows := snd (parse (s_cache st) ss); q_spl := samples_of ss; q_splok := spl_ok |} in
    let add := app (s_buf st) (q_rows q) in
    if is_nil add
    then complete true
           {| s_cache := s_cache st; s_table := s_table st; s_acked := s_acked st; s_buf := s_buf st; s_wait := s_wait st;
              s_fly := s_fly st; s_next := s_next st + 1; s_answers := s_answers st; s_inserts := s_inserts st |} q
    else {| s_cache := s_cache st; s_table := s_table st; s_acked := s_acked st;
            s_buf := s_buf st ++ add; s_wait := s_wait st ++ [q];
            s_fly := s_fly st; s_next := s_next st + 1; s_answers := s_answers st; s_inserts := s_inserts st |}
  | SSwap =>
    match s_fly st with
    | Some _ => st                                    (* the loop is inside client.Do *)
    | None =>
      if is_nil (s_wait st) then st                   (* swapBuffers: no promise waiting, nothing is sent *)
      else {| s_cache := s_cache st; s_table := s_table st; s_acked := s_acked st; s_buf := []; s_wait := [];
              s_fly := Some (s_buf st, s_wait st); s_next := s_next st; s_answers := s_answers st; s_inserts := s_inserts st |}
    end
  | SAnswer ok =>
    match s_fly st with
    | None => st
    | Some (b, w) =>
      fold_left (complete ok) w
        {| s_cache := s_cache st; s_table := if ok then b ++ s_table st else s_table st; s_acked := s_acked st;
           s_buf := s_buf st; s_wait := s_wait st; s_fly := None; s_next := s_next st; s_answers := s_answers st;
           s_inserts := (b, ok) :: s_inserts st |}
    end
  | SReset =>
    {| s_cache := []; s_table := s_table st; s_acked := s_acked st; s_buf := s_buf st; s_wait := s_wait st;
       s_fly := s_fly st; s_next := s_next st; s_answers := s_answers st; s_inserts := s_inserts st |}
  | SEvict k =>
    {| s_cache := remove_nth k (s_cache st); s_table := s_table st; s_acked := s_acked st; s_buf := s_buf st; s_wait := s_wait st;
       s_fly := s_fly st; s_next := s_next st; s_answers := s_answers st; s_inserts := s_inserts st |}
  end.

Fixpoint srun (app : list row -> list row -> list row) (st : sstate) (h : list sact) : sstate :=
  match h with
  | [] => st
  | a :: r => srun app (sstep app st a) r
  end.

(* the property *)
Definition s_all_indexed (st : sstate) : bool := forallb (indexed_typed (s_table st)) (s_acked st).

(* what processRequest has to guarantee *)
Definition sound_append (app : list row -> list row -> list row) : Prop :=
  forall buf rows, (app buf rows = [] -> rows = []) /\ incl rows (buf ++ app buf rows).

(* ------------------------------------------------------------------ correspondence cases
   observed per history: the answer to every request in arrival order, the time_series INSERTs in the order they
   were answered (rows, scripted outcome), the sample rows every request sent *)
Record scase := {
  sc_id : Z;
  sc_actions : list sact;
  sc_acks : list bool;
  sc_inserts : list (list row * bool);
  sc_samples : list (list sample)
}.

Fixpoint ack_of (answers : list (Z * bool)) (i : Z) : option bool :=
  match answers with
  | [] => None
  | (j, a) :: r => if j =? i then Some a else ack_of r i
  end.
Definition obool_eqb (a : option bool) (b : bool) : bool := match a with Some x => Bool.eqb x b | None => false end.
Fixpoint acks_match (answers : list (Z * bool)) (i : Z) (obs : list bool) : bool :=
  match obs with
  | [] => true
  | b :: r => obool_eqb (ack_of answers i) b && acks_match answers (i + 1) r
  end.
Fixpoint inserts_match (a b : list (list row * bool)) : bool :=
  match a, b with
  | [], [] => true
  | (r1, o1) :: a', (r2, o2) :: b' => Bool.eqb o1 o2 && rows_eqb (sort_rows r1) (sort_rows r2) && inserts_match a' b'
  | _, _ => false
  end.
Definition s_mismatch (c : scase) : bool :=
  let st := srun append_all sinit (sc_actions c) in
  negb ((s_next st =? Z.of_nat (length (sc_acks c))) && acks_match (s_answers st) 0 (sc_acks c)
        && inserts_match (rev (s_inserts st)) (sc_inserts c)).

(* the property's oracle on what the IMPLEMENTATION did: rows of the INSERTs that succeeded, samples of the requests answered 2xx *)
Fixpoint acked_samples (acks : list bool) (spl : list (list sample)) : list sample :=
  match acks, spl with
  | a :: ar, s :: sr => (if a then s else []) ++ acked_samples ar sr
  | _, _ => []
  end.
Definition s_violation (c : scase) : bool :=
  let stored := flat_map fst (filter snd (sc_inserts c)) in
  negb (forallb (indexed_typed stored) (acked_samples (sc_acks c) (sc_samples c))).

Definition sids (f : scase -> bool) (cs : list scase) : list Z := map sc_id (filter f cs).
(* [mismatch; violation] *)
Definition sreport (cs : list scase) : list (list Z) := [sids s_mismatch cs; sids s_violation cs].
