(* C08 end to end: the reference of a metric query stated over the STORED DATA.
   The rows "leaving the log pipeline" of LogqlMetricSem.sem / metric_ref are the lines C07's reference
   LogqlSem.log_rows2 defines (window, type, matchers, then run_stages: line filters, label filters, json stages,
   drops, each reading the labels as the stages before it left them); the unwrap stage that ends the pipeline of an
   unwrapped range aggregation belongs to the range function, not to the log part.  Executable definitions only. *)
From Coq Require Import List ZArith NArith QArith Qcanon String Bool.
From Qryn Require Import lib.Strs model.Sql model.Logql model.LogqlPlan model.SqlEval model.LogqlSem model.LogqlMetricSem.
Import ListNotations.
Open Scope Z_scope.

Definition strip_unwrap (ppl : list stage) : list stage :=
  match rev ppl with PUnwrap _ :: r => rev r | _ => ppl end.
Definition log_part (s : script) : strsel :=
  {| sel_matchers := sel_matchers (stream_selector s); sel_pipeline := strip_unwrap (sel_pipeline (stream_selector s)) |}.

(* a line of the log reference as a row / an entry of the metric side; fingerprints are UInt64 on both sides *)
Definition mrow_of (o : outrow) : mrow :=
  {| r_fp := Z.to_N (o_fp o); r_ts := o_ts o; r_labels := o_labels o; r_line := o_line o; r_val := qz 0 |}.
Definition entry_of_out (o : outrow) : entry := {| e_labels := o_labels o; e_ts := o_ts o; e_line := o_line o |}.

Section E2E.
  Variable re_match : string -> string -> bool.
  Variable parse_float : string -> option Q.
  Variable json_get : string -> list string -> string.
  Variable hash_labels : LogqlSem.labels -> Z.         (* the fingerprint ParserPlanner gives a re-labelled line *)
  Variable to_float : string -> Qc.
  Variable quantile_o : string -> list Qc -> Qc.
  Variable varpop stddevpop : list Qc -> Qc.

  Definition log_lines (s : script) (c : pctx) (d : LogqlSem.database) : list outrow :=
    log_rows2 re_match parse_float json_get hash_labels (log_part s) c d.
  Definition base_of (s : script) (c : pctx) (d : LogqlSem.database) : list mrow := map mrow_of (log_lines s c d).
  (* THE END-TO-END REFERENCE: stored data -> matching lines (C07's run_stages) -> windows, range function, vector
     aggregation, threshold, step (metric_ref) *)
  Definition metric_ref_db (s : script) (c : pctx) (d : LogqlSem.database) : option (list vrow) :=
    metric_ref to_float quantile_o varpop stddevpop s c (map entry_of_out (log_lines s c d)).
End E2E.

Definition has_json (ppl : list stage) : bool := existsb (fun st => match st with PParser PJson _ => true | _ => false end) ppl.
Definition has_relabel (ppl : list stage) : bool :=
  existsb (fun st => match st with PParser PJson _ | PDrop _ => true | _ => false end) ppl.
Definition no_drop (ppl : list stage) : bool := forallb (fun st => match st with PDrop _ => false | _ => true end) ppl.
(* what the writer maintains beyond db_ok: a fingerprint is a function of the label set, and is a UInt64 *)
Definition fp_of_labels_ok (d : LogqlSem.database) : Prop :=
  (forall s1 s2, List.In s1 (d_series d) -> List.In s2 (d_series d) -> ts_labels s1 = ts_labels s2 -> ts_fp s1 = ts_fp s2)
  /\ (forall s, List.In s (d_series d) -> 0 <= ts_fp s).
