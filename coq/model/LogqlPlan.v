(* Transcription of reader/logql/logql_transpiler_v2/clickhouse_planner: the planner object tree
   built by planner.plan() (analyze.go, planner.go) and the Process method of every planner,
   as functions over the Sql.v object tree. Process methods are stateful in Go: the shared
   fingerprint / labels WITH caches (planner.fpCache, planner.labelsCache), the id counter of
   shared.PlannerContext, and LineFilterPlanner.Val (overwritten by Process) are threaded
   explicitly, so that executing one plan object several times (live tail) is expressible. *)
From Coq Require Import List ZArith NArith String Ascii Bool.
From Qryn Require Import lib.Strs lib.CivilDate model.Sql model.SqlRender model.Logql.
Import ListNotations.
Open Scope string_scope.

(* shared.PlannerContext, the fields the planners read *)
Record pctx := {
  c_from_ns : Z; c_to_ns : Z;               (* ctx.From.UnixNano(), ctx.To.UnixNano() *)
  c_limit : Z; c_asc : bool; c_cluster : bool; c_type : Z; c_finalize : bool;   (* CHFinalize *)
  c_step_ns : Z;
  t_gin : string; t_samples : string; t_ts : string; t_ts_dist : string; t_m15 : string
}.

(* mutable state reachable from Process: caches are set once per plan object *)
Record pst := {
  fp_cache : option (string * select);
  labels_cache : option (string * select);
  pid : N                                    (* PlannerContext.id *)
}.
Definition pst0 := {| fp_cache := None; labels_cache := None; pid := 0 |}.
Definition next_id (st : pst) : N * pst :=
  let i := (pid st + 1)%N in (i, {| fp_cache := fp_cache st; labels_cache := labels_cache st; pid := i |}).
Definition set_fp_cache w (st : pst) := {| fp_cache := Some w; labels_cache := labels_cache st; pid := pid st |}.
Definition set_labels_cache w (st : pst) := {| fp_cache := fp_cache st; labels_cache := Some w; pid := pid st |}.
(* MainFinalizerPlanner.Process (the root of every plan) first resets planner.fpCache / planner.labelsCache *)
Definition clear_caches (st : pst) : pst := {| fp_cache := None; labels_cache := None; pid := pid st |}.

(* FormatFromDate(t) = t.UTC().Add(-30 min).Format("2006-01-02") as a day number *)
Definition from_day (from_ns : Z) : Z := (from_ns - 1800 * 1000000000) / (86400 * 1000000000).
Definition format_from_date (c : pctx) : expr := DateV (from_day (c_from_ns c)).

(* GetTypes *)
Definition get_types (c : pctx) : expr :=
  In (Id "type") [IntV (if Z.eqb (c_type c) 0 then 1 else c_type c); IntV 0].

Definition sql_match (col pat : expr) : expr := Fn "match" [col; pat].

(* ---------- planner objects ---------- *)
Inductive planner :=
 | PStreamSelect (ms : list matcher)
 | PSimpleLabelFilter (f : label_filter) (fpsel : planner)
 | PFingerprintFilter (fp main : planner)
 | PMainInit
 | PTimeSeriesInit
 | PLineFilterP (op : lfop) (val : string) (re_lit : option (string * bool)) (main : planner)
 | PLabelFilterP (f : label_filter) (main : planner)
 | PParserP (fn : parser_fn) (params : list parser_param) (main : planner)
 | PDropP (params : list (string * option string)) (main : planner)
 | PLabelsJoin (main fp ts : planner) (with_labels_cache : bool)
 | PMainRenew (main : planner) (use_labels : bool)
 | PMainOrderBy (cols : list string) (main : planner)
 | PMainLimit (main : planner)
 | PMainFinalizer (main : planner) (is_matrix is_final : bool).

(* ---------- StreamSelectPlanner ---------- *)
Definition val_clause (m : matcher) : expr :=
  match m_op m with
  | MEq => Eq (Id "val") (StrV (m_val m))
  | MNeq => Neq (Id "val") (StrV (m_val m))
  | MRe => Eq (sql_match (Id "val") (StrV (m_val m))) (IntV 1)
  | MNre => Eq (sql_match (Id "val") (StrV (m_val m))) (IntV 0)
  end.
Definition sel_clause (m : matcher) : expr := And [Eq (Id "key") (StrV (m_name m)); val_clause m].
Definition stream_select (c : pctx) (ms : list matcher) : select :=
  let clauses := map sel_clause ms in
  and_having [Eq (BitSetAnd clauses) (IntV (2 ^ Z.of_nat (List.length clauses) - 1))]
   (set_groupby [Id "fingerprint"]
    (and_where [Ge (Id "date") (format_from_date c); get_types c; Or clauses]
     (set_from (Id (t_gin c)) (set_cols [Id "fingerprint"] empty_select)))).

(* ---------- LabelFilterPlanner.makeSqlCond ---------- *)
Definition lblop_numeric (s : simple_lf) : bool :=
  match slf_fn s with
  | LDeq | LGt | LGe | LLt | LLe => true
  | LNeq => match slf_str s with None => true | Some _ => false end
  | _ => false
  end.
Definition simple_cond (getter : option (string -> expr)) (s : simple_lf) : option expr :=
  let label := match getter with
               | Some g => g (slf_label s)
               | None => Idx (Id "labels") (QRaw (slf_label s)) end in
  if lblop_numeric s then
    let lbl := Fn "toFloat64OrNull" [label] in
    match slf_num s with
    | None => None
    | Some (txt, f) =>
      if String.eqb txt "" then None else
      let op := match slf_fn s with
                | LDeq => Some Eq | LNeq => Some Neq | LGt => Some Gt | LGe => Some Ge | LLt => Some Lt | LLe => Some Le
                | _ => None end in
      match op with
      | Some mk => Some (And [NotNull lbl; mk lbl (FloatV f)])
      | None => None
      end
    end
  else
    match slf_str s with
    | None => None
    | Some v =>
      match slf_fn s with
      | LEq => Some (Eq label (StrV v))
      | LRe => Some (Eq (sql_match label (StrV v)) (IntV 1))
      | LNre => Some (Eq (sql_match label (StrV v)) (IntV 0))
      | LNeq => Some (Neq label (StrV v))
      | _ => None
      end
    end.
Fixpoint lf_cond (getter : option (string -> expr)) (f : label_filter) : option expr :=
  match f with
  | LF head op tail =>
    let left := match head with
                | HSimple s => simple_cond getter s
                | HComplex f' => lf_cond getter f'
                end in
    match left with
    | None => None
    | Some l =>
      match tail with
      | None => Some l
      | Some t =>
        match lf_cond getter t with
        | None => None
        | Some r => match op with
                    | Some true => Some (And [l; r])
                    | Some false => Some (Or [l; r])
                    | None => None
                    end
        end
      end
    end
  end.

(* ---------- LineFilterPlanner ---------- *)
(* doLike: escape the LIKE metacharacters of the value (\ % _), wrap in %...%, quote once *)
Definition esc_like (s : string) : string :=
  map_string (fun c => if Ascii.eqb c "\" then "\\" else if Ascii.eqb c "%" then "\%" else if Ascii.eqb c "_" then "\_" else ch c) s.
Definition like_pattern (val : string) : string := "%" ++ esc_like val ++ "%".
Definition do_like (like_op val : string) : expr :=
  Eq (Fn like_op [Id "samples.string"; StrV (like_pattern val)]) (IntV 1).
Definition line_filter_clause (op : lfop) (val : string) (re_lit : option (string * bool)) : expr :=
  match op with
  | LFContains => do_like "like" val
  | LFNotContains => do_like "notLike" val
  | LFRe => match re_lit with
            | Some (lit, insens) => do_like (if insens then "ilike" else "like") lit
            | None => Eq (sql_match (Id "string") (StrV val)) (IntV 1)
            end
  | LFNre => match re_lit with
             | Some (lit, insens) => do_like (if insens then "notILike" else "notLike") lit
             | None => Eq (sql_match (Id "string") (StrV val)) (IntV 0)
             end
  end.

(* ---------- ParserPlanner (json with parameters) ---------- *)
Definition json_path_sql (path : list string) : expr :=
  WithId (fun id =>
    let jp := Id ("jp_" ++ string_of_N id) in
    Fn "if" [Sep " == " [Fn "JSONType" [Id "string"; Sep " as " [Sep "," (map StrV path); jp]]; StrV "String"];
             Fn "JSONExtractString" [Id "string"; jp];
             Fn "JSONExtractRaw" [Id "string"; jp]]).
Definition sql_json_parser (labels : list string) (paths : list (list string)) : expr :=
  Sep "" [Raw "mapFromArrays(["; Sep "," (map StrV labels); Raw "], ["; Sep "," (map json_path_sql paths); Raw "])"].
Fixpoint all_paths (ps : list parser_param) : option (list (list string)) :=
  match ps with
  | [] => Some []
  | p :: r => match pp_path p, all_paths r with
              | Some x, Some xs => Some (x :: xs)
              | _, _ => None end
  end.
Definition fp_of_labels : expr := Raw "cityHash64(arraySort(arrayZip(mapKeys(labels),mapValues(labels))))".

(* ---------- PlannerDrop: mapDropFilter ---------- *)
Definition drop_clause (p : string * option string) : expr :=
  let key_only := Sep "" [Raw "k!="; StrV (fst p)] in
  match snd p with
  | Some v => if String.eqb v "" then key_only
              else Sep "" [Raw "(k, v)!=("; StrV (fst p); Raw ", "; StrV v; Raw ")"]
  | None => key_only
  end.
Definition map_drop_filter (col : expr) (params : list (string * option string)) : expr :=
  Fn "mapFilter" [Sep "" [Raw "(k,v) -> "; Sep " and " (map drop_clause params)]; col].

(* ---------- the SELECT skeletons ---------- *)
Definition main_init (c : pctx) : select :=
  and_prewhere [Ge (Id "samples.timestamp_ns") (IntV (c_from_ns c));
                Lt (Id "samples.timestamp_ns") (IntV (c_to_ns c)); get_types c]
   (set_from (SimpleCol (t_samples c) "samples")
    (set_cols [SimpleCol "samples.timestamp_ns" "timestamp_ns"; SimpleCol "samples.fingerprint" "fingerprint";
               SimpleCol "samples.string" "string"; Col (Fn "toFloat64" [IntV 0]) "value"] empty_select)).
Definition ts_labels_expr : string :=
  "mapFromArrays(arrayMap(x -> x.1, JSONExtractKeysAndValues(time_series.labels, 'String') as rawlbls), arrayMap(x -> x.2, rawlbls))".
Definition ts_init (c : pctx) : select :=
  and_prewhere [Ge (Id "time_series.date") (format_from_date c); get_types c]
   (set_from (SimpleCol (t_ts_dist c) "time_series")
    (set_cols [SimpleCol "time_series.fingerprint" "fingerprint"; Col (Raw ts_labels_expr) "labels"] empty_select)).
Definition join_type (c : pctx) : string := if c_cluster c then "GLOBAL ANY LEFT " else "ANY LEFT ".

(* ---------- Process ---------- *)
Definition res (A : Type) := option A.
Definition bind {A B} (x : res A) (f : A -> res B) : res B := match x with Some a => f a | None => None end.
Notation "'do' x <- e ; k" := (bind e (fun x => k)) (at level 200, x pattern, e at level 100, k at level 200).

(* WithConnectorPlanner: Main first, then the cached or freshly processed With *)
Definition with_connector (proc : planner -> pctx -> pst -> res (select * pst * planner))
    (mainp withp : planner) (c : pctx) (st : pst) (fn : select -> string * select -> select)
    : res (select * pst * planner * planner) :=
  do (main, st1, mainp') <- proc mainp c st;
  match fp_cache st1 with
  | Some w => Some (fn (with_ [w] main) w, st1, mainp', withp)
  | None =>
    do (wreq, st2, withp') <- proc withp c st1;
    let w := ("fp_sel", wreq) in
    Some (fn (with_ [w] main) w, set_fp_cache w st2, mainp', withp')
  end.

Fixpoint process (p : planner) (c : pctx) (st : pst) {struct p} : res (select * pst * planner) :=
  match p with
  | PStreamSelect ms => Some (stream_select c ms, st, p)
  | PSimpleLabelFilter f fpsel =>
    do (main, st1, fpsel') <- process fpsel c st;
    let '(i, st2) := next_id st1 in
    let id := "subsel_" ++ string_of_N i in
    let req := and_where [In (Id "fingerprint") [WRef id main]]
                 (set_from (Id (t_ts c)) (set_cols [Id "fingerprint"] (with_ [(id, main)] empty_select))) in
    do cond <- lf_cond (Some (fun s => Fn "JSONExtractString" [Id "labels"; QRaw s])) f;
    Some (and_where [cond] req, st2, PSimpleLabelFilter f fpsel')
  | PFingerprintFilter fp main =>
    do (r, st1, main', fp') <- with_connector process main fp c st
           (fun q w => and_where [In (Id "samples.fingerprint") [WRef (fst w) (snd w)]] q);
    Some (r, st1, PFingerprintFilter fp' main')
  | PMainInit => Some (main_init c, st, p)
  | PTimeSeriesInit => Some (ts_init c, st, p)
  | PLineFilterP op val re_lit main =>
    do (req, st1, main') <- process main c st;
    Some (and_where [line_filter_clause op val re_lit] req, st1, PLineFilterP op val re_lit main')
  | PLabelFilterP f main =>
    do (req, st1, main') <- process main c st;
    do cond <- lf_cond None f;
    Some (and_where [cond] req, st1, PLabelFilterP f main')
  | PParserP fn params main =>
    match fn with
    | PJson =>
      do (req, st1, main') <- process main c st;
      do paths <- all_paths params;
      let sel := patch_col (s_cols req) "labels"
                   (fun object => Fn "mapUpdate" [object; sql_json_parser (map pp_label params) paths]) in
      let req1 := set_cols sel req in
      Some (set_cols (patch_col (s_cols req1) "fingerprint" (fun _ => fp_of_labels)) req1, st1, PParserP fn params main')
    | _ => None
    end
  | PDropP params main =>
    do (req, st1, main') <- process main c st;
    Some (set_cols (patch_col (s_cols req) "labels" (fun l => map_drop_filter l params)) req, st1, PDropP params main')
  | PLabelsJoin main fp ts with_lc =>
    do (tsreq, st1, ts', fp') <- with_connector process ts fp c st
           (fun q w => and_prewhere [In (Id "time_series.fingerprint") [WRef (fst w) (snd w)]] q);
    do (mainreq, st2, main') <- process main c st1;
    let wmain := ("main", mainreq) in
    let wts := ("_time_series", tsreq) in
    let st3 := if with_lc then set_labels_cache wts st2 else st2 in
    Some (set_joins [(join_type c, WRef "_time_series" tsreq,
                      Some (Eq (Id "main.fingerprint") (Id "_time_series.fingerprint")))]
           (set_from (WRef "main" mainreq)
            (set_cols [SimpleCol "main.fingerprint" "fingerprint"; SimpleCol "main.timestamp_ns" "timestamp_ns";
                       SimpleCol "_time_series.labels" "labels"; SimpleCol "main.string" "string";
                       SimpleCol "main.value" "value"]
             (with_ [wmain; wts] empty_select))), st3, PLabelsJoin main' fp' ts' with_lc)
  | PMainRenew main use_labels =>
    do (m, st1, main') <- process main c st;
    let '(i, st2) := next_id st1 in
    let a := "subsel_" ++ string_of_N i in
    Some (set_cols ([SimpleCol "samples.timestamp_ns" "timestamp_ns"; SimpleCol "samples.fingerprint" "fingerprint"]
                    ++ (if use_labels then [SimpleCol "samples.labels" "labels"] else [])
                    ++ [SimpleCol "samples.string" "string"; SimpleCol "samples.value" "value"])
           (set_from (Col (WRef a m) "samples") (with_ [(a, m)] empty_select)), st2, PMainRenew main' use_labels)
  | PMainOrderBy cols main =>
    do (req, st1, main') <- process main c st;
    Some (set_orderby (map (fun x => Ord (Id x) (c_asc c)) cols) req, st1, PMainOrderBy cols main')
  | PMainLimit main =>
    do (req, st1, main') <- process main c st;
    Some ((if Z.eqb (c_limit c) 0 then req else set_limit (Some (IntV (c_limit c))) req), st1, PMainLimit main')
  | PMainFinalizer main is_matrix is_final =>
    do (req, st1, main') <- process main c (clear_caches st);
    let p' := PMainFinalizer main' is_matrix is_final in
    if negb (c_finalize c) then Some (req, st1, p') else
    let a := "prefinal" in
    let base cols ob := set_orderby ob (set_from (WRef a req) (set_cols cols (with_ [(a, req)] empty_select))) in
    if is_matrix then
      Some (base [SimpleCol (a ++ ".fingerprint") "fingerprint"; SimpleCol (a ++ ".labels") "labels";
                  SimpleCol (a ++ ".value") "value"; SimpleCol (a ++ ".timestamp_ns") "timestamp_ns"]
                 [Ord (Id "fingerprint") true; Ord (Id "timestamp_ns") true], st1, p')
    else
      Some (base [SimpleCol (a ++ ".fingerprint") "fingerprint"; SimpleCol (a ++ ".labels") "labels";
                  SimpleCol (a ++ ".string") "string"; SimpleCol (a ++ ".timestamp_ns") "timestamp_ns"]
                 (if is_final then [Ord (Id "fingerprint") (c_asc c); Ord (Id "timestamp_ns") (c_asc c)]
                  else [Ord (Id "timestamp_ns") (c_asc c)]), st1, p')
  end.

(* ---------- planner.plan() for a stream-selector (log) script ---------- *)
Definition is_parser (s : stage) := match s with PParser _ _ => true | _ => false end.
Definition is_label_filter (s : stage) := match s with PLabelFilter _ => true | _ => false end.

(* simpleLabelOperation: label filters before the first parser *)
Fixpoint simple_ops (ppl : list stage) : list bool :=
  match ppl with
  | [] => []
  | s :: r => if is_parser s then map (fun _ => false) ppl else is_label_filter s :: simple_ops r
  end.
(* labelsJoinIdx: None = -1 *)
Fixpoint labels_join_idx (ppl : list stage) (simple : list bool) (i : nat) : option nat :=
  match ppl, simple with
  | s :: r, b :: bs =>
    match s with
    | PParser _ _ => Some i
    | PLabelFilter _ => if b then labels_join_idx r bs (S i) else Some i
    | PLineFormat _ => Some i
    | PDrop _ => Some i
    | _ => labels_join_idx r bs (S i)
    end
  | _, _ => None
  end.
Fixpoint renew_after (ppl : list stage) : list bool :=
  match ppl with
  | [] => []
  | s :: r => (match r with [] => false | n :: _ => is_parser s && negb (is_parser n) end) :: renew_after r
  end.

Definition plan_ts (ms : list matcher) (ppl : list stage) (simple : list bool) : planner :=
  fold_left (fun fp sb => match fst sb, snd sb with
                          | PLabelFilter f, true => PSimpleLabelFilter f fp
                          | _, _ => fp end) (combine ppl simple) (PStreamSelect ms).

Definition plan_stage (s : stage) (simple : bool) (cur : planner) : option planner :=
  match s with
  | PLineFormat _ => None                      (* LineFormatPlanner: not transcribed yet *)
  | PLabelFilter f => Some (if simple then cur else PLabelFilterP f cur)
  | PLineFilter op v rl => Some (PLineFilterP op v rl cur)
  | PParser fn ps => Some (PParserP fn ps cur)
  | PUnwrap _ => None
  | PDrop ps => Some (if simple then cur else PDropP ps cur)
  | PLabelFormat => Some cur                   (* no branch of planSpl handles label_format *)
  end.

Fixpoint plan_spl (ppl : list stage) (simple renew : list bool) (i : nat) (lji : option nat) (fp cur : planner) : option planner :=
  match ppl, simple, renew with
  | s :: r, b :: bs, rn :: rns =>
    let cur1 := if match lji with Some j => Nat.eqb i j | None => false end
                then PLabelsJoin (PMainOrderBy ["timestamp_ns"] cur) fp PTimeSeriesInit true else cur in
    match plan_stage s b cur1 with
    | None => None
    | Some cur2 =>
      let cur3 := if rn then PMainRenew cur2 (match lji with Some j => Nat.leb j i | None => false end) else cur2 in
      plan_spl r bs rns (S i) lji fp cur3
    end
  | _, _, _ => Some cur
  end.

Definition plan_log (sel : strsel) (finalize : bool) : option planner :=
  let ppl := sel_pipeline sel in
  let simple := simple_ops ppl in
  let lji := labels_join_idx ppl simple 0 in
  let fp := plan_ts (sel_matchers sel) ppl simple in
  match plan_spl ppl simple (renew_after ppl) 0 lji fp (PFingerprintFilter fp PMainInit) with
  | None => None
  | Some spl =>
    let p1 := PMainOrderBy ["timestamp_ns"] spl in
    let p2 := if finalize then PMainLimit p1 else p1 in
    let p3 := match lji with None => PLabelsJoin p2 fp PTimeSeriesInit false | Some _ => p2 end in
    Some (PMainFinalizer p3 false finalize)
  end.

(* Plan(script, finalize).Process(ctx) followed by String(): what the reader sends to ClickHouse *)
Definition log_sql (sel : strsel) (finalize : bool) (c : pctx) : option string :=
  match plan_log sel finalize with
  | None => None
  | Some p => match process p c pst0 with
              | None => None
              | Some (q, _, _) => render q (c_cluster c)
              end
  end.
